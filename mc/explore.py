# -*- coding: utf-8 -*-
"""
E1 -- stateless, deviation-bounded choice-sequence explorer.

A harness body is ``run(ch) -> observation``; wherever the environment could answer in more than
one way it calls ``ch.choose(n, costs=None)``.  ``explore`` replays a prefix of recorded choices,
takes choice 0 (the default) at every later point and recurses on every alternative at every point
past the prefix whose accumulated cost stays within the bound.  Every execution runs on fresh objects
(the body builds them); nothing is copied or rolled back.  A replayed choice that is out of range is a
hard harness error: some nondeterminism is not owned.
"""


class HarnessError(Exception):
    pass


class Chooser:
    __slots__ = ("prefix", "points", "choices")

    def __init__(self, prefix=()):
        self.prefix = list(prefix)
        self.points = []  # (n, costs)
        self.choices = []

    def choose(self, n, costs=None):
        """Pick one of n alternatives; alternative 0 is the default (cost 0 unless costs says otherwise)."""
        if n <= 0:
            raise HarnessError("choice point without alternatives")
        i = len(self.choices)
        if i < len(self.prefix):
            c = self.prefix[i]
            if c >= n:
                raise HarnessError(
                    "replayed choice %d out of range %d at point %d (nondeterminism not owned)" % (c, n, i)
                )
        else:
            c = 0
        self.points.append((n, costs))
        self.choices.append(c)
        return c


def _cost(costs, alt):
    if costs is None:
        return 0 if alt == 0 else 1
    return costs[alt]


def explore(run, bound=None, st=None, max_execs=None):
    """
    Yield (choices, observation) for every execution within the deviation bound (None = unbounded,
    i.e. every choice sequence).  Depth-first, default-first.
    """
    stack = [()]
    execs = 0
    while stack:
        prefix = stack.pop()
        ch = Chooser(prefix)
        obs = run(ch)
        if len(ch.choices) < len(prefix):
            raise HarnessError("execution ended before the replayed prefix was consumed")
        execs += 1
        if st is not None:
            st.n("executions")
            st.n("transitions", len(ch.choices) - len(prefix) + (1 if prefix else 0))
            st.n("states", len(ch.choices) - len(prefix) + (1 if prefix else 0) + (0 if prefix else 1))
            st.mx("choice_points", len(ch.choices))
        yield list(ch.choices), obs
        if max_execs is not None and execs >= max_execs:
            if st is not None:
                st.exhaustive = False
                st.note("execution cap %d hit in one scenario" % max_execs)
            return
        if st is not None and st.out_of_time():
            return
        cum = 0
        new = []
        for i, (n, costs) in enumerate(ch.points):
            if i >= len(prefix):
                for alt in range(1, n):
                    if bound is None or cum + _cost(costs, alt) <= bound:
                        new.append(tuple(ch.choices[:i]) + (alt,))
            cum += _cost(costs, ch.choices[i])
        # default-first DFS: push in reverse so that earliest deviation is explored first
        stack.extend(reversed(new))


def run_once(run, choices):
    ch = Chooser(choices)
    obs = run(ch)
    return list(ch.choices), obs
