# developer tool: markdown tables of fixed / open findings from known_findings.json + known_findings.d/*.json
import glob, json, os, subprocess
V = os.path.dirname(os.path.dirname(os.path.abspath(__file__)))
ents = []
for p in [os.path.join(V, "known_findings.json")] + sorted(glob.glob(os.path.join(V, "known_findings.d", "*.json"))):
    if os.path.exists(p):
        ents += json.load(open(p))["findings"]
fixed = {}
for e in ents:
    if e["status"] == "fixed":
        fixed.setdefault(e.get("commit", "?"), []).append(e)
log = subprocess.run(["git", "-C", "/repo", "log", "--reverse", "--format=%h %s"], capture_output=True, text=True).stdout.splitlines()
print("| commit | property | finding entries | what was corrected |\n|---|---|---|---|")
for line in log:
    h, _, subj = line.partition(" ")
    if not subj.startswith("fix:"):
        continue
    es = fixed.get(h, [])
    print("| %s | %s | %s | %s |" % (h, ", ".join(sorted({e["property"] for e in es})) or "-", ", ".join(e["id"] for e in es) or "-", subj[5:]))
print()
print("| entry | property | scope | class | what fails |\n|---|---|---|---|---|")
for e in sorted(ents, key=lambda e: e["id"]):
    if e["status"] == "open":
        print("| %s | %s | %s | `%s` | %s |" % (e["id"], e["property"], "witnesses (%d)" % len(e["witnesses"]) if e.get("witnesses") else "class", e["class"], e["title"].replace("|", "/")))
