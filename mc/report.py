# developer tool: markdown tables of fixed / open findings from known_findings.json + known_findings.d/*.json
import glob, json, os, subprocess
V = os.path.dirname(os.path.dirname(os.path.abspath(__file__)))
ents = []
for p in [os.path.join(V, "known_findings.json")] + sorted(glob.glob(os.path.join(V, "known_findings.d", "*.json"))):
    if os.path.exists(p):
        ents += json.load(open(p))["findings"]
fixed = {}
for e in ents:
    if e["status"] == "fixed":
        fixed.setdefault(e.get("commit", "?"), []).append(e)
log = subprocess.run(["git", "-C", "/repo", "log", "--reverse", "--format=%h %s"], capture_output=True, text=True).stdout.splitlines()
print("| commit | property | finding entries | what was corrected |\n|---|---|---|---|")
for line in log:
    h, _, subj = line.partition(" ")
    if not subj.startswith("fix:"):
        continue
    es = fixed.get(h, [])
    print("| %s | %s | %s | %s |" % (h, ", ".join(sorted({e["property"] for e in es})) or "-", ", ".join(e["id"] for e in es) or "-", subj[5:]))
print()
print("| entry | property | scope | class | what fails |\n|---|---|---|---|---|")
for e in sorted(ents, key=lambda e: e["id"]):
    if e["status"] == "open":
        print("| %s | %s | %s | `%s` | %s |" % (e["id"], e["property"], "witnesses (%d)" % len(e["witnesses"]) if e.get("witnesses") else "class", e["class"], e["title"].replace("|", "/")))

# --- seeds table
print()
print("| seed | needs | caught by (class) | history |\n|---|---|---|---|")
for p in sorted(glob.glob(os.path.join(V, "seeded", "*", "meta.json"))):
    m = json.load(open(p))
    v = m.get("verif", {})
    sid = os.path.basename(os.path.dirname(p))
    needs = (m.get("needs") or "").replace("|", "/").replace("\n", " ")
    summ = (m.get("summary") or "").replace("|", "/").replace("\n", " ")
    caught = v.get("detected_by") or "?"
    if v.get("violation_class"):
        caught += ": `%s`" % v["violation_class"]
    print("| %s | %s — needs: %s | %s | %s |" % (sid, summ[:160], needs[:200], caught, (v.get("history") or "").replace("|", "/")))

# --- per-check table
import importlib, sys
sys.path.insert(0, V)
print()
print("| id | level | technique | quick bounds | thorough bounds |\n|---|---|---|---|---|")
for pid in open(os.path.join(V, "claimed.txt")).read().split():
    m = importlib.import_module("mc.checks." + pid)
    b = getattr(m, "BOUNDS", {})
    print("| %s | %s | %s | %s | %s |" % (pid, m.LEVEL, m.TECHNIQUE[:140], json.dumps(b.get("quick", {}))[:200], json.dumps(b.get("thorough", {}))[:200]))
