# -*- coding: utf-8 -*-
"""Glue: explore every schedule of one scenario under one configuration."""
from mc.explore import explore, run_once

from . import harness as H
from . import pool as P
from . import vloop as V

SCHEDULED = ("asyncio-thr", "asyncio-inl", "threadpool", "entry-graphql")


def run(cfg, scn, ch, free=True, fast=True):
    """one execution; out-of-order completions are free (cost 0) iff ``free``."""
    old_v, old_p = V.ORDER_COST, P.ORDER_COST
    V.ORDER_COST = P.ORDER_COST = 0 if free else 1
    try:
        return H.run_config(cfg, scn, ch, fast=fast)
    finally:
        V.ORDER_COST, P.ORDER_COST = old_v, old_p


def schedules(cfg, scn, st, free=True, bound=1, max_execs=None, fast=True):
    """yield (choices, obs, world) for every schedule of scn under cfg within the bound."""
    if cfg not in SCHEDULED:
        obs, world = H.run_config(cfg, scn, None, fast=fast)
        st.n("executions")
        st.n("states")
        st.n("transitions")
        yield [], obs, world
        return
    body = lambda ch: run(cfg, scn, ch, free, fast)  # noqa
    for choices, (obs, world) in explore(body, bound=bound, st=st, max_execs=max_execs):
        yield choices, obs, world


def replay(cfg, scn, choices, free=True, fast=True):
    if cfg not in SCHEDULED:
        return H.run_config(cfg, scn, None, fast=fast)
    return run_once(lambda ch: run(cfg, scn, ch, free, fast), choices)[1]


def invoked_paths(scn, fast=True):
    """response paths of custom resolvers invoked in a fault-free blocking run, in invocation order."""
    obs, w = H.run_config("blocking-opt", dict(scn, overrides={}), None, fast=fast)
    paths = []
    for e in w.log:
        if e[0] == "invoke" and e[1] not in paths:
            paths.append(e[1])
    return paths, len([e for e in w.log if e[0] == "invoke"])
