# -*- coding: utf-8 -*-
"""
Virtual asyncio event loop owned by the explorer.

* no selector, no threads, virtual time;
* ``run_in_executor`` does not start a thread: it registers an *external completion* that the
  explorer fires when it decides that this pool job finishes;
* harness code registers further external completions with ``defer(label, thunk)`` (what a
  coroutine resolver awaits);
* ``drive(main, ch)`` runs the loop by hand.  At every point the environment may either let the
  loop run one iteration (exactly the handles that were ready at its start, like ``_run_once``) or
  complete one pending external item.  Default: iterate while there is ready work, otherwise
  complete the oldest pending item.  Alternatives: complete any pending item now (out of order:
  free when the loop is quiescent; *early*, i.e. while ready work exists: one deviation).

Stock Task / Future / gather are used unchanged.
"""
import asyncio
import functools
import gc
from asyncio import events


ORDER_COST = 0  # cost of completing a pending item other than the oldest when the loop is quiescent


class Pending:
    __slots__ = ("label", "fut", "thunk", "seq")

    def __init__(self, label, fut, thunk, seq):
        self.label = label
        self.fut = fut
        self.thunk = thunk
        self.seq = seq


class VLoop(asyncio.BaseEventLoop):
    def __init__(self):
        super().__init__()
        self._vtime = 0.0
        self.pending = []
        self._seq = 0
        self.trace = []
        self.unhandled = []
        self.set_exception_handler(self._on_exc)
        self.on_defer = None

    # -- BaseEventLoop plumbing ---------------------------------------------------------
    def time(self):
        return self._vtime

    def _process_events(self, event_list):
        pass

    def _write_to_self(self):
        pass

    def _on_exc(self, loop, context):
        self.unhandled.append(context.get("message", "") + ":" + repr(context.get("exception")))

    def run_in_executor(self, executor, func, *args):
        fut = self.create_future()
        label = getattr(func, "vlabel", None)
        if label is None:
            inner = getattr(func, "func", func)
            label = "job:" + getattr(inner, "__name__", "fn")
        self._register(label, fut, functools.partial(func, *args))
        return fut

    # -- harness API --------------------------------------------------------------------
    def defer(self, label, thunk):
        """Return a future completed (with thunk() or its exception) when the explorer says so."""
        fut = self.create_future()
        self._register(label, fut, thunk)
        return fut

    def _register(self, label, fut, thunk):
        self._seq += 1
        self.pending.append(Pending(label, fut, thunk, self._seq))
        if self.on_defer is not None:
            self.on_defer(label)

    def _complete(self, p):
        self.trace.append("complete:%s" % (p.label,))
        if p.fut.done():
            return
        try:
            r = p.thunk()
        except BaseException as e:  # noqa
            p.fut.set_exception(e)
        else:
            p.fut.set_result(r)

    def iterate(self):
        """One loop iteration: run the handles that are ready now (timers due now included)."""
        while self._scheduled and self._scheduled[0]._when <= self._vtime:
            import heapq

            h = heapq.heappop(self._scheduled)
            h._scheduled = False
            if not h._cancelled:
                self._ready.append(h)
        n = len(self._ready)
        for _ in range(n):
            h = self._ready.popleft()
            if not h._cancelled:
                h._run()
        self.trace.append("iter")

    def _advance_timers(self):
        while self._scheduled and self._scheduled[0]._cancelled:
            import heapq

            heapq.heappop(self._scheduled)
        if self._scheduled:
            self._vtime = max(self._vtime, self._scheduled[0]._when)
            return True
        return False

    def drive(self, main, ch, max_steps=10000, early_cost=1):
        """
        Run ``main`` (coroutine / awaitable) to completion under the chooser.  Returns
        (status, value) with status in {"ok", "exc", "stuck", "horizon"}.
        """
        old = events._get_running_loop()
        events._set_running_loop(self)
        try:
            task = asyncio.ensure_future(main, loop=self)
            steps = 0
            while not task.done():
                steps += 1
                if steps > max_steps:
                    return ("horizon", None)
                ready = bool(self._ready)
                live = [p for p in self.pending if not p.fut.done()]
                self.pending = live
                if ready:
                    n = 1 + len(live)
                    costs = [0] + [early_cost] * len(live)
                    c = ch.choose(n, costs) if n > 1 else 0
                    if c == 0:
                        self.iterate()
                    else:
                        p = live[c - 1]
                        self.pending.remove(p)
                        self._complete(p)
                elif live:
                    c = ch.choose(len(live), [0] + [ORDER_COST] * (len(live) - 1)) if len(live) > 1 else 0
                    p = live[c]
                    self.pending.remove(p)
                    self._complete(p)
                elif self._advance_timers():
                    self.iterate()
                else:
                    return ("stuck", None)
            # drain what is left so that late callbacks (and their exceptions) are observed: the main task
            # is done, but jobs that are still in flight (items of a failed list, siblings of a failed
            # gather) do finish eventually -- complete them oldest first
            for _ in range(200):
                if self._ready:
                    self.iterate()
                    continue
                live = [p for p in self.pending if not p.fut.done()]
                if not live:
                    break
                self.pending = live[1:]
                self._complete(live[0])
            if task.cancelled():
                return ("cancelled", None)
            exc = task.exception()
            if exc is not None:
                return ("exc", exc)
            return ("ok", task.result())
        finally:
            events._set_running_loop(old)

    def finish(self):
        """Collect GC-timed 'never retrieved' reports and close."""
        gc.collect(1)
        try:
            self._ready.clear()
            self._scheduled.clear()
            self.close()
        except Exception:  # noqa
            pass
