# -*- coding: utf-8 -*-
"""
Baton scheduler for real threads, at CPython 3.12 thread-switch granularity (sys.monitoring).

Every code object of the *traced modules* is instrumented once per process with PY_START and
INSTRUCTION events.  A **scheduling point** is raised on function entry (RESUME polls the eval
breaker), before the instruction that follows a CALL-family instruction (the eval breaker is polled
when the call returns) and before a JUMP_BACKWARD (polled on back edges) -- the places where the 3.12
interpreter may hand the GIL to another thread.  The set of offsets is computed statically from the
bytecode, so it is identical in every execution (sys.settrace's lazily enabled opcode tracing is
not: the first traced execution of a code object sees fewer events).

At a scheduling point a *controlled* thread hands the baton back to the scheduler and blocks on its
own semaphore; the scheduler picks the next thread from the explorer's choice sequence.  Frames
outside the traced modules (all of concurrent.futures) contain no scheduling point, so Future
methods are atomic.  Switching away from a thread that could continue costs one preemption.
"""
import dis
import sys
import threading
import types

from mc.explore import HarnessError

TIMEOUT = 30.0
TOOL = 4
_mon = sys.monitoring
_POINTS = {}  # code object -> frozenset of instruction offsets that are scheduling points
_ACTIVE = [None]
_installed = [False]


def _code_objects(module):
    seen = set()
    out = []

    def add_code(co):
        if id(co) in seen or co.co_filename != module.__file__:
            return
        seen.add(id(co))
        out.append(co)
        for c in co.co_consts:
            if isinstance(c, types.CodeType):
                add_code(c)

    def add_obj(o, depth=0):
        if isinstance(o, (staticmethod, classmethod)):
            o = o.__func__
        if isinstance(o, property):
            for f in (o.fget, o.fset, o.fdel):
                if f is not None:
                    add_obj(f, depth)
            return
        co = getattr(o, "__code__", None)
        if isinstance(co, types.CodeType):
            add_code(co)
        elif isinstance(o, type) and depth < 2 and getattr(o, "__module__", None) == module.__name__:
            for v in vars(o).values():
                add_obj(v, depth + 1)

    for v in list(vars(module).values()):
        add_obj(v)
    return out


def _sched_offsets(co):
    pts = set()
    prev_call = False
    for ins in dis.get_instructions(co):
        if prev_call:
            pts.add(ins.offset)
        name = ins.opname
        prev_call = name.startswith("CALL") and not name.startswith("CALL_INTRINSIC")
        if name == "JUMP_BACKWARD":
            pts.add(ins.offset)
    return frozenset(pts)


def instrument(modules):
    """Instrument the code objects of these modules (idempotent)."""
    if not _installed[0]:
        _mon.use_tool_id(TOOL, "verif-baton")
        _mon.register_callback(TOOL, _mon.events.PY_START, _on_start)
        _mon.register_callback(TOOL, _mon.events.INSTRUCTION, _on_instruction)
        _installed[0] = True
    for m in modules:
        for co in _code_objects(m):
            if co in _POINTS:
                continue
            _POINTS[co] = _sched_offsets(co)
            _mon.set_local_events(TOOL, co, _mon.events.PY_START | _mon.events.INSTRUCTION)


def _on_start(code, offset):
    b = _ACTIVE[0]
    if b is None:
        return
    t = b._by_ident.get(threading.get_ident())
    if t is not None:
        b._yield(t)


def _on_instruction(code, offset):
    b = _ACTIVE[0]
    if b is None:
        return
    if offset in _POINTS.get(code, ()):
        t = b._by_ident.get(threading.get_ident())
        if t is not None:
            b._yield(t)


class _T:
    __slots__ = ("name", "fn", "go", "thread", "done", "exc", "started", "steps")

    def __init__(self, name, fn):
        self.name = name
        self.fn = fn
        self.go = threading.Semaphore(0)
        self.thread = None
        self.done = False
        self.exc = None
        self.started = False
        self.steps = 0


class Baton:
    def __init__(self, ch, modules, max_points=20000):
        instrument(modules)
        self.ch = ch
        self.threads = []
        self.back = threading.Semaphore(0)
        self.trace = []
        self.points = 0
        self.max_points = max_points
        self.aborted = False
        self._by_ident = {}

    # -- API for harness bodies ---------------------------------------------------------
    def spawn(self, name, fn):
        t = _T(name, fn)
        self.threads.append(t)
        if threading.get_ident() in self._by_ident:
            # spawned from inside a controlled thread (pool.submit inside a callback): start it now,
            # it parks until the scheduler gives it its first turn
            self._start(t)
        return t

    def _start(self, t):
        t.started = True
        ready = threading.Semaphore(0)
        t.thread = threading.Thread(target=self._body, args=(t, ready), name="baton-" + t.name, daemon=True)
        t.thread.start()
        ready.acquire()

    # -- thread side --------------------------------------------------------------------
    def _body(self, t, ready):
        ready.release()
        t.go.acquire()  # wait for the first turn
        if self.aborted:
            t.done = True
            self.back.release()
            return
        self._by_ident[threading.get_ident()] = t
        try:
            t.fn()
        except SystemExit:
            pass
        except BaseException as e:  # noqa
            t.exc = e
        finally:
            self._by_ident.pop(threading.get_ident(), None)
            t.done = True
            self.back.release()

    def _yield(self, t):
        t.steps += 1
        self.points += 1
        if self.points > self.max_points:
            self.aborted = True
        self.back.release()
        t.go.acquire()
        if self.aborted:
            raise SystemExit

    # -- scheduler side -----------------------------------------------------------------
    def run(self):
        """Run all spawned threads to completion under the chooser.  Returns 'ok' | 'horizon'."""
        if _ACTIVE[0] is not None:
            raise HarnessError("two batons active")
        _ACTIVE[0] = self
        try:
            return self._run()
        finally:
            _ACTIVE[0] = None

    def _run(self):
        for t in list(self.threads):
            if not t.started:
                self._start(t)
        current = None
        while True:
            live = [t for t in self.threads if not t.done]
            if not live:
                return "ok"
            if self.aborted:
                for t in live:
                    t.go.release()
                    if not self.back.acquire(timeout=TIMEOUT):
                        raise HarnessError("baton lost while aborting")
                return "horizon"
            # canonical order: the running thread first if still enabled, then by creation order
            order = ([current] if current in live else []) + [t for t in live if t is not current]
            if len(order) > 1:
                if current in live:
                    costs = [0] + [1] * (len(order) - 1)
                else:
                    costs = [0] * len(order)
                c = self.ch.choose(len(order), costs)
            else:
                c = 0
            t = order[c]
            self.trace.append(t.name)
            current = t
            t.go.release()
            if not self.back.acquire(timeout=TIMEOUT):
                raise HarnessError("baton not returned by thread %s (blocked outside the scheduler?)" % t.name)
