# -*- coding: utf-8 -*-
"""
Controlled executor for ``ThreadPoolRuntime._inner`` -- task-granular exploration.

``submit`` records the job and returns a real ``concurrent.futures.Future``.  The explorer repeatedly
chooses one pending job, runs it to completion on its own thread and resolves the future; the
library's callbacks (chain.on_finish, gather_futures.on_finish, unwrap_future.cb) therefore run
inline and atomically.  This enumerates every completion order with atomic callbacks, including jobs
submitted from inside callbacks.  (Concurrent callbacks are the business of sched/threads.py.)
"""
import logging
from concurrent.futures import Future


ORDER_COST = 0  # cost of running a pending job other than the oldest


class Job:
    __slots__ = ("label", "fut", "fn", "args", "kwargs", "seq")

    def __init__(self, label, fut, fn, args, kwargs, seq):
        self.label = label
        self.fut = fut
        self.fn = fn
        self.args = args
        self.kwargs = kwargs
        self.seq = seq


class _LogCatcher(logging.Handler):
    def __init__(self, sink):
        super().__init__()
        self.sink = sink

    def emit(self, record):
        self.sink.append(record.getMessage()[:200])


class CtlPool:
    def __init__(self):
        self.pending = []
        self._seq = 0
        self.trace = []
        self.callback_errors = []
        self.on_submit = None
        self.ch = None

    def submit(self, fn, *args, **kwargs):
        fut = Future()
        self._seq += 1
        label = getattr(fn, "vlabel", None) or ("job:" + getattr(getattr(fn, "func", fn), "__name__", "fn"))
        job = Job(label, fut, fn, args, kwargs, self._seq)
        if self.on_submit is not None:
            self.on_submit(label)
        # a worker thread may pick the job up and finish it before the submitting code goes on (the future
        # handed back is then already done): one deviation
        if self.ch is not None and self.ch.choose(2, [0, 1]) == 1:
            self.trace.append("eager:%s" % (label,))
            self._run(job, eager=True)
            return fut
        self.pending.append(job)
        return fut

    def shutdown(self, wait=True):
        pass

    def _run(self, job, eager=False):
        if not eager:
            self.trace.append("run:%s" % (job.label,))
        if not job.fut.set_running_or_notify_cancel():
            return
        try:
            r = job.fn(*job.args, **job.kwargs)
        except BaseException as e:  # noqa
            job.fut.set_exception(e)
        else:
            job.fut.set_result(r)

    def drive(self, final, ch, max_steps=10000):
        """
        ``final`` is whatever process_graphql_query returned (a Future, or a plain value when nothing
        was deferred).  Returns (status, value), status in {"ok","exc","stuck","horizon"}.
        """
        logger = logging.getLogger("concurrent.futures")
        catcher = _LogCatcher(self.callback_errors)
        old_disabled = logger.disabled
        old_manager_disable = logging.root.manager.disable
        logging.disable(logging.NOTSET)
        logger.disabled = False
        logger.addHandler(catcher)
        old_prop = logger.propagate
        logger.propagate = False
        try:
            steps = 0
            while not (isinstance(final, Future) and final.done()):
                if not isinstance(final, Future):
                    break
                steps += 1
                if steps > max_steps:
                    return ("horizon", None)
                if not self.pending:
                    return ("stuck", None)
                n = len(self.pending)
                c = ch.choose(n, [0] + [ORDER_COST] * (n - 1)) if n > 1 else 0
                job = self.pending.pop(c)
                self._run(job)
            # run leftover jobs (siblings of a failed gather keep running) in FIFO order
            guard = 0
            while self.pending and guard < max_steps:
                guard += 1
                self._run(self.pending.pop(0))
            if not isinstance(final, Future):
                return ("ok", final)
            if final.cancelled():
                return ("cancelled", None)
            exc = final.exception()
            if exc is not None:
                return ("exc", exc)
            return ("ok", final.result())
        finally:
            logger.removeHandler(catcher)
            logger.propagate = old_prop
            logger.disabled = old_disabled
            logging.disable(old_manager_disable)
