# -*- coding: utf-8 -*-
"""
Shared execution harness for the schedule properties (C08, C09, C16, C17).

A *scenario* is plain data:
    {"query": text, "variables": {...}, "operation_name": None,
     "custom": {"Query.a": "sync"|"async", ...},   # fields with a custom resolver and its style
     "overrides": {"o.x": "err"|"boom"|"null", ...},  # outcome per response path ("." joined)
     "instr": k, "mw": m}                            # stacked instrumentations / middlewares (C16)

Fields without a custom resolver are served by the library's default resolver from the static
data tree.  A custom resolver returns the same value, but as a *deferred* result where the
configuration defers it:

    config            custom "sync"                 custom "async"
    blocking-opt      inline                        (treated as sync) inline
    blocking-gen      inline                        inline
    asyncio-thr       loop.run_in_executor job      coroutine awaiting an external future
    asyncio-inl       inline                        coroutine awaiting an external future
    threadpool        pool job                      pool job

Every execution builds a fresh ``World`` (event log, overrides) passed as the context value.
Schemas are cached per (custom map, config kind) because resolvers only close over the field
coordinate, never over per-execution state.
"""
import asyncio
import json

from py_gql import build_schema, process_graphql_query
from py_gql.exc import ResolverError
from py_gql.execution import BlockingExecutor, Executor, Instrumentation, MultiInstrumentation
from py_gql.execution.runtime import AsyncIORuntime, BlockingRuntime, ThreadPoolRuntime

from .pool import CtlPool
from .vloop import VLoop

SDL = """
interface Node { id: ID }
interface Named { id: ID }
type Obj implements Node & Named { id: ID x: Int y: Int! o: Obj l: [Obj] who: Named }
type Other implements Node & Named { id: ID z: Int }
union U = Obj | Other
type Query { a: Int b: Int c: Int! o: Obj n: Obj! l: [Obj] ln: [Obj!] i: Node u: [U] s(v: Int = 7): Int ev: Obj tick(step: Int = 1): Int nums: [Int] w: Int el: [Obj] r(q: Int!): Int things: [Named] lz: [Obj] lzn: [Obj!] numz: [Int!] mx: [[Int]] mo: [[Obj]] mon: [[Obj!]!] }
type Mutation { m1: Obj m2: Obj m3: Int m4: [Obj] m5: Int! }
type Subscription { ev: Obj tick(step: Int = 1): Int }
"""

# root types with exactly one field (shortcuts keyed on the shape of the schema, not of the request)
SDL_SINGLE = """
type Obj { id: ID x: Int y: Int! o: Obj l: [Obj] }
type Query { o(id: Int): Obj }
type Mutation { m1(id: Int): Obj }
type Subscription { ev: Obj }
"""
# one object type registered as BOTH the query and the mutation root (legal): the operation kind, not the root
# type, decides between parallel and serial execution
SDL_SHARED_ROOT = SDL + "schema { query: Mutation mutation: Mutation subscription: Subscription }\n"
# a custom scalar whose serialisation turns some non-null values into null (blank-to-null text)
SDL_SCALARS = SDL + "scalar Blank\nextend type Query { bl: Blank bn: Blank! bv: Blank! bls: [Blank!] }\n"
SDLS = {"full": SDL, "single": SDL_SINGLE, "shared-root": SDL_SHARED_ROOT, "scalars": SDL_SCALARS}


def _blank_type():
    from py_gql.schema import ScalarType

    return ScalarType("Blank", serialize=lambda v: None if v == "" else str(v), parse=lambda v: v)


class Thing:
    """an object (not a dict) whose concrete type is an INSTANCE attribute: default type resolution must look
    at the instance, not at its class"""

    def __init__(self, typename, **kw):
        self.__typename__ = typename
        self.__dict__.update(kw)


THINGS = [Thing("Obj", id="t1", x=1, y=2), Thing("Other", id="t2", z=3), Thing("Obj", id="t3", x=4, y=5), Thing("Other", id="t4", z=6)]

OBJ3 = {"__typename__": "Obj", "id": "3", "x": 30, "y": 31, "o": None, "l": []}
OBJ2 = {"__typename__": "Obj", "id": "2", "x": 20, "y": 21, "o": OBJ3, "l": [OBJ3]}
OBJ1 = {"__typename__": "Obj", "id": "1", "x": 10, "y": 11, "o": OBJ2, "l": [OBJ2, OBJ3]}
OTHER = {"__typename__": "Other", "id": "9", "z": 90}
ROOT = {
    "a": 1, "b": 2, "c": 3, "o": OBJ1, "n": OBJ1, "l": [OBJ1, OBJ2], "ln": [OBJ1, OBJ2],
    "i": OBJ1, "u": [OBJ1, OTHER], "s": 5, "nums": [1, 2, 3], "w": 4, "el": [], "r": 6, "things": THINGS,
    "m1": OBJ1, "m2": OBJ2, "m3": 3, "m4": [OBJ1, OBJ2], "m5": 5,
    "bl": "", "bn": "", "bv": "v", "bls": ["x", ""],
    # null items in nullable / non-null item positions, lists of lists (with an empty and a null inner list)
    "lz": [OBJ1, None, OBJ2], "lzn": [OBJ2, None], "numz": [1, None, 3],
    "mx": [[1, 2], [], None, [3]], "mo": [[OBJ1], [OBJ2, OBJ3], []], "mon": [[OBJ1, OBJ2], [OBJ3]],
}

import re as _re

_ADDR = _re.compile(r"0x[0-9a-fA-F]+")

CONFIGS = ("blocking-opt", "blocking-gen", "asyncio-thr", "asyncio-inl", "threadpool")


class SubResolverError(ResolverError):
    """user-defined subclass of the library's resolver error"""


class SizedLazy:
    """has a length, but iterating it fails with the library's resolver error after the first item"""

    def __init__(self, items, msg):
        self._items, self._msg = items, msg

    def __len__(self):
        return len(self._items) + 1

    def __iter__(self):
        for it in self._items[:1]:
            yield it
        raise ResolverError(self._msg)


class World:
    """Per-execution state: event log, outcome overrides, the deferral seam."""

    def __init__(self, overrides=None):
        self.log = []
        self.overrides = overrides or {}
        self.loop = None
        self.counter = 0
        self.tracer = None
        self.event_index = None

    def ev(self, *e):
        self.log.append(e)


def pstr(path):
    return ".".join(str(p) for p in path)


def _outcome(world, info, parent, args):
    p = pstr(info.path)
    o = world.overrides.get(p)
    if world.event_index is not None:
        o = world.overrides.get("%d|%s" % (world.event_index, p), o)
    world.ev("finish", p)
    if o == "err":
        raise ResolverError("E@" + p)
    if o == "err-ext":
        raise ResolverError("E@" + p, extensions={"code": 7})
    if o == "err-sub":
        raise SubResolverError("S@" + p)
    if o == "err-lib":
        # another located library error (not a ResolverError): an unexpected failure like any other exception
        from py_gql.exc import UnknownEnumValue

        raise UnknownEnumValue("U@" + p)
    if o == "lazy-sized-err":
        # a SIZED sequence (cursor / page) that still fails part-way through iteration
        items = parent.get(info.field_definition.name) if isinstance(parent, dict) else None
        return SizedLazy(list(items or [])[:2], "Z@" + p)
    if o == "boom":
        raise RuntimeError("B@" + p)
    if o == "null":
        return None
    if o == "bad":
        return "oops"  # not serialisable as Int: an unexpected failure of the whole request, in every runtime
    if o == "bad-item":
        return [1, "oops", 3]
    if o == "lazy-err":
        # a lazily evaluated list result whose iteration fails with the library's resolver error
        items = parent.get(info.field_definition.name) if isinstance(parent, dict) else None

        def gen():
            for it in (items or [])[:1]:
                yield it
            raise ResolverError("L@" + p)

        return gen()
    if isinstance(parent, dict):
        v = parent.get(info.field_definition.name)
    else:
        v = getattr(parent, info.field_definition.name, None)
    if args and "v" in args and isinstance(v, int):
        v = v + args["v"]
    if args and isinstance(args.get("step"), int) and isinstance(v, int):
        v = v * args["step"]
    world.counter += 1
    if o == "as-tuple" and isinstance(v, list):
        return tuple(v)
    if o == "as-gen" and isinstance(v, list):
        return (x for x in v)
    return v


def _mk_sync(coord):
    def resolver(parent, ctx, info, **args):
        ctx.ev("invoke", pstr(info.path))
        return _outcome(ctx, info, parent, args)

    resolver.__name__ = "sync_" + coord.replace(".", "_")
    return resolver


def _mk_async(coord):
    async def resolver(parent, ctx, info, **args):
        p = pstr(info.path)
        ctx.ev("invoke", p)
        return await ctx.loop.defer("co:" + p, lambda: _outcome(ctx, info, parent, args))

    resolver.__name__ = "async_" + coord.replace(".", "_")
    return resolver


def _mk_nested_sync(coord):
    """a resolver whose (deferred) result is itself a deferred value: future -> future -> value"""

    def resolver(parent, ctx, info, **args):
        p = pstr(info.path)
        ctx.ev("invoke", p)
        rt = info.runtime
        if isinstance(rt, ThreadPoolRuntime):
            inner = lambda: _outcome(ctx, info, parent, args)  # noqa
            inner.vlabel = "inner:" + p
            return rt.submit(inner)
        return _outcome(ctx, info, parent, args)

    resolver.__name__ = "nested_" + coord.replace(".", "_")
    return resolver


def _mk_nested_async(coord):
    async def resolver(parent, ctx, info, **args):
        p = pstr(info.path)
        ctx.ev("invoke", p)
        await ctx.loop.defer("co:" + p, lambda: None)
        return ctx.loop.defer("inner:" + p, lambda: _outcome(ctx, info, parent, args))

    resolver.__name__ = "nested_async_" + coord.replace(".", "_")
    return resolver


def _mk_submit(coord):
    """a plain resolver that hands its work to the runtime with KEYWORD arguments (info.runtime.submit(fn, k=v))"""

    def resolver(parent, ctx, info, **args):
        p = pstr(info.path)
        ctx.ev("invoke", p)

        def task(parent=None, world=None, rinfo=None, rargs=None):
            return _outcome(world, rinfo, parent, rargs)

        return info.runtime.submit(task, parent=parent, world=ctx, rinfo=info, rargs=args)

    resolver.__name__ = "submit_" + coord.replace(".", "_")
    return resolver


def _shared_sync(parent, ctx, info, **args):
    """one function object registered on several fields (resolver caches are keyed by the function)"""
    ctx.ev("invoke", pstr(info.path))
    return _outcome(ctx, info, parent, args)


async def _shared_async(parent, ctx, info, **args):
    p = pstr(info.path)
    ctx.ev("invoke", p)
    return await ctx.loop.defer("co:" + p, lambda: _outcome(ctx, info, parent, args))


_SCHEMAS = {}


def _generic_default(parent, ctx, info, **args):
    """schema-level default resolver: used for every field without its own resolver (never wrapped by the runtime)"""
    if info.parent_type.name.startswith("__") or not hasattr(ctx, "ev"):
        from py_gql.execution import default_resolver as _dr

        return _dr(parent, ctx, info, **args)
    ctx.ev("invoke", pstr(info.path))
    return _outcome(ctx, info, parent, args)


def schema_for(custom, asyncio_styles, sdl="full"):
    sdl, _, opts = sdl.partition("+")
    sdl_opts = set(filter(None, opts.split("+")))
    key = (json.dumps(custom, sort_keys=True), asyncio_styles, sdl, tuple(sorted(sdl_opts)))
    s = _SCHEMAS.get(key)
    if s is None:
        s = build_schema(SDLS[sdl], additional_types=[_blank_type()] if sdl == "scalars" else None)
        for coord in sorted(custom):
            style = custom[coord]
            t, f = coord.split(".")
            if style == "submit":
                fn = _mk_submit(coord)
            elif style == "shared":
                fn = _shared_sync
            elif style == "shared-async":
                fn = _shared_async if asyncio_styles else _shared_sync
            elif style == "nested":
                fn = _mk_nested_async(coord) if asyncio_styles else _mk_nested_sync(coord)
            else:
                fn = _mk_async(coord) if (style == "async" and asyncio_styles) else _mk_sync(coord)
            s.register_resolver(t, f, fn)
        for tname in ("Node", "U"):
            if tname in s.types:
                s.types[tname].resolve_type = _resolve_type
        if "type-default" in sdl_opts:
            s.register_default_resolver("Obj", _shared_sync)
        if "schema-default" in sdl_opts:
            s.default_resolver = _generic_default
        s.validate()
        _SCHEMAS[key] = s
    return s


def _resolve_type(value, ctx, info):
    if getattr(ctx, "overrides", None) and ctx.overrides.get(pstr(info.path)) == "type-err":
        raise ResolverError("T@" + pstr(info.path))
    name = value.get("__typename__") if isinstance(value, dict) else getattr(value, "__typename__", None)
    if info.field_definition.name == "u" and name is not None:
        return info.schema.types[name]  # an ObjectType instead of its name: both are documented answers
    return name


class RootMethods:
    """a root value whose fields are METHODS: the library's default resolver calls them, so the top-level fields
    have no explicit resolver at all, yet their results are deferred where the runtime defers"""

    def __init__(self, world):
        self._w = world

    def __getattr__(self, name):
        if name.startswith("_") or name not in ROOT:
            raise AttributeError(name)
        world = self._w

        def method(ctx, info, **args):
            p = pstr(info.path)
            world.ev("invoke", p)
            rt = info.runtime
            thunk = lambda: _outcome(world, info, ROOT, args)  # noqa
            if isinstance(rt, ThreadPoolRuntime):
                thunk.vlabel = "method:" + p
                return rt.submit(thunk)
            if isinstance(rt, AsyncIORuntime):
                async def co():
                    return await world.loop.defer("method:" + p, thunk)

                return co()
            return thunk()

        return method


class RecInstr(Instrumentation):
    def __init__(self, world, tag):
        self.w = world
        self.tag = tag

    def on_query_start(self):
        self.w.ev("hook", self.tag, "query_start")

    def on_query_end(self):
        self.w.ev("hook", self.tag, "query_end")

    def on_parsing_start(self):
        self.w.ev("hook", self.tag, "parsing_start")

    def on_parsing_end(self):
        self.w.ev("hook", self.tag, "parsing_end")

    def on_validation_start(self):
        self.w.ev("hook", self.tag, "validation_start")

    def on_validation_end(self):
        self.w.ev("hook", self.tag, "validation_end")

    def on_execution_start(self):
        self.w.ev("hook", self.tag, "execution_start")

    def on_execution_end(self):
        self.w.ev("hook", self.tag, "execution_end")

    def on_field_start(self, root, context, info):
        self.w.ev("hook", self.tag, "field_start", pstr(info.path))

    def on_field_end(self, root, context, info):
        self.w.ev("hook", self.tag, "field_end", pstr(info.path))


def _mk_mw(tag):
    def mw(next_, parent, ctx, info, **args):
        ctx.ev("mw-before", tag, pstr(info.path))
        r = next_(parent, ctx, info, **args)
        ctx.ev("mw-after", tag, pstr(info.path))
        return r

    return mw


def _instr(world, k, nested=False):
    if not k:
        return None
    ins = [RecInstr(world, "I%d" % i) for i in range(k)]
    if k == 1:
        return ins[0]
    if nested == "middle" and k >= 4:
        return MultiInstrumentation(ins[0], MultiInstrumentation(*ins[1:-1]), ins[-1])
    if nested and k >= 3:
        return MultiInstrumentation(ins[0], MultiInstrumentation(*ins[1:]))
    return MultiInstrumentation(*ins)


def observe(status, value, world, extra=None):
    """Canonical observation of one execution."""
    obs = {"status": status}
    if status == "ok":
        res = value
        data = res.data if hasattr(res, "data") else res
        try:
            obs["data"] = _ADDR.sub("0x", json.dumps(data, default=repr))
        except Exception as e:  # noqa
            obs["data"] = "unserialisable:%s" % (type(e).__name__,)
        errs = []
        for e in getattr(res, "errors", []) or []:
            errs.append([str(getattr(e, "message", e)), pstr(getattr(e, "path", None) or []), type(e).__name__])
        obs["errors"] = sorted(errs)
    elif status == "exc":
        obs["exc"] = _ADDR.sub("0x", "%s:%s" % (type(value).__name__, value))
    if extra:
        obs.update(extra)
    return obs


_DOCS = {}


def prepared(scn):
    """parse + validate once per query text; later executions reuse the AST and skip re-validation."""
    q = scn["query"]
    sdl = scn.get("sdl", "full")
    d = _DOCS.get((q, sdl))
    if d is None:
        from py_gql.lang import parse
        from py_gql.validation import validate_ast

        ast = parse(q)
        errs = validate_ast(schema_for({}, False, sdl), ast).errors
        d = _DOCS[(q, sdl)] = (ast, [str(e) for e in errs])
    return d


def run_config(config, scn, ch, document=None, fast=False):
    """
    One execution of the scenario under ``config`` with the environment's answers taken from the
    chooser.  Returns (observation, world).
    """
    world = World(scn.get("overrides"))
    custom = scn.get("custom", {})
    kwargs = dict(
        variables=scn.get("variables"),
        operation_name=scn.get("operation_name"),
        root=RootMethods(world) if scn.get("root") == "methods" else ROOT,
        context=world,
    )
    if scn.get("disable_introspection"):
        kwargs["disable_introspection"] = True
    k, m = scn.get("instr", 0), scn.get("mw", 0)
    if k:
        kwargs["instrumentation"] = _instr(world, k, scn.get("instr_nested", False))
    if scn.get("tracer"):
        from py_gql.tracers import ApolloTracer

        world.tracer = ApolloTracer()
        members = [RecInstr(world, "I%d" % i) for i in range(max(k, 1))]
        members.insert(1 if len(members) > 1 else len(members), world.tracer)
        kwargs["instrumentation"] = MultiInstrumentation(*members)
    if m:
        kwargs["middlewares"] = [_mk_mw("M%d" % i) for i in range(m)]
    doc = document if document is not None else scn["query"]
    if scn.get("preparsed") and document is None:
        from py_gql.lang import parse as _parse

        doc = _parse(scn["query"])
    if fast and document is None:
        ast, errs = prepared(scn)
        if not errs:
            doc = ast
            kwargs["validators"] = []
    extra = {}
    if config in ("blocking-opt", "blocking-gen"):
        schema = schema_for(custom, False, scn.get("sdl", "full"))
        try:
            res = process_graphql_query(
                schema, doc, executor_cls=BlockingExecutor if config == "blocking-opt" else Executor,
                runtime=BlockingRuntime(), **kwargs
            )
            status, value = "ok", res
        except Exception as e:  # noqa
            status, value = "exc", e
    elif config in ("asyncio-thr", "asyncio-inl"):
        schema = schema_for(custom, True, scn.get("sdl", "full"))
        loop = VLoop()
        world.loop = loop
        rt = AsyncIORuntime(loop=loop, execute_blocking_functions_in_thread=(config == "asyncio-thr"))

        async def main():
            return await process_graphql_query(schema, doc, runtime=rt, **kwargs)

        try:
            status, value = loop.drive(main(), ch)
        finally:
            loop.finish()
        extra["unhandled"] = len(loop.unhandled)
        extra["trace"] = loop.trace
    elif config == "threadpool":
        schema = schema_for(custom, False, scn.get("sdl", "full"))
        pool = CtlPool()
        pool.ch = ch  # a submitted job may also finish before the submitting code continues (one deviation)
        rt = ThreadPoolRuntime(max_workers=1)
        rt._inner.shutdown(wait=False)
        rt._inner = pool
        try:
            final = process_graphql_query(schema, doc, runtime=rt, **kwargs)
        except Exception as e:  # noqa
            status, value = "exc", e
        else:
            status, value = pool.drive(final, ch)
        extra["callback_errors"] = len(pool.callback_errors)
        extra["trace"] = pool.trace
    elif config == "entry-blocking":
        from py_gql import graphql_blocking

        schema = schema_for(custom, False, scn.get("sdl", "full"))
        kw = {k_: v_ for k_, v_ in kwargs.items() if k_ not in ("runtime", "disable_introspection")}
        try:
            status, value = "ok", graphql_blocking(schema, doc, **kw)
        except Exception as e:  # noqa
            status, value = "exc", e
    elif config == "entry-graphql":
        from py_gql import graphql as graphql_async

        schema = schema_for(custom, True, scn.get("sdl", "full"))
        loop = VLoop()
        world.loop = loop
        kw = {k_: v_ for k_, v_ in kwargs.items() if k_ not in ("runtime", "disable_introspection")}

        async def main2():
            return await graphql_async(schema, doc, **kw)

        try:
            status, value = loop.drive(main2(), ch)
        finally:
            loop.finish()
        extra["trace"] = loop.trace
    else:
        raise ValueError(config)
    return observe(status, value, world, extra), world
