# developer tool (never used by checks): summarise replays/<ID>/*.json by class, smallest witness first
import glob, json, sys, os
V = os.path.dirname(os.path.dirname(os.path.abspath(__file__)))
prop = sys.argv[1]
by = {}
for p in glob.glob(os.path.join(V, "replays", prop, "*.json")):
    r = json.load(open(p))
    by.setdefault(r["class"], []).append((len(json.dumps(r["witness"])), p, r))
for cls in sorted(by):
    lst = sorted(by[cls], key=lambda x: x[0])
    print("==", cls, len(lst))
    for _, p, r in lst[: int(sys.argv[2]) if len(sys.argv) > 2 else 2]:
        print("   ", os.path.basename(p), str(r["detail"])[:400])
