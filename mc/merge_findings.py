# developer tool (never run by checks): fold known_findings.d/*.json into the single known_findings.json
import glob, json, os
V = os.path.dirname(os.path.dirname(os.path.abspath(__file__)))
main = os.path.join(V, "known_findings.json")
data = json.load(open(main)) if os.path.exists(main) else {"findings": []}
ids = {e["id"] for e in data["findings"]}
for p in sorted(glob.glob(os.path.join(V, "known_findings.d", "*.json"))):
    for e in json.load(open(p))["findings"]:
        if e["id"] in ids:
            data["findings"] = [x for x in data["findings"] if x["id"] != e["id"]]
        data["findings"].append(e)
        ids.add(e["id"])
    os.remove(p)
data["findings"].sort(key=lambda e: (e["property"], e["id"]))
data["_doc"] = ("Known findings of the py-gql checks. status=open: genuine defect recorded, not repaired (printed as KNOWN-FINDING, "
                "suppresses only violations of the same class [and witness list, when present]); status=fixed: repaired by the "
                "named /repo commit, suppresses nothing, witnesses are replayed as regression cases. Never written at run time.")
json.dump(data, open(main, "w"), indent=1)
print("merged:", len(data["findings"]), "entries;", sum(1 for e in data["findings"] if e["status"] == "open"), "open")
