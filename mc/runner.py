# -*- coding: utf-8 -*-
"""
Runner for the bounded-exhaustive checks.

    python -m mc.runner <ID> quick|thorough
    python -m mc.runner replay <file>

A check module ``mc.checks.<ID>`` provides

    LEVEL            "exploration" | "model_checking" | "fault_enumeration"
    RULE             text: how cases are enumerated / what counts as non-trivial
    ASSUMPTIONS      list of str
    cases(tier)      deterministic iterator of JSON-able case descriptions, simplest first
    check_case(case, st)  -> iterable of (class_key, witness, detail)
                     runs the real implementation on that case (for E1/E2 checks: explores every
                     schedule / history of that scenario) and reports violations; ``st`` is a
                     ``Stats`` used for coverage counters.
    replay(witness)  -> list of (class_key, detail): re-run one single witness, no explorer.

The runner shards ``cases`` over worker processes by index, merges statistics, matches violations
against /verif/known_findings.json, writes replay files and the evidence file, prints
KNOWN-FINDING / VIOLATION lines and exits 0 / 1 / 2 (2 = harness error, never with a VIOLATION line).
"""
import hashlib
import importlib
import json
import multiprocessing as mp
import os
import sys
import time
import traceback

from . import findings as _findings

VERIF = os.path.dirname(os.path.dirname(os.path.abspath(__file__)))


def canon(obj):
    return json.dumps(obj, sort_keys=True, ensure_ascii=True, default=repr)


def h8(obj):
    return hashlib.blake2b(
        (obj if isinstance(obj, str) else canon(obj)).encode("utf-8", "surrogatepass"),
        digest_size=8,
    ).digest()


class Stats:
    """Per-worker coverage statistics, mergeable."""

    MAX_SAMPLES = 6

    def __init__(self):
        self.counters = {}
        self.nontrivial = set()
        self.outcomes = set()
        self.samples = []
        self.maxima = {}
        self.notes = set()
        self.exhaustive = True
        self.deadline = None
        self.tier = "quick"

    def n(self, key, k=1):
        self.counters[key] = self.counters.get(key, 0) + k

    def mx(self, key, v):
        if v > self.maxima.get(key, -1):
            self.maxima[key] = v

    def nt(self, obj):
        """Record a distinct non-trivial case (by digest)."""
        self.nontrivial.add(h8(obj))

    def outcome(self, obj):
        self.outcomes.add(h8(obj))

    def sample(self, obj, force=False):
        if force or len(self.samples) < self.MAX_SAMPLES:
            self.samples.append(obj)

    def note(self, s):
        self.notes.add(s)

    def out_of_time(self):
        if self.deadline is not None and time.time() > self.deadline:
            self.exhaustive = False
            return True
        return False

    def merge(self, o):
        for k, v in o.counters.items():
            self.counters[k] = self.counters.get(k, 0) + v
        for k, v in o.maxima.items():
            self.mx(k, v)
        self.nontrivial |= o.nontrivial
        self.outcomes |= o.outcomes
        self.notes |= o.notes
        for s in o.samples:
            if len(self.samples) < 3 * self.MAX_SAMPLES:
                self.samples.append(s)
        self.exhaustive = self.exhaustive and o.exhaustive


def _worker(args):
    mod_name, tier, shard, nshards, deadline = args
    # quiet library loggers / warnings in workers
    import logging
    import warnings

    logging.disable(logging.CRITICAL)
    warnings.simplefilter("ignore")
    sys.setrecursionlimit(3000)
    st = Stats()
    st.deadline = deadline
    st.tier = tier
    viols = []
    try:
        mod = importlib.import_module(mod_name)
        for i, case in enumerate(mod.cases(tier)):
            if i % nshards != shard:
                continue
            if st.out_of_time():
                st.n("cases_skipped_by_time_cap")
                continue
            st.n("cases")
            for cls, wit, detail in mod.check_case(case, st) or ():
                viols.append((cls, wit, detail))
                if len(viols) > 5000:
                    break
        return ("ok", st, viols)
    except BaseException:
        return ("err", traceback.format_exc(), viols)


def load(prop):
    return importlib.import_module("mc.checks.%s" % prop)


def _replay_path(prop, cls, wit):
    d = os.path.join(VERIF, "replays", prop)
    os.makedirs(d, exist_ok=True)
    name = hashlib.sha1((cls + "\0" + canon(wit)).encode("utf-8", "surrogatepass")).hexdigest()[:16]
    return os.path.join(d, name + ".json")


def run_check(prop, tier):
    t0 = time.time()
    seed = int(os.environ.get("VERIF_SEED", "0") or 0)
    mod = load(prop)
    workers = int(os.environ.get("VERIF_WORKERS", "0") or 0) or min(16, os.cpu_count() or 1)
    caps = getattr(mod, "TIME_CAP", {"quick": 150, "thorough": 1500})
    # the cap is a safety valve, not a budget: never below 300 s (quick) so that a slower machine still
    # completes the same enumeration and reports the same coverage
    cap = float(os.environ.get("VERIF_TIME_CAP", max(caps.get(tier, 150), 300 if tier == "quick" else 1500)))
    deadline = t0 + cap

    known = _findings.load(prop)
    out_lines = []
    harness_errors = []
    violations = []  # (cls, witness, detail)

    # 1. self-test of the reference models used by this check
    selftest = getattr(mod, "selftest", None)
    if selftest is not None:
        try:
            selftest()
        except BaseException:
            harness_errors.append("reference-model self-test failed:\n" + traceback.format_exc())

    # 2. replay listed witnesses of known findings
    still_failing = {}
    if not harness_errors:
        for ent in known:
            fails = False
            got = []
            for wit in ent.get("replay", []):
                try:
                    got = list(mod.replay(wit))
                except BaseException:
                    harness_errors.append(
                        "replay of known finding %s crashed:\n%s" % (ent["id"], traceback.format_exc())
                    )
                    got = []
                hit = [g for g in got if g[0] == ent["class"]]
                if hit:
                    fails = True
                    if ent["status"] == "fixed":
                        violations.append((ent["class"], wit, "regression of fixed finding %s: %s" % (ent["id"], hit[0][1])))
                    break
            still_failing[ent["id"]] = fails
            if fails and ent["status"] == "open":
                out_lines.append("KNOWN-FINDING: property=%s %s %s" % (prop, ent["id"], ent["title"]))

    # 3. the exploration itself
    total = Stats()
    if not harness_errors:
        ctx = mp.get_context("fork")
        nshards = workers
        with ctx.Pool(workers) as pool:
            results = pool.map(
                _worker,
                [("mc.checks.%s" % prop, tier, k, nshards, deadline) for k in range(nshards)],
                chunksize=1,
            )
        for status, a, v in results:
            if status == "err":
                harness_errors.append("worker crashed:\n" + a)
            else:
                total.merge(a)
            violations.extend(v)

    # 4. match violations against known findings
    new = []
    seen = set()
    matched = {}
    for cls, wit, detail in violations:
        key = (cls, canon(wit))
        if key in seen:
            continue
        seen.add(key)
        ent = _findings.match(known, cls, wit)
        if ent is not None:
            matched[ent["id"]] = matched.get(ent["id"], 0) + 1
            continue
        new.append((cls, wit, detail))

    for ent in known:
        if ent["status"] == "open" and matched.get(ent["id"]) and not still_failing.get(ent["id"]):
            # found by the exploration but the listed replay witness did not fail: still print it
            out_lines.append("KNOWN-FINDING: property=%s %s %s" % (prop, ent["id"], ent["title"]))

    new.sort(key=lambda v: (v[0], len(canon(v[1])), canon(v[1])))
    reported_classes = {}
    for cls, wit, detail in new:
        # one replay file per violation, but at most 5 VIOLATION lines per class
        k = reported_classes.get(cls, 0)
        reported_classes[cls] = k + 1
        if k >= 5:
            continue
        p = _replay_path(prop, cls, wit)
        with open(p, "w") as f:
            json.dump({"property": prop, "class": cls, "witness": wit, "detail": detail}, f, indent=1, default=repr)
        out_lines.append("VIOLATION property=%s replay=%s class=%s" % (prop, p, cls))

    wall = time.time() - t0
    # 5. evidence
    cov = dict(total.counters)
    cov.update({"max_" + k: v for k, v in total.maxima.items()})
    evaluations = max(cov.get("evaluations", 0), cov.get("cases", 0))
    cov["evaluations"] = evaluations
    cov["distinct_nontrivial"] = len(total.nontrivial)
    cov["distinct_outcomes"] = len(total.outcomes)
    cov["rule"] = getattr(mod, "RULE", "")
    cov["samples"] = total.samples[:12] or ["<none>"]
    cov["exhaustive"] = bool(total.exhaustive and not harness_errors)
    cov["bounds"] = getattr(mod, "BOUNDS", {}).get(tier, {})
    cov["time_cap_s"] = cap
    cov["workers"] = workers
    if total.notes:
        cov["notes"] = sorted(total.notes)
    if mod.LEVEL == "model_checking":
        cov.setdefault("states", cov.get("states", 0))
        cov.setdefault("transitions", cov.get("transitions", 0))
        cov.setdefault("traces_validated_against_impl", cov.get("executions", cov.get("states", 0)))
    cov["known_findings_matched"] = matched
    cov["violation_classes"] = sorted(reported_classes)
    ev = {
        "property_id": prop,
        "tier": tier,
        "seed": seed,
        "level": mod.LEVEL,
        "coverage": cov,
        "assumptions": list(getattr(mod, "ASSUMPTIONS", [])),
        "wall_s": round(wall, 2),
        "violations": len(new),
    }
    if harness_errors:
        ev["coverage"]["harness_errors"] = [e[-2000:] for e in harness_errors]
    evdir = os.environ.get("VERIF_EVIDENCE_DIR") or os.path.join(VERIF, "evidence")
    os.makedirs(evdir, exist_ok=True)
    with open(os.path.join(evdir, prop + ".json"), "w") as f:
        json.dump(ev, f, indent=1, sort_keys=True, default=repr)
        f.write("\n")

    for l in out_lines:
        print(l)
    print(
        "%s %s: cases=%s evaluations=%s distinct_nontrivial=%s outcomes=%s exhaustive=%s known=%s new=%s wall=%.1fs"
        % (
            prop,
            tier,
            cov.get("cases", 0),
            evaluations,
            cov["distinct_nontrivial"],
            cov["distinct_outcomes"],
            cov["exhaustive"],
            sum(matched.values()),
            len(new),
            wall,
        )
    )
    if harness_errors:
        for e in harness_errors:
            sys.stderr.write("HARNESS-ERROR property=%s\n%s\n" % (prop, e))
        return 2
    return 1 if new else 0


def run_replay(path):
    with open(path) as f:
        rec = json.load(f)
    prop = rec["property"]
    mod = load(prop)
    got = list(mod.replay(rec["witness"]))
    print("replay property=%s class=%s" % (prop, rec.get("class")))
    print("witness: %s" % canon(rec["witness"])[:2000])
    for cls, detail in got:
        print("  -> %s :: %s" % (cls, detail))
    same = [g for g in got if g[0] == rec.get("class")]
    if same:
        print("REPRODUCED")
        return 1
    print("not reproduced" + (" (other classes fired)" if got else ""))
    return 1 if got else 0


def main(argv):
    os.chdir(VERIF)
    if len(argv) >= 2 and argv[0] == "replay":
        return run_replay(argv[1])
    if len(argv) < 1:
        print(__doc__)
        return 2
    prop = argv[0]
    tier = argv[1] if len(argv) > 1 else os.environ.get("VERIF_TIER", "quick")
    if tier not in ("quick", "thorough"):
        tier = "quick"
    return run_check(prop, tier)


if __name__ == "__main__":
    sys.exit(main(sys.argv[1:]))
