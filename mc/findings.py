# -*- coding: utf-8 -*-
"""
Loader / matcher for /verif/known_findings.json (read-only at run time).

Entry:
  id        stable identifier, e.g. "C19-F1"
  property  "C19"
  status    "open" | "fixed"
  class     mechanical class key produced by the check (exact match)
  title     one line: what fails
  replay    list of witnesses replayed directly at the start of every run (first failing one wins)
  witnesses optional list: when present the entry only covers these witnesses (scope "witnesses");
            when absent the entry covers the whole class (scope "class") -- reserved for defects
            whose witness set is large but mechanically characterised by the class key.
  commit    for fixed entries, the /repo commit of the fix
  analysis  free text
"""
import json
import os

VERIF = os.path.dirname(os.path.dirname(os.path.abspath(__file__)))
PATH = os.path.join(VERIF, "known_findings.json")


def _canon(obj):
    return json.dumps(obj, sort_keys=True, ensure_ascii=True, default=repr)


def _all_entries():
    import glob

    paths = [PATH] + sorted(glob.glob(os.path.join(VERIF, "known_findings.d", "*.json")))
    for p in paths:
        if not os.path.exists(p):
            continue
        with open(p) as f:
            data = json.load(f)
        for ent in data.get("findings", []):
            yield ent


def load(prop):
    out = []
    for ent in _all_entries():
        if ent.get("property") != prop:
            continue
        ent = dict(ent)
        if "witnesses" in ent and ent["witnesses"] is not None:
            ent["_wset"] = {_canon(w) for w in ent["witnesses"]}
        else:
            ent["_wset"] = None
        out.append(ent)
    return out


def match(known, cls, wit):
    """Return the open entry covering this violation, or None."""
    c = None
    for ent in known:
        if ent.get("status") != "open" or ent.get("class") != cls:
            continue
        if ent["_wset"] is None:
            return ent
        if c is None:
            c = _canon(wit)
        if c in ent["_wset"]:
            return ent
    return None
