# developer tool: regenerate the generated tables of DESIGN.md section 10 (10.4 fixes, 10.5 open findings, 10.6 seeds, 10.7 checks)
import os, re, subprocess, sys
V = os.path.dirname(os.path.dirname(os.path.abspath(__file__)))
env = dict(os.environ, PYTHONPATH=V + ":/repo/src")
rep = subprocess.run([sys.executable, os.path.join(V, "mc", "report.py")], capture_output=True, text=True, env=env).stdout
parts = rep.split("\n\n")
fix_table, open_table, seeds_table, checks_table = [p.strip("\n") for p in parts[:4]]
p = os.path.join(V, "DESIGN.md")
s = open(p).read()
def put(s, header_start, table):
    i = s.index(header_start)
    j = s.index("\n| ", i)            # first table row after the header
    k = j + 1
    lines = s[k:].split("\n")
    n = 0
    while n < len(lines) and lines[n].startswith("|"):
        n += 1
    return s[:k] + table + "\n" + "\n".join(lines[n:])
s = put(s, "### 10.4 Genuine defects repaired", fix_table)
s = put(s, "### 10.5 Open findings", open_table)
s = put(s, "### 10.6 Seeded changes", seeds_table)
s = put(s, "### 10.7 The checks as built", checks_table)
open(p, "w").write(s)
print("DESIGN.md tables regenerated:", fix_table.count("\n"), "fixes,", open_table.count("\n") - 1, "open,", seeds_table.count("\n") - 1, "seeds")
