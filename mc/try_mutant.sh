#!/bin/sh
# usage: try_mutant.sh <patch.diff> <ID> [tier] [--tests]
# applies the patch in a scratch worktree of /repo, optionally runs the repo tests there, runs the check
# against it (VERIF_REPO) and removes the worktree.  /repo itself is never touched.
P="$(readlink -f "$1")"; ID="$2"; TIER="${3:-quick}"
WT="/tmp/vm-$$-$ID"
git -C /repo worktree add -q "$WT" HEAD || exit 2
cd "$WT" && { git apply "$P" 2>/dev/null || git apply -3 "$P"; } || { echo "patch does not apply"; git -C /repo worktree remove --force "$WT"; exit 2; }
if [ "$4" = "--tests" ]; then
  PYTHONPATH="$WT/src" PYTHONDONTWRITEBYTECODE=1 /venv/bin/python -m pytest -q -p no:cacheprovider -x 2>&1 | tail -1
fi
cd /verif
VERIF_REPO="$WT" VERIF_EVIDENCE_DIR="/tmp/vm-ev-$$" ./check "$ID" "$TIER" 2>&1 | grep -v Warning | cut -c1-220 | tail -${TAIL:-4}
echo "exit=$?"
git -C /repo worktree remove --force "$WT"
rm -rf "/tmp/vm-ev-$$"
