# setup command: import every check module and run the reference-model self-tests (offline, no build step needed)
import importlib, glob, os, sys
V = os.path.dirname(os.path.dirname(os.path.abspath(__file__)))
bad = 0
for name in open(os.path.join(V, "claimed.txt")).read().split():
    try:
        m = importlib.import_module("mc.checks." + name)
        if hasattr(m, "selftest"):
            m.selftest()
        print("ok", name)
    except Exception as e:
        bad += 1
        print("FAIL", name, repr(e))
sys.exit(1 if bad else 0)
