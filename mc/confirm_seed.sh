#!/bin/sh
# usage: confirm_seed.sh <worktree> <outdir(with patch.diff demo.py meta.json)> <dest /verif/seeded/ID>
# confirms: demo passes at HEAD, fails with patch, repo tests pass with patch; then stores the seed.
WT="$1"; OUT="$2"; DEST="$3"
cd "$WT" || exit 2
git checkout -q -- . 
export PYTHONPATH="$WT/src" PYTHONDONTWRITEBYTECODE=1
/venv/bin/python "$OUT/demo.py" >/dev/null 2>&1; a=$?
git apply "$OUT/patch.diff" || { echo "patch does not apply"; exit 2; }
/venv/bin/python "$OUT/demo.py" >/dev/null 2>&1; b=$?
t=$(/venv/bin/python -m pytest -q -p no:cacheprovider -x 2>&1 | tail -1)
git checkout -q -- .
echo "demo@HEAD=$a demo@patched=$b tests: $t"
case "$t" in *"1895 passed"*) ok=1;; *) ok=0;; esac
if [ "$a" = 0 ] && [ "$b" != 0 ] && [ $ok = 1 ]; then
  mkdir -p "$DEST"; cp "$OUT/patch.diff" "$OUT/demo.py" "$OUT/meta.json" "$DEST/"; echo "CONFIRMED -> $DEST"
else echo "NOT CONFIRMED"; fi
