# -*- coding: utf-8 -*-
"""
Resolver worlds.

A *world* is a JSON-able dict ``{pathkey: outcome}`` of departures from the default behaviour, where
``pathkey`` is the response path joined with "/" ("pets/0/name"):

    outcome for a field (keyed by its response path)
        "v"      a natural value of the declared type (lists: one item)          [default]
        "null"   the resolver returns None
        "err"    the resolver raises py_gql.exc.ResolverError
        "[]"     empty list                       (list types only)
        "[v,null]"  two items, the second None    (list types only)
        "[v,v]"  two items                        (list types only)
    concrete type of an abstract-typed value (keyed by the value's response path + "#")
        a possible object type name               [default: the first possible type]

Values are a deterministic function of the response path, so that a value that ends up under the
wrong key or the wrong parent is visible.  ``py_value`` is what resolvers hand to the library,
``json_value`` what a correct serialisation of it looks like (used by the reference executor only).
"""
import json

from . import ex_schemas as S

OMIT = "__omit__"


def _h(pathkey):
    n = 0
    for ch in pathkey:
        n = (n * 31 + ord(ch)) % 9973
    return n


def py_value(sm, named, pathkey):
    """python-level value of named leaf type `named` produced by the resolver at `pathkey`."""
    n = _h(pathkey)
    if named == "Int":
        return n % 1000
    if named == "Float":
        return (n % 100) + 0.5
    if named == "String":
        return "s:" + pathkey
    if named == "ID":
        return "id:" + pathkey
    if named == "Boolean":
        return n % 2 == 0
    t = sm["types"][named]
    if t["kind"] == "enum":
        vals = list(t["values"].values())
        return vals[n % len(vals)]
    if t["kind"] == "scalar":
        return (2000 + n % 20, 1 + n % 12)
    raise ValueError(named)


def json_value(sm, named, pathkey):
    """the serialised form of py_value(sm, named, pathkey) as the specification demands."""
    n = _h(pathkey)
    if named == "Int":
        return n % 1000
    if named == "Float":
        return (n % 100) + 0.5
    if named == "String":
        return "s:" + pathkey
    if named == "ID":
        return "id:" + pathkey
    if named == "Boolean":
        return n % 2 == 0
    t = sm["types"][named]
    if t["kind"] == "enum":
        names = list(t["values"].keys())
        return names[n % len(names)]
    if t["kind"] == "scalar":
        return "%d-%d" % (2000 + n % 20, 1 + n % 12)
    raise ValueError(named)


def field_options(sm, type_):
    """outcomes a resolver of a field of (parsed) type `type_` may have; default first."""
    t = type_[1] if type_[0] == "nn" else type_
    if t[0] == "list":
        return ["v", "null", "err", "[]", "[v,null]", "[v,v]"]
    return ["v", "null", "err"]


def echo_value(args):
    return json.dumps(args, sort_keys=True, default=repr)


class Obj(object):
    """resolved value of a composite field; carries the concrete type for default type resolution."""

    __slots__ = ("__typename__", "pathkey")

    def __init__(self, typename, pathkey):
        self.__typename__ = typename
        self.pathkey = pathkey


def make_value(sm, type_, pathkey, world, items=None):
    """python value handed to the library for a field of parsed type `type_` (outcome "v"-like)."""
    if type_[0] == "nn":
        return make_value(sm, type_[1], pathkey, world, items)
    if type_[0] == "list":
        spec = items if items is not None else ["v"]
        out = []
        for i, it in enumerate(spec):
            out.append(None if it is None else make_value(sm, type_[1], "%s/%d" % (pathkey, i), world))
        return out
    name = type_[1]
    if S.is_composite(sm, name):
        poss = S.possible_types(sm, name)
        concrete = world.get(pathkey + "#", poss[0])
        if S.kind_of(sm, name) == "object":
            return {"__pathkey__": pathkey}
        if _h(pathkey) % 2:
            return {"__typename__": concrete}
        return Obj(concrete, pathkey)
    return py_value(sm, name, pathkey)


ITEMS = {"v": ["v"], "[]": [], "[v,null]": ["v", None], "[v,v]": ["v", "v"]}


def make_resolver(sm):
    """The schema-wide resolver: looks the field's response path up in the world (= context value)."""
    from py_gql.exc import ResolverError
    from py_gql.execution import default_resolver

    types = sm["types"]

    def resolver(root, ctx, info, **args):
        if info.parent_type.name.startswith("__"):
            # introspection types keep the library's own attribute lookup
            return default_resolver(root, ctx, info, **args)
        world = ctx["world"]
        calls = ctx.get("calls")
        pathkey = "/".join(str(p) for p in info.path)
        if calls is not None:
            calls.append(pathkey)
        outcome = world.get(pathkey, "v")
        if outcome == "err":
            raise ResolverError("boom@" + pathkey)
        if outcome == "errS":
            # ONE exception instance shared by all fields of the request that fail this way
            raise ctx.setdefault("shared_error", ResolverError("shared boom"))
        if outcome == "null":
            return None
        fdef = types[info.parent_type.name]["fields"][info.field_definition.name]
        if fdef.get("echo"):
            return echo_value(args)
        return make_value(sm, S.parse_type(fdef["type"]), pathkey, world, ITEMS[outcome])

    return resolver


CONTAINER_KINDS = ["dict", "mappingproxy", "chainmap", "custom-mapping", "attributes", "methods"]

# python_name differs from the GraphQL name for these fields of the resolver-less schemas
PYTHON_NAMES = {("A", "Obj", "s"): "py_s", ("A", "Query", "i"): "py_i"}


def python_name(sm, typename, fname):
    return PYTHON_NAMES.get((sm["name"], typename, fname), fname)


class _CustomMapping(object):
    pass


def _custom_mapping_class():
    import collections.abc

    class CustomMapping(collections.abc.Mapping):
        def __init__(self, data):
            self._data = dict(data)

        def __getitem__(self, key):
            return self._data[key]

        def __iter__(self):
            return iter(self._data)

        def __len__(self):
            return len(self._data)

    return CustomMapping


def _wrap_container(kind, typename, fields):
    import collections
    import types

    if kind == "dict":
        return dict(fields, __typename__=typename)
    if kind == "mappingproxy":
        return types.MappingProxyType(dict(fields))
    if kind == "chainmap":
        items = list(fields.items())
        return collections.ChainMap(dict(items[::2]), dict(items[1::2]))
    if kind == "custom-mapping":
        return _custom_mapping_class()(fields)
    o = type(str(typename), (object,), {})()
    for k, v in fields.items():
        if kind == "methods":
            setattr(o, k, (lambda value: (lambda ctx, info, **args: value))(v))
        else:
            setattr(o, k, v)
    return o


def data_tree(sm, typename, depth, pathkey="", kind=None):
    """A nested value for *default_resolver*: dicts and attribute objects alternate; every field of
    `typename` present with its default value down to `depth` levels (used with no custom resolver;
    values depend on the FIELD path, not on aliases)."""

    def val(t, pk, d):
        if t[0] == "nn":
            return val(t[1], pk, d)
        if t[0] == "list":
            return [val(t[1], pk + "/0", d)]
        name = t[1]
        if S.is_composite(sm, name):
            if d <= 0:
                return None
            concrete = S.possible_types(sm, name)[0]
            return data_tree(sm, concrete, d - 1, pk, kind)
        return py_value(sm, name, pk)

    fields = {}
    for fn, f in S.fields_of(sm, typename).items():
        pk = (pathkey + "/" + fn) if pathkey else fn
        key = python_name(sm, typename, fn)
        if f.get("echo") or f["args"]:
            fields[key] = None
            continue
        fields[key] = val(S.parse_type(f["type"]), pk, depth)
    if kind is not None:
        return _wrap_container(kind, typename, fields)
    if depth % 2:
        fields["__typename__"] = typename
        return fields
    o = type(str(typename), (object,), {})()
    for k, v in fields.items():
        setattr(o, k, v)
    return o
