# -*- coding: utf-8 -*-
"""
Small fixed schemas for the execution / validation checks (C04, C05, C06) as plain data.

A schema model ``sm`` is

    {"name": str, "query": typename, "mutation": typename|None, "subscription": typename|None,
     "types": {typename: T}}                         (insertion ordered)
    T := {"kind": "object", "interfaces": [..], "fields": {fname: F}}
       | {"kind": "interface", "fields": {fname: F}}
       | {"kind": "union", "members": [..]}
       | {"kind": "enum", "values": {NAME: internal python value}}
       | {"kind": "input", "fields": {fname: {"type": typetext, "default": valuetext|None}}}
       | {"kind": "scalar"}
    F := {"type": typetext, "args": {aname: {"type": typetext, "default": valuetext|None}}, "echo": bool}

Everything here is independent of py_gql except ``build`` (SDL text -> py_gql schema with the world
resolver installed).  ``echo`` fields return ``json.dumps(coerced arguments)``.
"""
import functools

BUILTIN_SCALARS = ("Int", "Float", "String", "Boolean", "ID")


def _f(type_, args=None, echo=False):
    return {"type": type_, "args": args or {}, "echo": echo}


def _a(type_, default=None):
    return {"type": type_, "default": default}


# -- A: objects, wrappers ---------------------------------------------------------------------
SCHEMA_A = {
    "name": "A",
    "query": "Query",
    "mutation": None,
    "subscription": None,
    "types": {
        "Query": {
            "kind": "object",
            "interfaces": [],
            "fields": {
                "i": _f("Int"),
                "n": _f("Int!"),
                "o": _f("Obj"),
                "p": _f("Obj!"),
                "lo": _f("[Obj!]"),
                "li": _f("[Int!]!"),
                "ll": _f("[[Int]]"),
            },
        },
        "Obj": {
            "kind": "object",
            "interfaces": [],
            "fields": {"i": _f("Int"), "s": _f("String"), "n": _f("Int!"), "o": _f("Obj")},
        },
    },
}

# -- B: interfaces, unions --------------------------------------------------------------------
SCHEMA_B = {
    "name": "B",
    "query": "Query",
    "mutation": None,
    "subscription": None,
    "types": {
        "Query": {
            "kind": "object",
            "interfaces": [],
            "fields": {"pet": _f("Pet"), "pets": _f("[Pet!]"), "t": _f("Thing"), "w": _f("Walker!")},
        },
        "Pet": {"kind": "interface", "fields": {"name": _f("String"), "n": _f("Int!")}},
        "Walker": {"kind": "interface", "fields": {"legs": _f("Int")}},
        "Dog": {
            "kind": "object",
            "interfaces": ["Pet", "Walker"],
            "fields": {"name": _f("String"), "n": _f("Int!"), "legs": _f("Int"), "barks": _f("Boolean"), "f": _f("Int")},
        },
        "Cat": {
            "kind": "object",
            "interfaces": ["Pet"],
            "fields": {"name": _f("String"), "n": _f("Int!"), "lives": _f("Int"), "f": _f("Int")},
        },
        "Fish": {"kind": "object", "interfaces": [], "fields": {"name": _f("String"), "f": _f("Int")}},
        "Thing": {"kind": "union", "members": ["Dog", "Fish"]},
    },
}

# -- C: arguments of every input kind, enum with internal values, custom scalar, 3 roots -------
_ECHO_ARGS = {
    "i": _a("Int"),
    "s": _a("String", '"d"'),
    "e": _a("Color"),
    "l": _a("[Int!]"),
    "o": _a("In"),
    "r": _a("Int!", "3"),
    "q": _a("Req"),
    "j": _a("JSON"),
    "dt": _a("Date"),
    "lo": _a("[In]"),
}
# a directive that is legal at EVERY executable location (so that repeating it breaks one rule only)
TAG_DIRECTIVE = "directive @tag(n: Int) on QUERY | MUTATION | SUBSCRIPTION | FIELD | FRAGMENT_DEFINITION | FRAGMENT_SPREAD | INLINE_FRAGMENT | VARIABLE_DEFINITION"

# one directive per executable location (C06: directive x placement matrix)
DIRECTIVE_LOCATIONS = [
    ("onQuery", "QUERY"),
    ("onMutation", "MUTATION"),
    ("onSubscription", "SUBSCRIPTION"),
    ("onField", "FIELD"),
    ("onFragDef", "FRAGMENT_DEFINITION"),
    ("onSpread", "FRAGMENT_SPREAD"),
    ("onInline", "INLINE_FRAGMENT"),
    ("onVarDef", "VARIABLE_DEFINITION"),
]

SCHEMA_C = {
    "name": "C",
    "directives": [TAG_DIRECTIVE] + ["directive @%s on %s" % (n, loc) for n, loc in DIRECTIVE_LOCATIONS],
    "query": "Q",
    "mutation": "M",
    "subscription": "Sub",
    "types": {
        "Q": {
            "kind": "object",
            "interfaces": [],
            "fields": {
                "echo": _f("String", dict(_ECHO_ARGS), echo=True),
                "c": _f("Color"),
                "d": _f("Date"),
                "lc": _f("[Color]"),
                "box": _f("Box", {"id": _a("ID!")}, echo=False),
                "fl": _f("Float"),
            },
        },
        "Box": {
            "kind": "object",
            "interfaces": [],
            "fields": {"v": _f("Int"), "c": _f("Color!"), "echo": _f("String", {"i": _a("Int"), "e": _a("Color")}, echo=True)},
        },
        "M": {
            "kind": "object",
            "interfaces": [],
            "fields": {"inc": _f("Int", {"by": _a("Int", "1")}), "set": _f("Box", {"v": _a("Int!")})},
        },
        "Sub": {"kind": "object", "interfaces": [], "fields": {"tick": _f("Int"), "tock": _f("Int")}},
        "Color": {"kind": "enum", "values": {"RED": 1, "GREEN": 2}},
        "In": {
            "kind": "input",
            "fields": {"a": {"type": "Int", "default": None}, "b": {"type": "[String!]", "default": None}, "c": {"type": "In2", "default": None}},
        },
        "Req": {"kind": "input", "fields": {"must": {"type": "Int!", "default": None}, "opt": {"type": "Int", "default": None}}},
        "In2": {"kind": "input", "fields": {"a": {"type": "Int", "default": None}, "b": {"type": "[String!]", "default": None}}},
        "Date": {"kind": "scalar"},  # code-defined: (y, m) tuple <-> "y-m", own parse_literal
        "JSON": {"kind": "scalar", "impl": "sdl"},  # SDL-defined: the library's default serialize / parse / parse_literal
    },
}


# -- D: one fragment under several parents of the same / different runtime type; wrapped parents --
_PET_FIELDS = {"name": _f("String"), "owner": _f("Person"), "tag": _f("String", {"i": _a("Int"), "s": _a("String"), "r": _a("Int!")}, echo=True)}
SCHEMA_D = {
    "name": "D",
    "query": "Query",
    "mutation": None,
    "subscription": None,
    "types": {
        "Query": {
            "kind": "object",
            "interfaces": [],
            "fields": {
                "first": _f("Dog"),
                "second": _f("Dog!"),
                "dogs": _f("[Dog!]!"),
                "kennel": _f("[Dog]"),
                "pet": _f("Pet"),
                "pets": _f("[Pet]"),
                "cat": _f("Cat"),
                "animals": _f("[Animal]"),
            },
        },
        # `say` is declared with DIFFERENT argument defaults / an extra optional argument per type:
        # one field node selected on Pet serves several field definitions
        "Pet": {"kind": "interface", "fields": dict(_PET_FIELDS, say=_f("String", {"w": _a("Int", "1")}, echo=True))},
        "Dog": {"kind": "object", "interfaces": ["Pet"], "fields": dict(_PET_FIELDS, say=_f("String", {"w": _a("Int", "2"), "extra": _a("String", '"dog"')}, echo=True))},
        "Cat": {"kind": "object", "interfaces": ["Pet"], "fields": dict(_PET_FIELDS, say=_f("String", {"w": _a("Int", "3"), "lives": _a("Int")}, echo=True))},
        "Animal": {"kind": "union", "members": ["Dog", "Cat"]},
        "Person": {"kind": "object", "interfaces": [], "fields": {"name": _f("String"), "age": _f("Int"), "best": _f("Dog")}},
    },
}

# -- M: field names that collide with methods of the parent container (default_resolver) ----------
SCHEMA_M = {
    "name": "M",
    "query": "Query",
    "mutation": None,
    "subscription": None,
    "types": {
        "Query": {"kind": "object", "interfaces": [], "fields": {"bag": _f("Bag"), "bags": _f("[Bag]")}},
        "Bag": {
            "kind": "object",
            "interfaces": [],
            "fields": {
                "items": _f("[Int]"),
                "keys": _f("[String!]"),
                "values": _f("Int"),
                "get": _f("String"),
                "copy": _f("Int"),
                "update": _f("Boolean"),
                "pop": _f("Float"),
                "plain": _f("Int"),
            },
        },
    },
}


def _merge(name, base, other, other_root_fields_into):
    import copy

    sm = copy.deepcopy(base)
    sm["name"] = name
    for tn, t in other["types"].items():
        if tn == other["query"]:
            sm["types"][other_root_fields_into]["fields"].update(copy.deepcopy(t["fields"]))
        else:
            sm["types"][tn] = copy.deepcopy(t)
    return sm


# -- H: everything at once (C + B + a little of A), used by the history search and by C05/C06 ---
SCHEMA_H = _merge("H", SCHEMA_C, SCHEMA_B, "Q")
SCHEMA_H["types"]["Q"]["fields"]["n"] = _f("Int!")
SCHEMA_H["types"]["Q"]["fields"]["li"] = _f("[Int!]!")

SCHEMAS = {"A": SCHEMA_A, "B": SCHEMA_B, "C": SCHEMA_C, "H": SCHEMA_H, "D": SCHEMA_D, "M": SCHEMA_M}


# -- type expressions -------------------------------------------------------------------------
@functools.lru_cache(maxsize=None)
def parse_type(text):
    """'[Int!]!' -> ('nn', ('list', ('nn', ('named', 'Int'))))"""
    text = text.strip()
    if text.endswith("!"):
        return ("nn", parse_type(text[:-1]))
    if text.startswith("["):
        assert text.endswith("]"), text
        return ("list", parse_type(text[1:-1]))
    return ("named", text)


def named_of(t):
    while t[0] != "named":
        t = t[1]
    return t[1]


def type_text(t):
    if t[0] == "nn":
        return type_text(t[1]) + "!"
    if t[0] == "list":
        return "[" + type_text(t[1]) + "]"
    return t[1]


def kind_of(sm, name):
    if name in BUILTIN_SCALARS:
        return "scalar"
    t = sm["types"].get(name)
    return t["kind"] if t else None


def is_composite(sm, name):
    return kind_of(sm, name) in ("object", "interface", "union")


def is_leaf(sm, name):
    return kind_of(sm, name) in ("scalar", "enum")


def is_input(sm, name):
    return kind_of(sm, name) in ("scalar", "enum", "input")


def possible_types(sm, name):
    """object type names that a value of composite type `name` can have (document order)."""
    t = sm["types"].get(name)
    if t is None or t["kind"] not in ("object", "interface", "union"):
        return []
    if t["kind"] == "object":
        return [name]
    if t["kind"] == "union":
        return list(t["members"])
    return [n for n, o in sm["types"].items() if o["kind"] == "object" and name in o["interfaces"]]


def overlap(sm, a, b):
    pa = possible_types(sm, a)
    return any(x in pa for x in possible_types(sm, b))


def fields_of(sm, name):
    t = sm["types"].get(name)
    if t is None:
        return {}
    return t.get("fields", {}) if t["kind"] in ("object", "interface") else {}


def composite_names(sm):
    return [n for n, t in sm["types"].items() if t["kind"] in ("object", "interface", "union")]


def root_of(sm, kind):
    return sm[kind]


# -- SDL emitter (own code) -------------------------------------------------------------------
def to_sdl(sm):
    out = list(sm.get("directives", []))
    roots = [(k, sm[k]) for k in ("query", "mutation", "subscription") if sm.get(k)]
    if any(name != kind.capitalize() for kind, name in roots):
        out.append("schema { %s }" % " ".join("%s: %s" % kv for kv in roots))
    for name, t in sm["types"].items():
        k = t["kind"]
        if k in ("object", "interface"):
            head = "type" if k == "object" else "interface"
            impl = (" implements " + " & ".join(t["interfaces"])) if t.get("interfaces") else ""
            fl = []
            for fn, f in t["fields"].items():
                args = ""
                if f["args"]:
                    args = "(%s)" % ", ".join(
                        "%s: %s%s" % (an, a["type"], (" = " + a["default"]) if a["default"] is not None else "")
                        for an, a in f["args"].items()
                    )
                fl.append("  %s%s: %s" % (fn, args, f["type"]))
            out.append("%s %s%s {\n%s\n}" % (head, name, impl, "\n".join(fl)))
        elif k == "union":
            out.append("union %s = %s" % (name, " | ".join(t["members"])))
        elif k == "enum":
            out.append("enum %s { %s }" % (name, " ".join(t["values"])))
        elif k == "input":
            fl = [
                "  %s: %s%s" % (fn, f["type"], (" = " + f["default"]) if f["default"] is not None else "")
                for fn, f in t["fields"].items()
            ]
            out.append("input %s {\n%s\n}" % (name, "\n".join(fl)))
        elif k == "scalar":
            out.append("scalar %s" % name)
    return "\n".join(out)


# -- custom scalar "Date": python value (y, m) <-> "y-m" ---------------------------------------
def date_serialize(v):
    return "%d-%d" % (v[0], v[1])


def date_parse(s):
    if not isinstance(s, str):
        raise ValueError("Date must be a string")
    a, b = s.split("-")
    return (int(a), int(b))


def date_parse_literal(node, variables=None):
    if type(node).__name__ != "StringValue":
        raise ValueError("Date literal must be a string")
    return date_parse(node.value)


def build(sm, resolver=None):
    """py_gql Schema for the model; `resolver` becomes the schema-wide default resolver."""
    from py_gql import build_schema
    from py_gql.schema import EnumType, ScalarType

    extra = []
    for name, t in sm["types"].items():
        if t["kind"] == "enum":
            extra.append(EnumType(name, [(k, v) for k, v in t["values"].items()]))
        elif t["kind"] == "scalar" and t.get("impl") != "sdl":
            extra.append(ScalarType(name, serialize=date_serialize, parse=date_parse, parse_literal=date_parse_literal))
    schema = build_schema(to_sdl(sm), additional_types=extra)
    if resolver is not None:
        schema.default_resolver = resolver
    return schema


# -- W: the wrapper matrix for variable usages (C06) ----------------------------------------------
WRAPPERS = ["T", "T!", "[T]", "[T]!", "[T!]", "[T!]!", "[[T]]", "[[T!]!]"]
W_BASES = {"scalar": "Int", "enum": "Color", "input": "Pt"}
W_SAMPLE = {"Int": "7", "Color": "RED", "Pt": "{x: 1}"}


def w_type(wrapper, base):
    return wrapper.replace("T", base)


def w_literal(wrapper, base):
    """a literal of type wrapper(base)"""
    t = parse_type(w_type(wrapper, base))
    depth = 0
    while t[0] != "named":
        if t[0] == "list":
            depth += 1
        t = t[1]
    return "[" * depth + W_SAMPLE[base] + "]" * depth


def _schema_w():
    types = {}
    qfields = {}
    # argument level: one FIELD per (base kind, wrapper, with / without default), argument `x`
    for kind, base in W_BASES.items():
        for i, w in enumerate(WRAPPERS):
            qfields["%s_a%d" % (kind, i)] = _f("String", {"x": _a(w_type(w, base))}, echo=True)
            qfields["%s_d%d" % (kind, i)] = _f("String", {"x": _a(w_type(w, base), w_literal(w, base))}, echo=True)
    # input-object-field level (scalar base): one input type per wrapper, without / with a field default
    for i, w in enumerate(WRAPPERS):
        types["W%d" % i] = {"kind": "input", "fields": {"f": {"type": w_type(w, "Int"), "default": None}}}
        types["WD%d" % i] = {"kind": "input", "fields": {"f": {"type": w_type(w, "Int"), "default": w_literal(w, "Int")}}}
        qfields["obj_a%d" % i] = _f("String", {"x": _a("W%d" % i)}, echo=True)
        qfields["obj_d%d" % i] = _f("String", {"x": _a("WD%d" % i)}, echo=True)
        # the same with a default value on the ARGUMENT, and lists of those input objects
        lit = "{f: %s}" % w_literal(w, "Int")
        qfields["objx_a%d" % i] = _f("String", {"x": _a("W%d" % i, lit)}, echo=True)
        qfields["objx_d%d" % i] = _f("String", {"x": _a("WD%d" % i, lit)}, echo=True)
        qfields["lst_a%d" % i] = _f("String", {"x": _a("[W%d]" % i)}, echo=True)
        qfields["lst_d%d" % i] = _f("String", {"x": _a("[WD%d]" % i)}, echo=True)
        qfields["lstx_a%d" % i] = _f("String", {"x": _a("[W%d]" % i, "[%s]" % lit)}, echo=True)
        qfields["lstx_d%d" % i] = _f("String", {"x": _a("[WD%d]" % i, "[%s]" % lit)}, echo=True)
    # two same-typed non-null positions of which exactly one has a default (arguments / input fields)
    qfields["pair"] = _f("String", {"a": _a("Int!", "1"), "b": _a("Int!")}, echo=True)
    types["PairIn"] = {"kind": "input", "fields": {"a": {"type": "Int!", "default": "1"}, "b": {"type": "Int!", "default": None}}}
    qfields["pairobj"] = _f("String", {"x": _a("PairIn")}, echo=True)
    qfields["plain"] = _f("String")
    # a Boolean! argument WITH a default: shares its (printed) type with the `if` argument of @skip / @include
    qfields["flagged"] = _f("String", {"flag": _a("Boolean!", "false")}, echo=True)
    types_all = {"Query": {"kind": "object", "interfaces": [], "fields": qfields}}
    types_all.update(types)
    types_all["Color"] = {"kind": "enum", "values": {"RED": 1, "GREEN": 2}}
    types_all["Pt"] = {"kind": "input", "fields": {"x": {"type": "Int", "default": None}}}
    directives = []
    for i, w in enumerate(WRAPPERS):
        directives.append("directive @w%d(x: %s) on FIELD" % (i, w_type(w, "Int")))
        directives.append("directive @wd%d(x: %s = %s) on FIELD" % (i, w_type(w, "Int"), w_literal(w, "Int")))
    return {"name": "W", "query": "Query", "mutation": None, "subscription": None, "types": types_all, "directives": directives}


SCHEMA_W = _schema_w()
SCHEMAS["W"] = SCHEMA_W
