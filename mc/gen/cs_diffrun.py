# -*- coding: utf-8 -*-
"""
cs_diffrun -- run py_gql's schema differ on (base id, edits) pairs; also the hash-seed worker.

    python -m mc.gen.cs_diffrun        (started by C20 with PYTHONHASHSEED=<k> in the environment)

reads one JSON request per line on stdin:  {"items": [{"base": id, "edits": [...]}, ...], "routes": ["sdl"]}
writes one JSON answer per line:           [{"sdl": SEQ|{"error": ..}}, ...]
where SEQ = [[change class name, severity name, message], ...] in the order the differ yielded them.
The worker exits on EOF.
"""
import json
import sys

from mc.gen import cs_bases, cs_edits
from mc.ref import cs_model as M

ROUTES = ("sdl", "code")


def order_variants(n):
    """index orders used for 'definition order': identity, reversed, rotated by half."""
    ident = list(range(n))
    out = [ident]
    for o in (ident[::-1], ident[n // 2 :] + ident[: n // 2]):
        if o not in out:
            out.append(o)
    return out


def build(sm, route, order=None):
    if route == "sdl":
        from py_gql import build_schema

        return build_schema(M.to_sdl(sm, order))
    s = M.build_code(sm, order)
    s.validate()
    return s


def run_diff(old, new):
    from py_gql.schema.differ import diff_schema

    return [[type(c).__name__, c.severity.name, c.message] for c in diff_schema(old, new)]


def models(item):
    old = cs_bases.get(item["base"])
    new = cs_edits.apply_edits(old, item["edits"])
    return old, new


def serve():
    for line in sys.stdin:
        line = line.strip()
        if not line:
            continue
        req = json.loads(line)
        out = []
        for item in req["items"]:
            res = {}
            try:
                old_sm, new_sm = models(item)
            except Exception as e:  # noqa
                out.append({"sdl": {"error": "model: %r" % e}})
                continue
            for route in req.get("routes") or ("sdl",):
                try:
                    res[route] = run_diff(build(old_sm, route), build(new_sm, route))
                except Exception as e:  # noqa
                    res[route] = {"error": "%s: %s" % (type(e).__name__, str(e)[:200])}
            out.append(res)
        sys.stdout.write(json.dumps(out) + "\n")
        sys.stdout.flush()


if __name__ == "__main__":
    import logging
    import warnings

    logging.disable(logging.CRITICAL)
    warnings.simplefilter("ignore")
    serve()
