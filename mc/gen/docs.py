# -*- coding: utf-8 -*-
"""
A tiny, JSON-able model of executable documents, independent of py_gql's AST.

selection :=
    ["f", name, alias|None, dirs, args, children|None]    field
    ["i", typecond|None, dirs, children]                  inline fragment
    ["s", fragname, dirs]                                 fragment spread
dirs      := [[name, {argname: valuetext}], ...]
args      := {argname: valuetext}   (ordered)
operation := {"kind": "query"|"mutation"|"subscription", "name": str|None,
              "vars": [[name, typetext, defaulttext|None], ...], "dirs": dirs, "sels": [selection]}
document  := {"ops": [operation], "frags": [[name, typecond, dirs, children], ...]}

Rendering is canonical (single spaces) -- layout variation is the business of C01/C02.
"""


def render_dirs(dirs):
    out = []
    for name, args in dirs or ():
        if args:
            out.append("@%s(%s)" % (name, ", ".join("%s: %s" % kv for kv in args.items())))
        else:
            out.append("@" + name)
    return (" " + " ".join(out)) if out else ""


def render_sels(sels):
    return "{ " + " ".join(render_sel(s) for s in sels) + " }"


def render_sel(s):
    k = s[0]
    if k == "f":
        _, name, alias, dirs, args, children = s
        t = ("%s: %s" % (alias, name)) if alias else name
        if args:
            t += "(%s)" % ", ".join("%s: %s" % kv for kv in args.items())
        t += render_dirs(dirs)
        if children is not None:
            t += " " + render_sels(children)
        return t
    if k == "i":
        _, tc, dirs, children = s
        return "..." + ((" on " + tc) if tc else "") + render_dirs(dirs) + " " + render_sels(children)
    if k == "s":
        _, name, dirs = s
        return "..." + name + render_dirs(dirs)
    raise ValueError(k)


def render_op(op, shorthand_ok=True):
    kind = op.get("kind", "query")
    head = ""
    if not (shorthand_ok and kind == "query" and not op.get("name") and not op.get("vars") and not op.get("dirs")):
        head = kind
        if op.get("name"):
            head += " " + op["name"]
        if op.get("vars"):
            head += "(%s)" % ", ".join(
                "$%s: %s%s" % (n, t, (" = " + d) if d is not None else "") for n, t, d in op["vars"]
            )
        head += render_dirs(op.get("dirs"))
        head += " "
    return head + render_sels(op["sels"])


def render_frag(fr):
    name, tc, dirs, children = fr
    return "fragment %s on %s%s %s" % (name, tc, render_dirs(dirs), render_sels(children))


def render_doc(doc, order=None):
    parts = [("op", o) for o in doc["ops"]] + [("fr", f) for f in doc.get("frags", [])]
    if order is not None:
        parts = [parts[i] for i in order]
    return "\n".join(render_op(p) if k == "op" else render_frag(p) for k, p in parts)


def walk(sels, frags=None, _seen=None):
    """Yield every selection node reachable syntactically (not through spreads)."""
    for s in sels:
        yield s
        if s[0] == "f" and s[5]:
            for x in walk(s[5]):
                yield x
        elif s[0] == "i":
            for x in walk(s[3]):
                yield x
