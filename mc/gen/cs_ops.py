# -*- coding: utf-8 -*-
"""
cs_ops -- a small deterministic generator of operations against a schema model (cs_model).

Purpose (C20 clause c3, C14 cross-checks): a set of client operations that together *use every
element of the schema once*: every field of every reachable composite type (with required
arguments), every argument (literal, null, variable), every enum value, every input field, every
possible fragment type condition, every executable location of every custom directive with every
directive argument.  If an element a client may rely on disappears or tightens, at least one of
these operations stops validating.

The generator only reads the model; whether an operation is really valid is decided by the caller
(py_gql's validate_ast against the *old* schema is the judge; invalid ones are dropped and counted).
"""
from mc.gen.cs_edits import _default_values
from mc.ref import cs_model as M

EXEC_OP_LOC = {"query": "QUERY", "mutation": "MUTATION", "subscription": "SUBSCRIPTION"}


def _required(a):
    return M.parse_type(a["type"])[0] == "nn" and "default" not in a


def _lit(sm, texpr, which=0):
    return M.sdl_value(sm, texpr, _default_values(sm, texpr)[which])


def _args_text(sm, f, extra=None):
    """required arguments (+ the extra (name, text) pair)."""
    parts = []
    for a in f.get("args") or ():
        if extra and a["name"] == extra[0]:
            parts.append("%s: %s" % extra)
        elif _required(a):
            parts.append("%s: %s" % (a["name"], _lit(sm, a["type"])))
    return ("(" + ", ".join(parts) + ")") if parts else ""


def _subsel(sm, f):
    k = M.kind_of(sm, M.named(f["type"]))
    return " { __typename }" if k in ("object", "interface", "union") else ""


def possible(sm, name):
    t = M.get_type(sm, name)
    if t is None:
        return []
    if t["kind"] == "object":
        return [name]
    if t["kind"] == "union":
        return list(t.get("members") or ())
    if t["kind"] == "interface":
        return [o["name"] for o in sm["types"] if o["kind"] == "object" and name in (o.get("interfaces") or ())]
    return []


def reach(sm):
    """
    composite type name -> (operation kind, wrapper) where wrapper(inner) is a selection-set text
    selecting ``inner`` on that type, shortest path first (BFS from the roots).
    """
    out = {}
    queue = []
    roots = sm.get("roots") or {}
    REACH_TYPES.clear()
    for op in ("query", "mutation", "subscription"):
        r = roots.get(op)
        if r and M.kind_of(sm, r) == "object" and r not in out:
            out[r] = (op, [])
            REACH_TYPES[r] = [r]
            queue.append(r)
    while queue:
        name = queue.pop(0)
        op, path = out[name]
        t = M.get_type(sm, name)
        if t["kind"] == "union":
            hops = []
        else:
            hops = [(f, M.named(f["type"])) for f in t.get("fields") or ()]
        for f, target in hops:
            if M.kind_of(sm, target) in ("object", "interface", "union") and target not in out:
                out[target] = (op, path + [f["name"] + _args_text(sm, f)])
                REACH_TYPES[target] = REACH_TYPES[name] + [target] + [M.named(a["type"]) for a in f.get("args") or () if _required(a)]
                queue.append(target)
        if t["kind"] in ("interface", "union"):
            for m in possible(sm, name):
                if m not in out:
                    out[m] = (op, path + ["... on " + m])
                    REACH_TYPES[m] = REACH_TYPES[name] + [m]
                    queue.append(m)
    return out


REACH_TYPES = {}  # filled by reach(): composite type -> type names along the path to it


def input_closure(sm, name):
    """name + every type reachable through input object fields."""
    seen, todo = [], [name]
    while todo:
        n = todo.pop()
        if n in seen:
            continue
        seen.append(n)
        t = M.get_type(sm, n)
        if t and t["kind"] == "input":
            todo.extend(M.named(f["type"]) for f in t["fields"])
    return seen


def wrap(op, path, inner, header="", opdirs=""):
    s = inner
    for hop in reversed(path):
        s = "%s { %s }" % (hop, s)
    head = op if (op != "query" or header or opdirs) else ""
    return ("%s%s%s { %s }" % (head, header, opdirs, s)).strip()


USES = {}  # filled by gen_ops(): operation text -> names of the types / "@directives" it touches


def gen_ops(sm):
    """deterministic list of (tag, operation text); USES[text] = schema elements the operation touches."""
    ops = []
    seen = set()
    uses_of = USES
    uses_of.clear()

    def add(tag, text, uses=()):
        if text not in seen:
            seen.add(text)
            ops.append((tag, text))
            uses_of[text] = sorted(set(uses))

    R = reach(sm)
    field_dirs = [d for d in sm.get("directives") or () if "FIELD" in d["locations"]]

    def dir_uses(d):
        req = ", ".join("%s: %s" % (a["name"], _lit(sm, a["type"])) for a in d.get("args") or () if _required(a))
        uses = ["@%s%s" % (d["name"], "(%s)" % req if req else "")]
        for a in d.get("args") or ():
            parts = []
            for b in d.get("args") or ():
                if b["name"] == a["name"] or _required(b):
                    parts.append("%s: %s" % (b["name"], _lit(sm, b["type"])))
            uses.append("@%s(%s)" % (d["name"], ", ".join(parts)))
        return uses

    all_dir_uses = []
    for d in sm.get("directives") or ():
        all_dir_uses.append("@" + d["name"])
        for a in d.get("args") or ():
            all_dir_uses.extend(input_closure(sm, M.named(a["type"])))
    for name, (op, path) in R.items():
        t = M.get_type(sm, name)
        base_uses = list(REACH_TYPES.get(name, [name]))
        if t["kind"] == "union":
            add("typename", wrap(op, path, "__typename"), base_uses)
        for f in t.get("fields") or ():
            sub = _subsel(sm, f)
            fu = base_uses + [M.named(f["type"])]
            for a in f.get("args") or ():
                if _required(a):
                    fu = fu + input_closure(sm, M.named(a["type"]))
            add("field", wrap(op, path, f["name"] + _args_text(sm, f) + sub), fu)
            for a in f.get("args") or ():
                at = a["type"]
                au = fu + input_closure(sm, M.named(at))
                add("arg-literal", wrap(op, path, f["name"] + _args_text(sm, f, (a["name"], _lit(sm, at))) + sub), au)
                if M.parse_type(at)[0] != "nn":
                    add("arg-null", wrap(op, path, f["name"] + _args_text(sm, f, (a["name"], "null")) + sub), au)
                add("arg-variable", wrap(op, path, f["name"] + _args_text(sm, f, (a["name"], "$v")) + sub, header="($v: %s)" % at), au)
                if not _required(a):
                    # a nullable variable may flow into a position that has a default
                    pass
                k = M.kind_of(sm, M.named(at))
                inner_t = M.named(at)
                if k == "enum":
                    for v in M.get_type(sm, inner_t)["values"]:
                        lit = M.sdl_value(sm, at, v["name"] if "[" not in at else [v["name"]])
                        add("enum-literal", wrap(op, path, f["name"] + _args_text(sm, f, (a["name"], lit)) + sub), au)
                if k == "input":
                    for lit in input_literals(sm, inner_t):
                        if "[" in at:
                            lit = "[" + lit + "]"
                        add("input-literal", wrap(op, path, f["name"] + _args_text(sm, f, (a["name"], lit)) + sub), au)
            if f is t["fields"][0] and not path:
                # FIELD-location directives: every use form, on the first field of each root type
                for d in field_dirs:
                    for use in dir_uses(d):
                        add("directive-field", wrap(op, path, f["name"] + _args_text(sm, f) + " " + use + sub), fu + all_dir_uses)
        if t["kind"] in ("interface", "union"):
            for m in [o["name"] for o in sm["types"] if o["kind"] == "object"]:
                if m in possible(sm, name):
                    add("fragment", wrap(op, path, "... on %s { __typename }" % m), base_uses + [m])
    # operation-level and fragment-level directive locations
    roots = sm.get("roots") or {}
    for op in ("query", "mutation", "subscription"):
        r = roots.get(op)
        if not r or M.kind_of(sm, r) != "object":
            continue
        first = M.get_type(sm, r)["fields"][0]
        base = first["name"] + _args_text(sm, first) + _subsel(sm, first)
        ru = [r, M.named(first["type"])]
        for a in first.get("args") or ():
            if _required(a):
                ru += input_closure(sm, M.named(a["type"]))
        add("root", wrap(op, [], base), ru)
        for d in sm.get("directives") or ():
            for use in dir_uses(d):
                if EXEC_OP_LOC[op] in d["locations"]:
                    add("directive-operation", wrap(op, [], base, opdirs=" " + use), ru + all_dir_uses)
                if "INLINE_FRAGMENT" in d["locations"]:
                    add("directive-inline", wrap(op, [], "... %s { %s }" % (use, base)), ru + all_dir_uses)
                if "FRAGMENT_SPREAD" in d["locations"]:
                    add("directive-spread", wrap(op, [], "...Fr " + use) + " fragment Fr on %s { %s }" % (r, base), ru + all_dir_uses)
                if "FRAGMENT_DEFINITION" in d["locations"]:
                    add("directive-fragdef", wrap(op, [], "...Fr") + " fragment Fr on %s %s { %s }" % (r, use, base), ru + all_dir_uses)
    return ops


def input_literals(sm, name, depth=0):
    """literals of input object ``name``: required fields only, then each further field once."""
    td = M.get_type(sm, name)
    req = []
    for f in td["fields"]:
        if _required(f):
            req.append("%s: %s" % (f["name"], _lit(sm, f["type"])))
    out = ["{" + ", ".join(req) + "}"]
    for f in td["fields"]:
        vals = []
        k = M.kind_of(sm, M.named(f["type"]))
        if k == "enum":
            for v in M.get_type(sm, M.named(f["type"]))["values"]:
                vals.append(M.sdl_value(sm, f["type"], v["name"] if "[" not in f["type"] else [v["name"]]))
        elif k == "input" and depth < 2:
            for lit in input_literals(sm, M.named(f["type"]), depth + 1):
                vals.append("[" + lit + "]" if "[" in f["type"] else lit)
        else:
            vals.append(_lit(sm, f["type"]))
        if M.parse_type(f["type"])[0] != "nn":
            vals.append("null")
        for v in vals:
            parts = ["%s: %s" % (f["name"], v)] + [r for r in req if not r.startswith(f["name"] + ":")]
            out.append("{" + ", ".join(parts) + "}")
    return out


INTROSPECTION = """
query {
  __schema {
    queryType { name } mutationType { name } subscriptionType { name }
    types {
      kind name description
      fields(includeDeprecated: true) {
        name description isDeprecated deprecationReason
        args { name description defaultValue type { ...TypeRef } }
        type { ...TypeRef }
      }
      inputFields { name description defaultValue type { ...TypeRef } }
      interfaces { name }
      enumValues(includeDeprecated: true) { name description isDeprecated deprecationReason }
      possibleTypes { name }
    }
    directives { name description locations args { name description defaultValue type { ...TypeRef } } }
  }
}
fragment TypeRef on __Type { kind name ofType { kind name ofType { kind name ofType { kind name ofType { kind name } } } } }
"""
