# -*- coding: utf-8 -*-
"""
Type-directed, deterministic, simplest-first enumeration of operations VALID BY CONSTRUCTION against
a schema model of mc.gen.ex_schemas, in the document model of mc.gen.docs.

Two layers (the C19 idiom):

* ``base_sets(sm, typename, n)``: every selection list with exactly ``n`` nodes over the fields of
  the type (ordered sequences of distinct fields; composite fields carry >= 1 child; abstract
  parents additionally offer ``... on <narrowing> { .. }`` nodes and ``__typename``).
* ``deviations(sm, doc)``: every single validity-preserving departure at every node: alias,
  duplicate response key (leaf twice / composite twice / composite split so that sub-selections
  must be merged, in both orders), wrapping in an inline fragment (no condition / same type / every
  overlapping abstract type on which the field exists), wrapping in named fragments (one level, two
  nested levels, single- and multi-letter names, spread twice, spread inside an inline fragment and
  again outside), @skip/@include with literal and variable conditions on fields, inline fragments and
  spreads, both directives at once, ``__typename``, argument variants for fields with arguments
  (literal of every kind, variables with and without default).

A *case document* is ``{"doc": document, "vars": {name: [value choices]}}``; ``OMIT`` among the
choices means "not provided".
"""
import copy
import functools
import itertools

from . import ex_schemas as S
from .worlds import OMIT

# ---------------------------------------------------------------------------------------------
# rendering with the offset of every field node (independent of py_gql)


def render_dirs(dirs):
    out = []
    for name, args in dirs or ():
        if args:
            out.append("@%s(%s)" % (name, ", ".join("%s: %s" % kv for kv in args.items())))
        else:
            out.append("@" + name)
    return (" " + " ".join(out)) if out else ""


def _render_sels(sels, base, locs):
    parts = ["{ "]
    pos = base + 2
    first = True
    for s in sels:
        if not first:
            parts.append(" ")
            pos += 1
        first = False
        t = _render_sel(s, pos, locs)
        parts.append(t)
        pos += len(t)
    parts.append(" }")
    return "".join(parts)


def _render_sel(s, base, locs):
    k = s[0]
    locs[id(s)] = base
    if k == "f":
        _, name, alias, dirs, args, children = s
        t = ("%s: %s" % (alias, name)) if alias else name
        if args:
            t += "(%s)" % ", ".join("%s: %s" % kv for kv in args.items())
        t += render_dirs(dirs)
        if children is not None:
            t += " "
            t += _render_sels(children, base + len(t), locs)
        return t
    if k == "i":
        _, tc, dirs, children = s
        t = "..." + ((" on " + tc) if tc else "") + render_dirs(dirs) + " "
        return t + _render_sels(children, base + len(t), locs)
    if k == "s":
        return "..." + s[1] + render_dirs(s[2])
    raise ValueError(k)


def render_doc_locs(doc, order=None):
    """-> (text, {id(selection node): character offset})"""
    locs = {}
    parts = [("op", o) for o in doc["ops"]] + [("fr", f) for f in doc.get("frags", [])]
    if order is not None:
        parts = [parts[i] for i in order]
    out = []
    pos = 0
    for kind, p in parts:
        if out:
            pos += 1  # "\n"
        if kind == "op":
            head = ""
            okind = p.get("kind", "query")
            if not (okind == "query" and not p.get("name") and not p.get("vars") and not p.get("dirs")):
                head = okind
                if p.get("name"):
                    head += " " + p["name"]
                if p.get("vars"):
                    head += "(%s)" % ", ".join(
                        "$%s: %s%s" % (v[0], v[1], (" = " + v[2]) if v[2] is not None else "") for v in p["vars"]
                    )
                head += render_dirs(p.get("dirs"))
                head += " "
            t = head + _render_sels(p["sels"], pos + len(head), locs)
        else:
            name, tc, dirs, children = p
            head = "fragment %s on %s%s " % (name, tc, render_dirs(dirs))
            t = head + _render_sels(children, pos + len(head), locs)
        out.append(t)
        pos += len(t)
    for raw in doc.get("extra", ()):  # raw definition texts (type-system definitions)
        out.append(raw)
    return "\n".join(out), locs


def render(doc, order=None):
    return render_doc_locs(doc, order)[0]


# ---------------------------------------------------------------------------------------------
# helpers on the document model


def F(name, children=None, alias=None, args=None, dirs=None):
    return ["f", name, alias, dirs or [], args or {}, children]


def I(tc, children, dirs=None):
    return ["i", tc, dirs or [], children]


def SP(name, dirs=None):
    return ["s", name, dirs or []]


def mkop(sels, kind="query", name=None, vars_=None, dirs=None):
    return {"kind": kind, "name": name, "vars": vars_ or [], "dirs": dirs or [], "sels": sels}


def mkdoc(ops, frags=None):
    if isinstance(ops, dict):
        ops = [ops]
    return {"ops": ops, "frags": frags or []}


def children_of(s):
    if s[0] == "f":
        return s[5]
    if s[0] == "i":
        return s[3]
    return None


def all_nodes(doc):
    """every selection node as (container list, index, parent composite type name), DFS order:
    operations first, then fragments.  Needs the schema to know parent types -> see typed_nodes."""
    raise NotImplementedError


def typed_nodes(sm, doc):
    """[(container, index, parent type name)] for every selection node, operations then fragments."""
    out = []

    def rec(lst, parent):
        for i, s in enumerate(lst):
            out.append((lst, i, parent))
            if s[0] == "f":
                if s[5] is not None and parent is not None:
                    fd = S.fields_of(sm, parent).get(s[1]) if S.kind_of(sm, parent) in ("object", "interface") else None
                    named = S.named_of(S.parse_type(fd["type"])) if fd else None
                    rec(s[5], named if named and S.is_composite(sm, named) else None)
                elif s[5] is not None:
                    rec(s[5], None)
            elif s[0] == "i":
                rec(s[3], (s[1] if S.is_composite(sm, s[1]) else None) if s[1] else parent)

    for op in doc["ops"]:
        rec(op["sels"], sm.get(op.get("kind", "query")))
    for fr in doc.get("frags", []):
        rec(fr[3], fr[1] if S.is_composite(sm, fr[1]) else None)
    return out


def response_key(s):
    return s[2] or s[1]


# ---------------------------------------------------------------------------------------------
# base selection sets


def default_args(sm, fdef):
    """literal for every required argument (non-null without default)."""
    out = {}
    for an, a in fdef["args"].items():
        t = S.parse_type(a["type"])
        if t[0] == "nn" and a["default"] is None:
            out[an] = sample_literal(sm, t)
    return out


def sample_literal(sm, t):
    if t[0] == "nn":
        return sample_literal(sm, t[1])
    if t[0] == "list":
        return "[%s]" % sample_literal(sm, t[1])
    n = t[1]
    if n == "Int":
        return "7"
    if n == "Float":
        return "1.5"
    if n == "String":
        return '"x"'
    if n == "ID":
        return '"b1"'
    if n == "Boolean":
        return "true"
    k = S.kind_of(sm, n)
    if k == "enum":
        return list(sm["types"][n]["values"])[0]
    if k == "input":
        return "{}"
    if k == "scalar":
        return '"2001-2"'
    raise ValueError(n)


def narrowings(sm, tname):
    """type conditions offered below an abstract parent: its possible object types, plus other
    abstract types that overlap with it."""
    if S.kind_of(sm, tname) == "object":
        return []
    out = list(S.possible_types(sm, tname))
    for n in S.composite_names(sm):
        if n != tname and S.kind_of(sm, n) != "object" and S.overlap(sm, n, tname):
            out.append(n)
    return out


def _palette(sm, tname):
    """atoms selectable below `tname`: ("leaf", name) | ("comp", name, child type) | ("inl", tc)"""
    out = []
    kind = S.kind_of(sm, tname)
    for fn, f in S.fields_of(sm, tname).items():
        named = S.named_of(S.parse_type(f["type"]))
        if S.is_composite(sm, named):
            out.append(("comp", fn, named))
        else:
            out.append(("leaf", fn))
    if kind in ("interface", "union"):
        out.append(("leaf", "__typename"))
        for tc in narrowings(sm, tname):
            out.append(("inl", tc))
    return out


class Gen(object):
    """memoised enumerator of base selection sets for one schema model."""

    def __init__(self, sm, max_depth=3):
        self.sm = sm
        self.max_depth = max_depth
        self._items = {}
        self._sets = {}

    def items(self, tname, n, depth, in_inline=False):
        """all single nodes of total size n below tname (as tuples: hashable abstract form)."""
        key = (tname, n, depth, in_inline)
        if key in self._items:
            return self._items[key]
        out = []
        for atom in _palette(self.sm, tname):
            if atom[0] == "leaf":
                if n == 1:
                    out.append(("f", atom[1], None))
            elif atom[0] == "comp":
                if n >= 2 and depth > 1:
                    for ch in self.sets(atom[2], n - 1, depth - 1):
                        out.append(("f", atom[1], ch))
            elif atom[0] == "inl":
                if n >= 2 and not in_inline:
                    for ch in self.sets(atom[1], n - 1, depth, True):
                        out.append(("i", atom[1], ch))
        self._items[key] = tuple(out)
        return self._items[key]

    def sets(self, tname, n, depth, in_inline=False):
        """all ordered selection lists of total size n (distinct field names / type conditions)."""
        key = (tname, n, depth, in_inline)
        if key in self._sets:
            return self._sets[key]
        out = []

        def rec(remaining, used, acc):
            if remaining == 0:
                out.append(tuple(acc))
                return
            for size in range(1, remaining + 1):
                for it in self.items(tname, size, depth, in_inline):
                    ident = (it[0], it[1])
                    if ident in used:
                        continue
                    acc.append(it)
                    rec(remaining - size, used | {ident}, acc)
                    acc.pop()

        rec(n, frozenset(), [])
        self._sets[key] = tuple(out)
        return self._sets[key]

    def to_sels(self, tname, abstract):
        sm = self.sm
        out = []
        for it in abstract:
            if it[0] == "f":
                fd = S.fields_of(sm, tname).get(it[1])
                args = default_args(sm, fd) if fd else {}
                if it[2] is None:
                    out.append(F(it[1], None, args=args))
                else:
                    named = S.named_of(S.parse_type(fd["type"]))
                    out.append(F(it[1], self.to_sels(named, it[2]), args=args))
            else:
                out.append(I(it[1], self.to_sels(it[1], it[2])))
        return out


def base_docs(sm, nmax, root="query", max_depth=3):
    """simplest first: (n, document) for every base selection set of the root type."""
    g = Gen(sm, max_depth)
    tname = sm[root]
    for n in range(1, nmax + 1):
        for ab in g.sets(tname, n, max_depth):
            yield n, mkdoc(mkop(g.to_sels(tname, ab), kind=root))


# ---------------------------------------------------------------------------------------------
# validity-preserving deviations

DIR_VARIANTS = [
    # (tag, dirs, variable type or None, default, choices)
    ("skip-true", [["skip", {"if": "true"}]], None),
    ("skip-false", [["skip", {"if": "false"}]], None),
    ("include-true", [["include", {"if": "true"}]], None),
    ("include-false", [["include", {"if": "false"}]], None),
    ("skip-var", [["skip", {"if": "$V"}]], ("Boolean!", None, [True, False])),
    ("include-var", [["include", {"if": "$V"}]], ("Boolean!", None, [True, False])),
    ("skip-vardef", [["skip", {"if": "$V"}]], ("Boolean", "true", [OMIT, False])),
    ("include-vardef", [["include", {"if": "$V"}]], ("Boolean", "false", [OMIT, True])),
    ("skipF-includeF", [["skip", {"if": "false"}], ["include", {"if": "false"}]], None),
    ("skipT-includeT", [["skip", {"if": "true"}], ["include", {"if": "true"}]], None),
    ("includeT-skipF", [["include", {"if": "true"}], ["skip", {"if": "false"}]], None),
]

VAR_NAMES = ["v", "flag", "w", "other"]
ALIASES = ["x", "yy", "z", "ww"]
FRAG_NAMES = [("F", "G"), ("Frag", "Inner"), ("H", "Jay")]


def _fresh(used, pool):
    for n in pool:
        if n not in used:
            return n
    i = 0
    while True:
        n = "%s%d" % (pool[0], i)
        if n not in used:
            return n
        i += 1


def _used_aliases(doc):
    out = set()

    def rec(lst):
        for s in lst:
            if s[0] == "f":
                out.add(response_key(s))
                if s[5]:
                    rec(s[5])
            elif s[0] == "i":
                rec(s[3])

    for op in doc["ops"]:
        rec(op["sels"])
    for fr in doc["frags"]:
        rec(fr[3])
    return out


def _field_type_name(sm, parent, s):
    if s[1] == "__typename":
        return "String"
    fd = S.fields_of(sm, parent).get(s[1])
    return S.named_of(S.parse_type(fd["type"])) if fd else None


def _exists_on(sm, tname, sel):
    """can selection `sel` (valid below its current parent) be moved below type `tname`?"""
    if sel[0] == "f":
        if sel[1] == "__typename":
            return True
        return sel[1] in S.fields_of(sm, tname)
    if sel[0] == "i":
        return sel[1] is None or S.overlap(sm, sel[1], tname)
    return False


def wrap_conditions(sm, parent, sel):
    """type conditions T such that `... on T { sel }` is valid below `parent`."""
    out = []
    for n in S.composite_names(sm):
        if S.overlap(sm, n, parent) and _exists_on(sm, n, sel):
            if sel[0] == "f" and sel[1] != "__typename" and n != parent:
                # the field must have the same definition (type, args) to keep merges trivially valid
                a = S.fields_of(sm, n).get(sel[1])
                b = S.fields_of(sm, parent).get(sel[1])
                if b is not None and a != b:
                    continue
            out.append(n)
    return out


ARG_VARIANTS = {
    # per argument type text: list of (tag, value text, variable spec or None)
    "Int": [
        ("int", "5", None),
        ("null", "null", None),
        ("var", "$V", ("Int", None, [OMIT, 4, None])),
        ("vardef", "$V", ("Int", "9", [OMIT, 4])),
        ("varnn", "$V", ("Int!", None, [6])),
    ],
    "String": [("string", '"q"', None), ("var", "$V", ("String", None, [OMIT, "w"]))],
    "Color": [("enum", "GREEN", None), ("var", "$V", ("Color", None, [OMIT, "RED"])), ("vardef", "$V", ("Color", "GREEN", [OMIT, "RED"]))],
    "[Int!]": [
        ("list", "[1, 2]", None),
        ("list1", "3", None),
        ("listvar", "[1, $V]", ("Int!", None, [8])),
        ("var", "$V", ("[Int!]", None, [OMIT, [1, 2], [], None])),
        ("varnn", "$V", ("[Int!]!", None, [[3]])),
        ("vardef", "$V", ("[Int!]", "[4]", [OMIT, [5]])),
    ],
    "In": [
        ("object", '{a: 1, b: ["x"]}', None),
        ("object-nested", "{c: {a: 2}}", None),
        ("object-same-name-two-levels", "{a: 1, c: {a: 2, b: []}, b: []}", None),
        ("object-same-name-nested-first", "{c: {a: 2}, a: 1}", None),
        ("object-var", "{a: $V}", ("Int", None, [OMIT, 3])),
        ("var", "$V", ("In", None, [OMIT, {"a": 1}, {"c": {"b": ["y"]}}])),
    ],
    "[In]": [
        ("list-of-objects-same-names", "[{a: 1}, {a: 2, c: {a: 3}}, {c: {a: 4}, a: 5}]", None),
        ("single-object-for-list", "{a: 1, c: {a: 1}}", None),
    ],
    "Int!": [("int", "5", None), ("varnn", "$V", ("Int!", None, [6])), ("vardef", "$V", ("Int", "2", [OMIT, 4]))],
    "ID!": [("id-int", "12", None), ("id-str", '"k"', None), ("var", "$V", ("ID!", None, ["z", 3]))],
}


def deviations(sm, doc, min_pos=0):
    """yield (tag, pos, new_case_delta) for every single deviation; lazily applied by `apply`."""
    nodes = typed_nodes(sm, doc)
    for pos in range(min_pos, len(nodes)):
        lst, i, parent = nodes[pos]
        s = lst[i]
        if parent is None:
            continue
        kind = s[0]
        if kind == "f":
            if not s[2]:
                yield ("alias", pos)
            yield ("dup", pos)
            yield ("dup-end", pos)
            if s[5] is not None and len(s[5]) >= 2:
                yield ("split", pos)
                yield ("split-rev", pos)
                yield ("split-overlap", pos)
            if s[5] is not None and not any(c[0] == "f" and c[1] == "__typename" for c in s[5]):
                yield ("typename-first", pos)
                yield ("typename-last", pos)
            fd = S.fields_of(sm, parent).get(s[1]) if s[1] != "__typename" else None
            if fd and fd["args"]:
                for an, a in fd["args"].items():
                    if "$" in s[4].get(an, ""):
                        continue  # replacing a variable would leave it unused
                    for j, var in enumerate(ARG_VARIANTS.get(a["type"], ())):
                        yield ("arg:%s:%s" % (a["type"], var[0]), pos, an, j)
        if kind in ("f", "i"):
            for tc in [None] + wrap_conditions(sm, parent, s):
                yield ("inline:%s" % _tc_class(sm, parent, tc), pos, tc)
            for style in ("1", "2", "twice", "inl-and-out"):
                for names in FRAG_NAMES[:2]:
                    yield ("frag:%s:%s" % (style, "multi" if len(names[0]) > 1 else "single"), pos, style, names)
            tcs = wrap_conditions(sm, parent, s)
            for tc in tcs:
                if tc != parent:
                    yield ("frag-on:%s" % _tc_class(sm, parent, tc), pos, tc)
        have = {d[0] for d in (s[3] if kind == "f" else s[2])}
        for dv in DIR_VARIANTS:
            if have & {d[0] for d in dv[1]}:
                continue  # a directive may appear once per location
            yield ("dir:%s:%s" % ({"f": "field", "i": "inline", "s": "spread"}[kind], dv[0]), pos, dv[0])
        if kind == "f":
            # directive on a wrapping inline fragment / on a wrapping spread (single step)
            for dv in DIR_VARIANTS[:6]:
                yield ("dir:wrap-inline:%s" % dv[0], pos, dv[0])
                yield ("dir:wrap-spread:%s" % dv[0], pos, dv[0])


def _tc_class(sm, parent, tc):
    if tc is None:
        return "none"
    if tc == parent:
        return "same"
    return S.kind_of(sm, tc)


def _add_var(op, vars_, spec):
    """declare a fresh variable on `op`; returns its name."""
    used = {v[0] for v in op["vars"]}
    name = _fresh(used, VAR_NAMES)
    op["vars"].append([name, spec[0], spec[1]])
    vars_[name] = list(spec[2])
    return name


def _subst(text, name):
    return text.replace("$V", "$" + name)


def apply(sm, case, dev):
    """apply one deviation descriptor to a case document -> new case document (deep copy)."""
    case = copy.deepcopy(case)
    doc, vars_ = case["doc"], case["vars"]
    nodes = typed_nodes(sm, doc)
    tag, pos = dev[0], dev[1]
    lst, i, parent = nodes[pos]
    s = lst[i]
    head = tag.split(":")[0]
    # variables are declared on every operation (each must use it... only single-op docs get
    # variable deviations; multi-op documents are built by callers after deviating)
    op = doc["ops"][0]

    def with_dirs(target_dirs, dvtag):
        dv = [d for d in DIR_VARIANTS if d[0] == dvtag][0]
        dirs = copy.deepcopy(dv[1])
        if dv[2] is not None:
            name = _add_var(op, vars_, dv[2])
            for d in dirs:
                d[1] = {k: _subst(v, name) for k, v in d[1].items()}
        target_dirs.extend(dirs)

    def new_frag(name, tc, children):
        doc["frags"].append([name, tc, [], children])

    used_frag = {f[0] for f in doc["frags"]}

    if head == "alias":
        s[2] = _fresh(_used_aliases(doc) | _all_field_names(sm), ALIASES)
    elif head == "dup":
        lst.insert(i + 1, copy.deepcopy(s))
    elif head == "dup-end":
        lst.append(copy.deepcopy(s))
    elif head in ("split", "split-rev", "split-overlap"):
        a, b = copy.deepcopy(s), copy.deepcopy(s)
        ch = s[5]
        if head == "split":
            a[5], b[5] = ch[:1], ch[1:]
        elif head == "split-rev":
            a[5], b[5] = ch[1:], ch[:1]
        else:
            a[5], b[5] = ch[:], ch[-1:] + ch[:-1]
        a[5], b[5] = copy.deepcopy(a[5]), copy.deepcopy(b[5])
        lst[i] = a
        lst.append(b)
    elif head == "typename-first":
        s[5].insert(0, F("__typename"))
    elif head == "typename-last":
        s[5].append(F("__typename"))
    elif head == "arg":
        an, j = dev[2], dev[3]
        fd = S.fields_of(sm, parent)[s[1]]
        var = ARG_VARIANTS[fd["args"][an]["type"]][j]
        text = var[1]
        if var[2] is not None:
            text = _subst(text, _add_var(op, vars_, var[2]))
        s[4] = dict(s[4])
        s[4][an] = text
    elif head == "inline":
        lst[i] = I(dev[2], [s])
    elif head == "frag-on":
        name = _fresh(used_frag, ["Cond", "K", "Cond2", "K2"])
        new_frag(name, dev[2], [s])
        lst[i] = SP(name)
    elif head == "frag":
        style, names = dev[2], dev[3]
        n1 = _fresh(used_frag, [names[0], names[0] + "x", names[0] + "y"])
        n2 = _fresh(used_frag | {n1}, [names[1], names[1] + "x", names[1] + "y"])
        if style == "1":
            new_frag(n1, parent, [s])
            lst[i] = SP(n1)
        elif style == "2":
            new_frag(n1, parent, [SP(n2)])
            new_frag(n2, parent, [s])
            lst[i] = SP(n1)
        elif style == "twice":
            new_frag(n1, parent, [s])
            lst[i] = SP(n1)
            lst.append(SP(n1))
        elif style == "inl-and-out":
            new_frag(n1, parent, [s])
            lst[i] = I(None, [SP(n1)])
            lst.append(SP(n1))
    elif head == "dir":
        where, dvtag = tag.split(":")[1], dev[2]
        if where == "wrap-inline":
            w = I(None, [s])
            lst[i] = w
            with_dirs(w[2], dvtag)
        elif where == "wrap-spread":
            n1 = _fresh(used_frag, ["D", "Dir", "Dx", "Dirx"])
            new_frag(n1, parent, [s])
            w = SP(n1)
            lst[i] = w
            with_dirs(w[2], dvtag)
        else:
            with_dirs(s[3] if s[0] == "f" else s[2], dvtag)
    else:
        raise ValueError(tag)
    case.setdefault("devs", []).append(_dev_tag(tag))
    return case


def _dev_tag(tag):
    return tag


@functools.lru_cache(maxsize=None)
def _all_field_names_cached(name):
    sm = S.SCHEMAS[name]
    out = set()
    for t in sm["types"].values():
        out |= set(t.get("fields", {}))
    return frozenset(out)


def _all_field_names(sm):
    if sm["name"] in S.SCHEMAS:
        return _all_field_names_cached(sm["name"])
    out = set()
    for t in sm["types"].values():
        out |= set(t.get("fields", {}))
    return out


# ---------------------------------------------------------------------------------------------
# one fragment spread under several parents, each parent merging something of its own (schema D)

SHARED_EXTRAS = [
    ("nothing", None),
    ("leaf", lambda: F("name")),
    ("same-key-other-subselection", lambda: F("owner", [F("age")])),
    ("same-key-same-subselection", lambda: F("owner", [F("name")])),
]


def shared_extra_options():
    """7 options per parent: nothing, or one of three extras before / after the spread"""
    out = [("nothing", None, None)]
    for tag, mk in SHARED_EXTRAS[1:]:
        for where in ("before", "after"):
            out.append((tag, where, mk))
    return out


def shared_fragment_parent_tuples(sm, tier):
    """(type condition, tuple of (root field, alias|None))"""
    q = S.fields_of(sm, sm["query"])
    out = []
    for tc in ("Dog", "Pet"):
        parents = [fn for fn, f in q.items() if fn != "animals" and S.overlap(sm, S.named_of(S.parse_type(f["type"])), tc)]
        for a in parents:
            for b in parents:
                if a != b:
                    out.append((tc, ((a, None), (b, None))))
        for a in ("first", "dogs", "pet"):
            out.append((tc, ((a, "p1"), (a, "p2"))))
    triples = [("first", "second", "dogs"), ("first", "pet", "cat"), ("dogs", "kennel", "pets")]
    if tier == "thorough":
        import itertools as _it

        triples = list(_it.permutations(("first", "dogs", "pet"), 3)) + triples
    for t in triples:
        out.append(("Pet", tuple((x, None) for x in t)))
    return out


def shared_fragment_docs(sm, tc, parents):
    """every assignment of the 7 extra options to the parents -> (tag, case)"""
    opts = shared_extra_options()
    for combo in itertools.product(range(len(opts)), repeat=len(parents)):
        sels = []
        tags = []
        for (fname, alias), k in zip(parents, combo):
            tag, where, mk = opts[k]
            body = [SP("Shared")]
            if mk is not None:
                if where == "before":
                    body.insert(0, mk())
                else:
                    body.append(mk())
            sels.append(F(fname, body, alias=alias))
            tags.append(tag if where is None else "%s-%s" % (tag, where))
        frag = ["Shared", tc, [], [F("name"), F("owner", [F("name")])]]
        yield "/".join(tags), {"doc": mkdoc(mkop(sels), [frag]), "vars": {}, "devs": ["shared-fragment"]}


def abstract_argument_docs():
    """(schema D) one `say` node executed against several runtime types whose definitions of `say`
    differ in argument defaults / optional arguments; lists of mixed concrete types"""
    docs = []

    def add(tag, sels, frags=None, vars_=None, choices=None):
        docs.append((tag, {"doc": mkdoc(mkop(sels, vars_=vars_), frags), "vars": choices or {}, "devs": ["abstract-args:" + tag]}))

    add("direct", [F("pets", [F("say")])])
    add("direct-typename", [F("pets", [F("__typename"), F("say")])])
    add("explicit-arg", [F("pets", [F("say", args={"w": "5"})])])
    add("null-arg", [F("pets", [F("say", args={"w": "null"})])])
    add("two-aliases", [F("pets", [F("say", alias="x"), F("say", alias="yy", args={"w": "7"})])])
    add("inline-on-interface", [F("pets", [I("Pet", [F("say")])])])
    add("named-fragment", [F("pets", [SP("Talk")])], [["Talk", "Pet", [], [F("say")]]])
    add("merged-with-object-fragment", [F("pets", [F("say"), I("Dog", [F("say")])])])
    add("union-through-interface", [F("animals", [I("Pet", [F("say")])])])
    add("union-fragment", [F("animals", [SP("Talk")])], [["Talk", "Pet", [], [F("say"), F("name")]]])
    add("variable-omitted-or-given", [F("pets", [F("say", args={"w": "$v"})])], None, [["v", "Int", None]], {"v": [OMIT, 9, None]})
    add("several-parents", [F("pet", [SP("Talk")]), F("cat", [SP("Talk")]), F("first", [SP("Talk")]), F("pets", [SP("Talk")])], [["Talk", "Pet", [], [F("say")]]])
    return docs


def operation_name_docs():
    """(schema A) documents for the operation_name axis: (tag, case, names to request)"""
    a = mkop([F("i")])
    named = mkop([F("i")], name="Abc")
    other = mkop([F("n")], name="Other")
    third = mkop([F("o", [F("s")])], name="Abcd")
    out = []
    names = [None, "Abc", "Nope", "Ab", "abc", "Abcd", "Other"]
    out.append(("single-anonymous", {"doc": mkdoc([copy.deepcopy(a)]), "vars": {}, "devs": ["operation-name"]}, names))
    out.append(("single-named", {"doc": mkdoc([copy.deepcopy(named)]), "vars": {}, "devs": ["operation-name"]}, names))
    out.append(("two-named", {"doc": mkdoc([copy.deepcopy(named), copy.deepcopy(other)]), "vars": {}, "devs": ["operation-name"]}, names))
    out.append(("three-named-prefixes", {"doc": mkdoc([copy.deepcopy(third), copy.deepcopy(named), copy.deepcopy(other)]), "vars": {}, "devs": ["operation-name"]}, names))
    return out


def assignments(vars_):
    """every combination of the per-variable choices -> list of dicts (OMIT dropped)."""
    names = list(vars_)
    out = []
    for combo in itertools.product(*[vars_[n] for n in names]):
        out.append({n: v for n, v in zip(names, combo) if v != OMIT})
    return out


def count_nodes(doc):
    n = 0

    def rec(lst):
        nonlocal n
        for s in lst:
            n += 1
            c = children_of(s)
            if c:
                rec(c)

    for op in doc["ops"]:
        rec(op["sels"])
    for fr in doc["frags"]:
        rec(fr[3])
    return n
