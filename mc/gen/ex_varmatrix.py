# -*- coding: utf-8 -*-
"""
The wrapper matrix for variable usages (C06): variable type x position type over
{T, T!, [T], [T]!, [T!], [T!]!, [[T]], [[T!]!]}, with and without a variable default, with and
without a default at the position, for a scalar, an enum and an input object T at argument level, and
(scalar T) inside a list literal, inside an input-object field and in a directive argument.

The expected verdict is computed here from the specification's IsVariableUsageAllowed /
AreTypesCompatible (June 2018, 5.8.5) over the type expressions of mc.gen.ex_schemas -- no py_gql code.
"""
from . import ex_schemas as S
from . import operations as O
from .worlds import OMIT


def are_types_compatible(var, loc):
    if loc[0] == "nn":
        if var[0] != "nn":
            return False
        return are_types_compatible(var[1], loc[1])
    if var[0] == "nn":
        return are_types_compatible(var[1], loc)
    if loc[0] == "list":
        if var[0] != "list":
            return False
        return are_types_compatible(var[1], loc[1])
    if var[0] == "list":
        return False
    return var == loc


def is_variable_usage_allowed(var, has_nonnull_var_default, loc, has_location_default):
    if loc[0] == "nn" and var[0] != "nn":
        if not has_nonnull_var_default and not has_location_default:
            return False
        return are_types_compatible(var, loc[1])
    return are_types_compatible(var, loc)


def _case(sels, vtype, vdefault):
    doc = O.mkdoc(O.mkop(sels, vars_=[["v", vtype, vdefault]]))
    return {"doc": doc, "vars": {"v": [OMIT]}}


def matrix(placement):
    """yield (tag, expected_valid, case) for one placement"""
    W = S.WRAPPERS
    if placement == "argument":
        for kind, base in S.W_BASES.items():
            for vi, vw in enumerate(W):
                for pi, pw in enumerate(W):
                    for vd in (False, True):
                        for pd in (False, True):
                            vt, pt = S.parse_type(S.w_type(vw, base)), S.parse_type(S.w_type(pw, base))
                            ok = is_variable_usage_allowed(vt, vd, pt, pd)
                            fname = ("%s_d%d" if pd else "%s_a%d") % (kind, pi)
                            c = _case([O.F(fname, args={"x": "$v"})], S.w_type(vw, base), S.w_literal(vw, base) if vd else None)
                            yield "var-matrix:argument:%s:var=%s:pos=%s:vardefault=%d:posdefault=%d" % (kind, vw, pw, vd, pd), ok, c
        return
    base = "Int"
    if placement == "list-item":
        # an ITEM of a list never has a location default, whether or not the argument has one
        for vi, vw in enumerate(W):
            for pi, pw in enumerate(W):
                pt = S.parse_type(S.w_type(pw, base))
                inner = pt[1] if pt[0] == "nn" else pt
                if inner[0] != "list":
                    continue
                item = inner[1]
                for vd in (False, True):
                    for ad in (False, True):
                        vt = S.parse_type(S.w_type(vw, base))
                        ok = is_variable_usage_allowed(vt, vd, item, False)
                        fname = ("scalar_d%d" if ad else "scalar_a%d") % pi
                        c = _case([O.F(fname, args={"x": "[$v]"})], S.w_type(vw, base), S.w_literal(vw, base) if vd else None)
                        yield "var-matrix:list-item:scalar:var=%s:pos=%s:vardefault=%d:argdefault=%d" % (vw, pw, vd, ad), ok, c
        return
    if placement in ("input-field", "field-in-list"):
        # an input FIELD has a location default iff the field declares one; the argument's default is irrelevant
        prefix = "obj" if placement == "input-field" else "lst"
        for vi, vw in enumerate(W):
            for pi, pw in enumerate(W):
                for vd in (False, True):
                    for fd in (False, True):
                        for ad in (False, True):
                            vt, pt = S.parse_type(S.w_type(vw, base)), S.parse_type(S.w_type(pw, base))
                            ok = is_variable_usage_allowed(vt, vd, pt, fd)
                            fname = "%s%s_%s%d" % (prefix, "x" if ad else "", "d" if fd else "a", pi)
                            text = "{f: $v}" if placement == "input-field" else "[{f: $v}]"
                            c = _case([O.F(fname, args={"x": text})], S.w_type(vw, base), S.w_literal(vw, base) if vd else None)
                            yield "var-matrix:%s:scalar:var=%s:pos=%s:vardefault=%d:fielddefault=%d:argdefault=%d" % (placement, vw, pw, vd, fd, ad), ok, c
        return
    if placement == "list-in-field":
        # an item of a list that is the value of an input field: no location default, whatever the
        # field's and the argument's defaults
        for vi, vw in enumerate(W):
            for pi, pw in enumerate(W):
                pt = S.parse_type(S.w_type(pw, base))
                inner = pt[1] if pt[0] == "nn" else pt
                if inner[0] != "list":
                    continue
                item = inner[1]
                for vd in (False, True):
                    for fd in (False, True):
                        for ad in (False, True):
                            vt = S.parse_type(S.w_type(vw, base))
                            ok = is_variable_usage_allowed(vt, vd, item, False)
                            fname = "obj%s_%s%d" % ("x" if ad else "", "d" if fd else "a", pi)
                            c = _case([O.F(fname, args={"x": "{f: [$v]}"})], S.w_type(vw, base), S.w_literal(vw, base) if vd else None)
                            yield "var-matrix:list-in-field:scalar:var=%s:pos=%s:vardefault=%d:fielddefault=%d:argdefault=%d" % (vw, pw, vd, fd, ad), ok, c
        return
    if placement == "directive":
        for vi, vw in enumerate(W):
            for pi, pw in enumerate(W):
                for vd in (False, True):
                    for pd in (False, True):
                        vt, pt = S.parse_type(S.w_type(vw, base)), S.parse_type(S.w_type(pw, base))
                        ok = is_variable_usage_allowed(vt, vd, pt, pd)
                        dname = ("wd%d" if pd else "w%d") % pi
                        c = _case([O.F("plain", dirs=[[dname, {"x": "$v"}]])], S.w_type(vw, base), S.w_literal(vw, base) if vd else None)
                        yield "var-matrix:directive:scalar:var=%s:pos=%s:vardefault=%d:posdefault=%d" % (vw, pw, vd, pd), ok, c
        return
    raise ValueError(placement)


PLACEMENTS = ["argument", "list-item", "input-field", "list-in-field", "field-in-list", "directive"]


def selftest():
    P = S.parse_type
    # the specification's examples (5.8.5)
    assert not is_variable_usage_allowed(P("Int"), False, P("Int!"), False)
    assert is_variable_usage_allowed(P("Int!"), False, P("Int"), False)
    assert is_variable_usage_allowed(P("[Int!]!"), False, P("[Int]"), False)   # [T!]! -> [T]
    assert not is_variable_usage_allowed(P("[Int]"), False, P("[Int!]"), False)
    assert is_variable_usage_allowed(P("Int"), True, P("Int!"), False)          # non-null variable default
    assert is_variable_usage_allowed(P("Int"), False, P("Int!"), True)          # location default
    assert not is_variable_usage_allowed(P("Int!"), False, P("[Int]"), False)
    assert not is_variable_usage_allowed(P("[Int!]"), False, P("[[Int]]"), False)
    assert is_variable_usage_allowed(P("[[Int!]!]"), False, P("[[Int]]"), False)
    n = sum(1 for p in PLACEMENTS for _ in matrix(p))
    assert n == 768 + 192 + 512 + 384 + 512 + 256, n
