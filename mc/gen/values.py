# -*- coding: utf-8 -*-
"""
Input types, value alphabets and literal rendering for C07 (and the variable payloads of C10).
Plain data only -- nothing here imports py_gql.

Shapes: a string over {N, L} applied inner to outer: "" = T, "N" = T!, "L" = [T], "LN" = [T]!,
"NL" = [T!], "NLN" = [T!]!, ... (no "NN").
"""
import itertools
import json
import re

BASES = ("Int", "Float", "String", "Boolean", "ID", "E", "Hex", "In")


def shapes(depth):
    out = []
    for n in range(depth + 1):
        for s in itertools.product("NL", repeat=n):
            s = "".join(s)
            if "NN" not in s:
                out.append(s)
    return out


def mk_type(base, shape):
    t = base
    for c in shape:
        t = ["nn", t] if c == "N" else ["list", t]
    return t


def list_depth(shape):
    return shape.count("L")


# ------------------------------------------------------------------------------------------
# the type model shared by the reference and by the py_gql schema built in the check


def hex_parse(v):
    """custom scalar Hex: a hexadecimal *string* -> int (internal value differs from the input)."""
    if not isinstance(v, str):
        raise TypeError("Hex wants a string")
    if not re.match(r"^[0-9a-fA-F]+$", v):
        raise ValueError("not hexadecimal: %r" % (v,))
    return int(v, 16)


def hex_conforms(v):
    return isinstance(v, int) and not isinstance(v, bool) and v >= 0


ENUM_VALUES = [["A", 10], ["B", "bee"]]


def _f(name, t, python_name=None, **kw):
    d = {"name": name, "type": t, "has_default": "default" in kw, "default": kw.get("default"), "python_name": python_name or name}
    return d


IN_FIELDS = [
    _f("a", "Int", "py_a", default=1),
    _f("b", ["nn", "String"], "py_b"),
    _f("c", ["list", "Int"]),
    _f("e", "E", "py_e", default=10),  # E = A
    _f("self", "In", "py_self"),
]


def model(extra=None):
    m = {
        "Int": {"kind": "scalar"},
        "Float": {"kind": "scalar"},
        "String": {"kind": "scalar"},
        "Boolean": {"kind": "scalar"},
        "ID": {"kind": "scalar"},
        "E": {"kind": "enum", "values": ENUM_VALUES},
        "Hex": {"kind": "scalar", "parse": hex_parse, "conforms": hex_conforms, "literal_kinds": ("str",)},
        "In": {"kind": "input", "fields": IN_FIELDS},
    }
    if extra:
        m.update(extra)
    return m


# ------------------------------------------------------------------------------------------
# value alphabets (JSON values).  See DESIGN 4.1: natural values, 32-bit boundaries, integral and
# non-integral floats, numeric strings, booleans, null and one value of every other JSON kind.

I31 = 2 ** 31
OBJ = {"k": 1}

ALPHABET = {
    "Int": [0, 1, -1, I31 - 1, -(I31 - 1), -I31, I31, -I31 - 1, I31 + 1, 1.0, 1.5, float(I31 - 1), float(I31), 1e30, "1", "1.5", "abc", "", True, False, None, OBJ],
    "Float": [0, 1, -1, 1.5, -0.5, 1e30, I31, "1.5", "abc", "", True, None, OBJ],
    "String": ["", "abc", "é\U0001F600 \"q\" \\ \n", "1", "A", 1, 1.5, True, None, OBJ],
    "Boolean": [True, False, 0, 1, 1.5, "true", "false", "", None, {}, OBJ],
    "ID": ["abc", "", "1", 1, 0, -1, I31, 1.5, 1.0, True, None, OBJ],
    "E": ["A", "B", "C", "a", "bee", "", 10, 1, True, None, OBJ],
    "Hex": ["ff", "0", "zz", "", 255, 1.5, True, None, OBJ],
}

GOOD = {"Int": 3, "Float": 2.5, "String": "s", "Boolean": True, "ID": "id1", "E": "B", "Hex": "a0"}

FULL_SELF = {"a": 2, "b": "y", "c": [4], "e": "A", "self": None}
FULL_IN = {"a": 5, "b": "x", "c": [1, 2], "e": "B", "self": FULL_SELF}
GOOD["In"] = FULL_IN

NAT_FIELD = {"a": 5, "b": "x", "c": [1, 2], "e": "B", "self": {"b": "y"}}


def kind_of(v, base=None):
    """
    Label of a leaf value for class keys: the JSON kind, refined only where the base type's rules
    draw a line (32-bit range and integral floats for Int/ID, numeric / empty strings for Int/Float).
    """
    if v is None:
        return "null"
    if isinstance(v, bool):
        return "bool"
    if isinstance(v, int):
        if base in ("Int", None):
            if v in (I31 - 1, -I31):
                return "int32-edge"
            if v >= I31 or v < -I31:
                return "int-over32"
        return "int"
    if isinstance(v, float):
        if v == int(v) and base in ("Int", "ID", None):
            return "float-integral"
        return "float"
    if isinstance(v, str):
        if base in ("Int", "Float", None):
            if re.match(r"^-?[0-9]+(\.[0-9]+)?$", v):
                return "str-numeric"
            if v == "":
                return "str-empty"
        return "str"
    if isinstance(v, list):
        return "list"
    if isinstance(v, dict):
        return "object"
    return type(v).__name__


def in_leaves(tier):
    """
    Leaf values for base In: [focus_base, focus_kind, json].  focus names the one thing that departs
    from the fully-provided object (used for the class key).
    """
    out = []
    names = ["a", "b", "c", "e", "self"]
    # 1. provided / omitted / explicit null for every field (3^k)
    if tier == "thorough":
        varied = [names]
    else:
        varied = [["a", "b", "e"], ["b", "c", "self"]]
    seen = set()
    for vs in varied:
        for combo in itertools.product((0, 1, 2), repeat=len(vs)):  # 0 provided, 1 omitted, 2 null
            o = {}
            if "b" not in vs:
                o["b"] = "x"
            for n, c in zip(vs, combo):
                if c == 0:
                    o[n] = NAT_FIELD[n]
                elif c == 2:
                    o[n] = None
            key = json.dumps(o, sort_keys=True)
            if key in seen:
                continue
            seen.add(key)
            out.append(["In", "presence", o])
    # 1b. every presence pattern again with 1..3 UNDECLARED keys (as many unknown keys as omitted fields, fewer, more)
    for _b, _k, o in list(out):
        if o.get("b") is None:
            continue  # (the required field must be there, or the object is refused for that reason already)
        for k in (1, 2, 3):
            o2 = dict(o)
            for extra in ("zz", "zy", "zx")[:k]:
                o2[extra] = 1
            out.append(["In", "unknown-field", o2])
    # 2. one field departs from the fully provided object, with every value of its alphabet
    for n, base in (("a", "Int"), ("b", "String"), ("e", "E")):
        for v in ALPHABET[base]:
            o = dict(FULL_IN)
            o[n] = v
            out.append([base, kind_of(v, base), o])
    for v in ALPHABET["Int"]:
        for wrap in ((0, 1, 2) if tier == "thorough" else (1,)):
            o = dict(FULL_IN)
            o["c"] = v if wrap == 0 else [v] if wrap == 1 else [[v]]
            out.append(["Int", kind_of(v, "Int") if wrap < 2 else "list", o])
    for fb, fk, v in [
        ["In", "presence", {"b": "y"}],
        ["In", "missing-required", {}],
        ["In", "missing-required", {"a": 1}],
        ["Int", "int32-edge", {"b": "y", "a": I31 - 1, "e": "A"}],
        ["In", "unknown-field", {"b": "y", "zz": 1, "a": 1, "e": "A"}],
        ["In", "int", 1],
        ["In", "str", "s"],
        ["In", "list", [dict(FULL_SELF)]],
        ["In", "presence", {"b": "y", "self": {"b": "z", "self": {"b": "w"}}}],
    ]:
        o = dict(FULL_IN)
        o["self"] = v
        out.append([fb, fk, o])
    # 3. unknown field, wrong kinds for the object itself
    o = dict(FULL_IN)
    o["zz"] = 1
    out.append(["In", "unknown-field", o])
    out.append(["In", "unknown-field", {"b": "x", "py_a": 1}])
    for v in (1, 1.5, "s", "", True, None, [], {}):
        out.append(["In", kind_of(v, "In") if v != {} else "missing-required", v])
    return out


def leaves(base, tier):
    """[focus_base, focus_kind, json value] for a base type."""
    if base == "In":
        return in_leaves(tier)
    return [[base, kind_of(v, base), v] for v in ALPHABET[base]]


# ------------------------------------------------------------------------------------------
# contexts: where in the list structure of the type the leaf is put


def contexts(shape, tier, base):
    k = list_depth(shape)
    out = [["nest", j] for j in range(0, k + 2)]
    if k:
        if tier == "thorough" or base != "In":
            for j in range(1, k + 1):
                out.append(["nullsib", j])
                out.append(["goodsib", j])
        else:
            out.append(["nullsib", k])
    return out


def build_value(ctx, leaf, good):
    kind, j = ctx
    if kind == "nest":
        v = leaf
        for _ in range(j):
            v = [v]
        return v
    inner = [leaf, None] if kind == "nullsib" else [good, leaf]
    v = inner
    for _ in range(j - 1):
        v = [v]
    return v


# ------------------------------------------------------------------------------------------
# literal trees and their GraphQL text

NAME_RE = re.compile(r"^[_A-Za-z][_0-9A-Za-z]*$")


def natural_tree(v, t, model_):
    """
    The literal a client would write for JSON value ``v`` at a position of type ``t``: by JSON kind,
    except that a string that is a Name is written as an enum literal where the (named) type of the
    position is an enum.
    """
    from mc.ref.coerce import is_list, named, nullable

    if v is None:
        return ["null"]
    if isinstance(v, bool):
        return ["bool", v]
    if isinstance(v, int):
        return ["int", str(v)]
    if isinstance(v, float):
        return ["float", repr(v)]
    if isinstance(v, str):
        d = model_.get(named(t)) if t is not None else None
        if d is not None and d["kind"] == "enum" and NAME_RE.match(v) and v not in ("true", "false", "null"):
            return ["enum", v]
        return ["str", v]
    if isinstance(v, list):
        it = None
        if t is not None:
            tt = nullable(t)
            it = tt[1] if is_list(tt) else t
        return ["list", [natural_tree(x, it, model_) for x in v]]
    if isinstance(v, dict):
        d = model_.get(named(t)) if t is not None else None
        ft = {}
        if d is not None and d["kind"] == "input":
            ft = {f["name"]: f["type"] for f in d["fields"]}
        return ["obj", [[k, natural_tree(x, ft.get(k), model_)] for k, x in v.items()]]
    raise TypeError(v)


def render_tree(tree):
    k = tree[0]
    if k == "null":
        return "null"
    if k in ("int", "float", "enum"):
        return tree[1]
    if k == "bool":
        return "true" if tree[1] else "false"
    if k == "str":
        return json.dumps(tree[1], ensure_ascii=False)
    if k == "var":
        return "$" + tree[1]
    if k == "list":
        return "[" + ", ".join(render_tree(x) for x in tree[1]) + "]"
    if k == "obj":
        return "{" + ", ".join("%s: %s" % (n, render_tree(x)) for n, x in tree[1]) + "}"
    raise ValueError(tree)


def tree_is_renderable(tree):
    """object field names must be Names (a JSON key such as "" cannot be written as a literal)."""
    k = tree[0]
    if k == "list":
        return all(tree_is_renderable(x) for x in tree[1])
    if k == "obj":
        return all(NAME_RE.match(n) and tree_is_renderable(x) for n, x in tree[1])
    if k == "enum":
        return bool(NAME_RE.match(tree[1]))
    return True


# literal-only leaves: things JSON cannot say.  [focus_kind, tree]
LITERAL_ONLY = {
    "Int": [["enum-literal", ["enum", "A"]]],
    "Float": [["enum-literal", ["enum", "A"]]],
    "String": [["enum-literal", ["enum", "A"]], ["block-string", ["str", "blk"]]],
    "Boolean": [["enum-literal", ["enum", "A"]], ["enum-literal", ["enum", "TRUE"]]],
    "ID": [["enum-literal", ["enum", "A"]]],
    "E": [["str-enum-name", ["str", "A"]], ["enum-unknown", ["enum", "Z"]], ["enum-literal", ["enum", "B"]]],
    "Hex": [["enum-literal", ["enum", "ff"]], ["int", ["int", "10"]]],
    "In": [
        ["str-enum-name", ["obj", [["b", ["str", "x"]], ["e", ["str", "A"]]]]],
        ["enum-literal", ["obj", [["b", ["enum", "x"]]]]],
        ["duplicate-field", ["obj", [["b", ["str", "x"]], ["b", ["str", "y"]]]]],
    ],
}
