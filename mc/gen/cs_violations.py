# -*- coding: utf-8 -*-
"""
cs_violations -- labelled type-system rule violations for C13, injected into a valid schema model.

    vbase()                      the base model (valid; every kind, wrappers on interface fields)
    violations(sm)               deterministic list of violation descriptors, at EVERY position
    apply_violation(sm, v)       edited deep copy (None if not applicable any more)
    expect(v)                    substrings that ONE error message must all contain to count as
                                 "an error naming the injected element"
    valid_variants(sm)           edits that must keep the schema valid (covariant implementations,
                                 extra optional arguments, ...)
    resolver_cases()             (field model, resolver signature) with the verdict decided by an
                                 independent oracle: inspect.Signature.bind over every call shape
                                 the executor can produce
"""
import copy
import inspect
import itertools

from mc.gen.cs_edits import get_pos, positions
from mc.ref import cs_model as M
from mc.ref.cs_model import A, F, T, V

BAD_NAMES = {"dunder": "__x", "digit": "1x", "dash": "a-b", "empty": ""}
# names outside the ASCII name alphabet /[_A-Za-z][_0-9A-Za-z]*/ that Python's str / re predicates
# (\w, isalnum, isidentifier) take for word characters, in first and in later position; and a name
# followed by a line terminator ("$" matches before a trailing newline)
BAD_NAMES_UNICODE = {
    "latin1-later": "caf\u00e9",
    "latin1-first": "\u00e9cole",
    "fullwidth-digit-later": "x\uff11",
    "superscript-later": "total\u00b2",
    "diaeresis-inside": "na\u00efve_id",
    "greek-first": "\u03b1b",
    "greek-later": "b\u03b1",
    "astral-letter-later": "a\U0001d4b3",
    "astral-letter-first": "\U0001d4b3a",
    "trailing-newline": "ab\n",
}
BAD_NAMES.update(BAD_NAMES_UNICODE)
PAIRABLE_BAD = ("dunder", "digit", "dash", "empty", "latin1-later")


def _rel():
    return F("rel", "[Node!]", [A("first", "Int"), A("tags", "[String!]")])


def vbase():
    return {
        "types": [
            T("interface", "Node", fields=[F("id", "ID!"), _rel()]),
            T(
                "object",
                "Query",
                interfaces=["Node"],
                fields=[F("id", "ID!"), _rel(), F("any", "Any"), F("e", "Kind", [A("k", "Kind", "A")]), F("f", "Int", [A("inp", "In")]), F("sc", "Sc")],
            ),
            T("object", "Obj", interfaces=["Node"], fields=[F("id", "ID!"), _rel(), F("n", "Int")]),
            T("union", "Any", members=["Obj", "Query"]),
            T("enum", "Kind", values=[V("A"), V("B")]),
            T("input", "In", fields=[A("a", "Int", 1), A("k", "Kind"), A("sub", "In2")]),
            T("input", "In2", fields=[A("z", "[Int!]!")]),
            T("scalar", "Sc"),
            T("object", "Mut", fields=[F("m", "Int", [A("v", "In")])]),
            # container elements WITHOUT children of the other kinds (fast paths / early exits must not skip
            # their rules): an interface nobody implements, an enum with one value, a union with one member, an
            # object with one argument-less field implementing nothing, an input object with one field (In2)
            T("interface", "Alone", fields=[F("solo", "Int")]),
            T("enum", "One", values=[V("ONLY")]),
            T("union", "Solo", members=["Mut"]),
            T("object", "Leaf", fields=[F("only", "Int")]),
        ],
        # argument-less directives first and last, one with arguments in between
        "directives": [
            {"name": "first_flag", "locations": ["FIELD"], "args": []},
            {"name": "dir", "locations": ["FIELD"], "args": [A("x", "Int"), A("i", "In")]},
            {"name": "last_flag", "locations": ["QUERY", "FIELD"], "args": []},
        ],
        "roots": {"query": "Query", "mutation": "Mut", "subscription": None},
    }


# ------------------------------------------------------------------------------------------


def _rename_type(sm, old, new):
    for t in sm["types"]:
        if t["name"] == old:
            t["name"] = new
        for f in t.get("fields") or ():
            if M.named(f["type"]) == old:
                f["type"] = M.rewrap(f["type"], new)
            for a in f.get("args") or ():
                if M.named(a["type"]) == old:
                    a["type"] = M.rewrap(a["type"], new)
        if "interfaces" in t:
            t["interfaces"] = [new if i == old else i for i in t["interfaces"]]
        if "members" in t:
            t["members"] = [new if i == old else i for i in t["members"]]
    for d in sm.get("directives") or ():
        for a in d.get("args") or ():
            if M.named(a["type"]) == old:
                a["type"] = M.rewrap(a["type"], new)
    roots = sm.get("roots") or {}
    for op in roots:
        if roots[op] == old:
            roots[op] = new


def loosenings(texpr):
    """object-side types that are NOT subtypes of interface-side ``texpr``: drop a non-null at any
    depth, or change the list structure."""
    t = M.parse_type(texpr)
    out = []

    def rec(t):
        res = []
        if t[0] == "nn":
            res.append(t[1])
            for v in rec(t[1]):
                if v[0] != "nn":
                    res.append(("nn", v))
        elif t[0] == "l":
            for v in rec(t[1]):
                res.append(("l", v))
        return res

    for v in rec(t):
        out.append(M.type_str(v))
    out.append("[%s]" % texpr if not texpr.endswith("!") else "[%s]!" % texpr[:-1])  # one more list level
    if t[0] == "l":
        out.append(M.type_str(t[1][1] if t[1][0] == "nn" else t[1]))  # one list level less
    if t[0] == "nn" and t[1][0] == "l":
        inner = t[1][1]
        out.append(M.type_str(("nn", inner[1] if inner[0] == "nn" else inner)))
    seen, res = {texpr}, []
    for s in out:
        if s not in seen:
            seen.add(s)
            res.append(s)
    return res


def tightenings(texpr):
    """object-side types that ARE proper subtypes by nullability: add a non-null at any depth."""
    t = M.parse_type(texpr)

    def rec(t, already=False):
        res = []
        if t[0] == "nn":
            for v in rec(t[1], True):
                res.append(("nn", v))
            return res
        if not already:
            res.append(("nn", t))
        if t[0] == "l":
            for v in rec(t[1]):
                res.append(("l", v))
        return res

    return [M.type_str(v) for v in rec(t)]


def violations(sm):
    out = []
    kinds = {t["name"]: t["kind"] for t in sm["types"]}
    non_objects = [t["name"] for t in sm["types"] if t["kind"] != "object"]
    outputs_only = [t["name"] for t in sm["types"] if t["kind"] in ("object", "interface", "union")]
    inputs_only = [t["name"] for t in sm["types"] if t["kind"] == "input"]
    pick = {}
    for n in outputs_only:
        pick.setdefault(kinds[n], n)
    output_reps = list(pick.values())  # one object, one interface, one union
    input_rep = inputs_only[:1]

    # A. names (the non-ASCII alphabet is appended at the end of the list, see H)
    for bk in BAD_NAMES:
        if bk in BAD_NAMES_UNICODE:
            continue
        for t in sm["types"]:
            out.append({"op": "bad-name", "target": "type", "kind": t["kind"], "at": ["type", t["name"]], "bad": bk})
        for pos in positions(sm, ("field", "arg", "input-field", "directive-arg", "enum-value")):
            out.append({"op": "bad-name", "target": pos[0], "at": pos, "bad": bk})
        for d in sm.get("directives") or ():
            out.append({"op": "bad-name", "target": "directive", "at": ["directive", d["name"]], "bad": bk})
    # B. empty types
    for t in sm["types"]:
        if t["kind"] in ("object", "interface", "union", "enum", "input"):
            out.append({"op": "empty", "target": t["kind"], "at": ["type", t["name"]]})
    # C. duplicates
    for pos in positions(sm, ("field", "arg", "input-field", "directive-arg")):
        out.append({"op": "duplicate", "target": pos[0], "at": pos})
    for t in sm["types"]:
        if t["kind"] == "union":
            for m in t["members"]:
                out.append({"op": "duplicate", "target": "union-member", "at": ["member", t["name"], m]})
        if t["kind"] == "object":
            for i in t.get("interfaces") or ():
                out.append({"op": "duplicate", "target": "interface", "at": ["implements", t["name"], i]})
    # D. input / output positions
    for w in ("T", "[T!]!"):
        for pos in positions(sm, ("arg", "input-field", "directive-arg")):
            for n in output_reps:
                out.append({"op": "output-in-input", "target": pos[0], "at": pos, "to": M.apply_wrapper(w, n), "of": kinds[n], "wrapped": w != "T"})
        for pos in positions(sm, ("field",)):
            for n in input_rep:
                out.append({"op": "input-in-output", "target": "field", "at": pos, "to": M.apply_wrapper(w, n), "wrapped": w != "T"})
    # E. interface implementation
    for o in sm["types"]:
        if o["kind"] != "object":
            continue
        for iname in o.get("interfaces") or ():
            it = M.get_type(sm, iname)
            for f in it["fields"]:
                at = ["impl", o["name"], iname, f["name"]]
                out.append({"op": "iface-missing-field", "at": at})
                n = M.named(f["type"])
                other = "String" if n != "String" else "Int"
                if kinds.get(n) in ("object", "interface", "union"):
                    other = [x for x in outputs_only if x != n and not _is_sub(sm, x, n)][0]
                out.append({"op": "iface-wrong-type", "at": at, "to": M.rewrap(f["type"], other)})
                for lo in loosenings(f["type"]):
                    out.append({"op": "iface-not-covariant", "at": at, "to": lo})
                for a in f.get("args") or ():
                    out.append({"op": "iface-missing-arg", "at": at, "arg": a["name"]})
                    an = M.named(a["type"])
                    alts = [M.rewrap(a["type"], "String" if an != "String" else "Int")]
                    alts += [x for x in (loosenings(a["type"])[:2] + tightenings(a["type"])[:2])]
                    for alt in alts:
                        out.append({"op": "iface-retyped-arg", "at": at, "arg": a["name"], "to": alt})
                out.append({"op": "iface-extra-required-arg", "at": at})
    # F. union members
    for t in sm["types"]:
        if t["kind"] == "union":
            for n in non_objects:
                if n != t["name"]:
                    out.append({"op": "union-non-object-member", "at": ["member", t["name"], n], "of": kinds[n]})
            # the non-object type as the ONLY member (single-member fast paths)
            for n in non_objects:
                if n != t["name"]:
                    out.append({"op": "union-non-object-member", "at": ["member", t["name"], n], "of": kinds[n], "sole": True})
    # G. roots
    for op in ("query", "mutation", "subscription"):
        for n in non_objects:
            out.append({"op": "root-non-object", "at": ["root", op], "to": n, "of": kinds[n]})
    out.append({"op": "root-missing-query", "at": ["root", "query"]})
    # H. names outside the ASCII alphabet, every element kind, every position
    for bk in BAD_NAMES_UNICODE:
        for t in sm["types"]:
            out.append({"op": "bad-name", "target": "type", "kind": t["kind"], "at": ["type", t["name"]], "bad": bk})
        for pos in positions(sm, ("field", "arg", "input-field", "directive-arg", "enum-value")):
            out.append({"op": "bad-name", "target": pos[0], "at": pos, "bad": bk})
        for d in sm.get("directives") or ():
            out.append({"op": "bad-name", "target": "directive", "at": ["directive", d["name"]], "bad": bk})
    return out


def pairable(v):
    """violations used in the pair enumeration (thorough): everything but the wider name alphabet."""
    return not (v["op"] == "bad-name" and v["bad"] not in PAIRABLE_BAD)


def _is_sub(sm, name, sup):
    t = M.get_type(sm, name)
    s = M.get_type(sm, sup)
    if not t or not s:
        return False
    if s["kind"] == "interface":
        return t["kind"] == "object" and sup in (t.get("interfaces") or ())
    if s["kind"] == "union":
        return name in (s.get("members") or ())
    return False


def label(v):
    op = v["op"]
    if op == "bad-name":
        if v["bad"] == "trailing-newline":
            return "bad-name:trailing-newline"  # its own root cause ("$" in the name pattern), whatever the element kind
        return "bad-name:%s" % v["target"]
    if op in ("empty", "duplicate"):
        return "%s:%s" % (op, v["target"])
    if op == "output-in-input":
        return "output-in-input:%s:%s" % (v["target"], "wrapped" if v["wrapped"] else "bare")
    if op == "input-in-output":
        return "input-in-output:%s" % ("wrapped" if v["wrapped"] else "bare")
    if op in ("union-non-object-member", "root-non-object"):
        return "%s:%s" % (op, v["of"])
    return op


def apply_violation(sm, v):
    sm = copy.deepcopy(sm)
    op = v["op"]
    at = v["at"]
    if op == "bad-name":
        bad = BAD_NAMES[v["bad"]]
        if at[0] == "type":
            if M.get_type(sm, at[1]) is None:
                return None
            _rename_type(sm, at[1], bad)
        elif at[0] == "directive":
            ds = [d for d in sm["directives"] if d["name"] == at[1]]
            if not ds:
                return None
            ds[0]["name"] = bad
        else:
            p = get_pos(sm, at)
            if p is None:
                return None
            p["name"] = bad
        return sm
    if op == "empty":
        t = M.get_type(sm, at[1])
        if t is None:
            return None
        for key in ("fields", "members", "values"):
            if key in t:
                t[key] = []
        return sm
    if op == "duplicate":
        if at[0] == "member":
            t = M.get_type(sm, at[1])
            if t is None or at[2] not in t.get("members", ()):
                return None
            t["members"].append(at[2])
            return sm
        if at[0] == "implements":
            t = M.get_type(sm, at[1])
            if t is None or at[2] not in t.get("interfaces", ()):
                return None
            t["interfaces"].append(at[2])
            return sm
        p = get_pos(sm, at)
        if p is None:
            return None
        if at[0] == "field":
            M.get_type(sm, at[1])["fields"].append(copy.deepcopy(p))
        elif at[0] == "arg":
            get_pos(sm, ["field", at[1], at[2]])["args"].append(copy.deepcopy(p))
        elif at[0] == "input-field":
            M.get_type(sm, at[1])["fields"].append(copy.deepcopy(p))
        elif at[0] == "directive-arg":
            [d for d in sm["directives"] if d["name"] == at[1]][0]["args"].append(copy.deepcopy(p))
        return sm
    if op in ("output-in-input", "input-in-output"):
        p = get_pos(sm, at)
        if p is None:
            return None
        p["type"] = v["to"]
        p.pop("default", None)
        return sm
    if op.startswith("iface-"):
        _, oname, iname, fname = at
        o = M.get_type(sm, oname)
        if o is None or iname not in (o.get("interfaces") or ()):
            return None
        f = get_pos(sm, ["field", oname, fname])
        if f is None:
            return None
        if op == "iface-missing-field":
            o["fields"] = [x for x in o["fields"] if x["name"] != fname]
            if not o["fields"]:
                o["fields"] = [F("filler", "Int")]
        elif op in ("iface-wrong-type", "iface-not-covariant"):
            f["type"] = v["to"]
        elif op == "iface-missing-arg":
            n = len(f["args"])
            f["args"] = [a for a in f["args"] if a["name"] != v["arg"]]
            if len(f["args"]) == n:
                return None
        elif op == "iface-retyped-arg":
            a = [a for a in f["args"] if a["name"] == v["arg"]]
            if not a or a[0]["type"] == v["to"]:
                return None
            a[0]["type"] = v["to"]
            a[0].pop("default", None)
        elif op == "iface-extra-required-arg":
            f.setdefault("args", []).append(A("extra", "Int!"))
        return sm
    if op == "union-non-object-member":
        t = M.get_type(sm, at[1])
        if t is None or M.get_type(sm, at[2]) is None:
            return None
        if v.get("sole"):
            t["members"] = [at[2]]
        else:
            t["members"].append(at[2])
        return sm
    if op == "root-non-object":
        if M.get_type(sm, v["to"]) is None:
            return None
        sm["roots"][at[1]] = v["to"]
        return sm
    if op == "root-missing-query":
        sm["roots"]["query"] = None
        return sm
    raise ValueError(op)


def expect(v):
    """substrings one error message must contain (all of them)."""
    op = v["op"]
    at = v["at"]
    if op == "bad-name":
        return ['"%s"' % BAD_NAMES[v["bad"]]]
    if op == "empty":
        return ['"%s"' % at[1]]
    if op == "duplicate":
        if at[0] in ("member", "implements"):
            return ['"%s"' % at[1], '"%s"' % at[2], "once"]
        if at[0] == "directive-arg":
            return ['"%s"' % at[2], "@" + at[1], "Duplicate"]
        if at[0] == "arg":
            return ['"%s"' % at[3], "%s.%s" % (at[1], at[2]), "Duplicate"]
        return ['"%s"' % at[2], at[1], "Duplicate"]
    if op in ("output-in-input", "input-in-output"):
        if at[0] == "directive-arg":
            return ['"%s"' % at[2], "@" + at[1], '"%s"' % v["to"]]
        if at[0] == "arg":
            return ['"%s"' % at[3], "%s.%s" % (at[1], at[2]), '"%s"' % v["to"]]
        return ['"%s"' % at[2], '"%s"' % at[1], '"%s"' % v["to"]]
    if op.startswith("iface-"):
        _, oname, iname, fname = at
        base = ["%s.%s" % (iname, fname), oname]
        if op in ("iface-missing-arg", "iface-retyped-arg"):
            return ["%s.%s.%s" % (iname, fname, v["arg"]), oname]
        if op == "iface-extra-required-arg":
            return ["%s.%s.extra" % (oname, fname), "%s.%s" % (iname, fname)]
        return base
    if op == "union-non-object-member":
        return ['"%s"' % at[1], '"%s"' % at[2]]
    if op == "root-non-object":
        return [at[1].capitalize(), '"%s"' % v["to"]]
    if op == "root-missing-query":
        return ["Query"]
    raise ValueError(op)


def element(v):
    """identity of the violated element, to decide whether two violations touch the same element."""
    return tuple(v["at"])


def related(a, b):
    """True when one violation's position is (inside) the other's: same type / same field / ..."""
    pa, pb = a["at"], b["at"]

    def owner(p):
        if p[0] in ("field", "arg", "input-field", "enum-value", "type", "member", "implements"):
            return ("type", p[1])
        if p[0] == "impl":
            return ("type", p[1])
        if p[0] in ("directive", "directive-arg"):
            return ("directive", p[1])
        return ("root", p[1])

    owners_a = {owner(pa)}
    owners_b = {owner(pb)}
    if pa[0] == "impl":
        owners_a.add(("type", pa[2]))
    if pb[0] == "impl":
        owners_b.add(("type", pb[2]))
    return bool(owners_a & owners_b)


def _touch(v):
    """(type-level?, {(type name, field name|None)}) touched by a violation."""
    at = v["at"]
    op = v["op"]
    if at[0] == "impl":
        return False, {(at[1], at[3]), (at[2], at[3])}
    if at[0] == "type":
        return True, {(at[1], None)}
    if at[0] in ("member", "implements"):
        return True, {(at[1], None)}
    if at[0] in ("field", "arg", "input-field", "enum-value"):
        return False, {(at[1], at[2])}
    if at[0] == "directive":
        return True, {("@" + at[1], None)}
    if at[0] == "directive-arg":
        return False, {("@" + at[1], at[2])}
    if at[0] == "root":
        return True, {("<root>", at[1])}
    raise ValueError(op)


def independent(a, b):
    """
    True when injecting b cannot remove / alter the violation injected by a and vice versa, so that
    both must be reported:  different owners; or different members of the same owner; or an invalid
    type name (which keeps the type's content) together with a violation inside that type.
    """
    if a["op"] == "bad-name" and b["op"] == "bad-name" and a["bad"] == b["bad"] and a["target"] == b["target"] == "type":
        return False  # two types with the same name: not what either label says
    ta, sa = _touch(a)
    tb, sb = _touch(b)
    owners_a = {o for o, _ in sa}
    owners_b = {o for o, _ in sb}
    if not (owners_a & owners_b):
        # renaming a type also rewrites references to it; keep clear of violations that hinge on
        # that name elsewhere (interface implementation, union members, roots)
        for x, y in ((a, b), (b, a)):
            if x["op"] == "bad-name" and x["target"] == "type":
                if y["at"][0] in ("impl", "member", "implements", "root") or y["op"] in ("output-in-input", "input-in-output", "union-non-object-member", "root-non-object"):
                    return False
        return True
    for x, tx, y, ty in ((a, ta, b, tb), (b, tb, a, ta)):
        if x["op"] == "bad-name" and x["target"] == "type" and not ty and y["at"][0] != "impl" and y["op"] in ("bad-name", "duplicate"):
            return True  # invalid type name + a name / duplicate violation inside that type
    if ta or tb:
        return False
    return not (sa & sb)


# ------------------------------------------------------------------------------------------
# valid variants


def valid_variants(sm):
    """edits that keep the schema valid: [(tag, edited model)]"""
    out = []
    for o in sm["types"]:
        if o["kind"] != "object":
            continue
        for iname in o.get("interfaces") or ():
            it = M.get_type(sm, iname)
            for f in it["fields"]:
                for ti in tightenings(f["type"]):
                    m = copy.deepcopy(sm)
                    get_pos(m, ["field", o["name"], f["name"]])["type"] = ti
                    out.append(("covariant-non-null:%s.%s:%s" % (o["name"], f["name"], ti), m))
                n = M.named(f["type"])
                if M.kind_of(sm, n) == "interface":
                    for sub in [x["name"] for x in sm["types"] if x["kind"] == "object" and n in (x.get("interfaces") or ())]:
                        m = copy.deepcopy(sm)
                        get_pos(m, ["field", o["name"], f["name"]])["type"] = M.rewrap(f["type"], sub)
                        out.append(("covariant-subtype:%s.%s:%s" % (o["name"], f["name"], sub), m))
                m = copy.deepcopy(sm)
                get_pos(m, ["field", o["name"], f["name"]]).setdefault("args", []).append(A("extra", "Int"))
                out.append(("extra-optional-arg:%s.%s" % (o["name"], f["name"]), m))
                m = copy.deepcopy(sm)
                get_pos(m, ["field", o["name"], f["name"]]).setdefault("args", []).append(A("extra", "[Int!]", [1]))
                out.append(("extra-defaulted-arg:%s.%s" % (o["name"], f["name"]), m))
        m = copy.deepcopy(sm)
        M.get_type(m, o["name"])["fields"].append(F("more", "Int"))
        out.append(("extra-object-field:%s" % o["name"], m))
    # names at the edge of the name grammar
    for good in ("_", "_1", "a__b", "A1_", "x_"):
        m = copy.deepcopy(sm)
        get_pos(m, ["input-field", "In", "a"])["name"] = good
        get_pos(m, ["field", "Mut", "m"])["name"] = good
        out.append(("edge-name:%s" % good, m))
    return out


# ------------------------------------------------------------------------------------------
# resolver signatures


def rbase():
    return {
        "types": [
            T(
                "object",
                "Query",
                fields=[
                    F("plain", "Int"),
                    F("req", "Int", [A("a", "Int!")]),
                    F("opt", "Int", [A("b", "Int")]),
                    F("dft", "Int", [A("c", "Int", 1)]),
                    F("two", "Int", [A("a", "Int!"), A("b", "Int")]),
                    F("py", "Int", [A("someArg", "Int", pyname="some_arg")]),
                    # the SAME argument names as req / opt with the opposite optionality (one callable serving both)
                    F("aopt", "Int", [A("a", "Int")]),
                    F("breq", "Int", [A("b", "Int!")]),
                ],
            ),
            T("interface", "Iface", fields=[F("iv", "Int", [A("b", "Int")])]),
            T("object", "Impl", interfaces=["Iface"], fields=[F("iv", "Int", [A("b", "Int")])]),
        ],
        "directives": [],
        "roots": {"query": "Query"},
    }


def signatures(argnames):
    """every parameter list built from: a positional prefix, one slot per argument, a tail."""
    prefixes = ["", "root", "root, ctx", "root, ctx, info", "root, ctx, info, extra", "root, ctx, info, extra=1", "*args", "root, ctx, info, /"]
    slots = ["absent", "pos", "pos-default", "kwonly", "kwonly-default", "posonly"]
    tails = ["", "**kw", "*, more", "*, more=1"]
    out = []
    for prefix in prefixes:
        for combo in itertools.product(slots, repeat=len(argnames)):
            for tail in tails:
                s = _assemble(prefix, argnames, combo, tail)
                if s is not None and s not in out:
                    out.append(s)
    return out


def _assemble(prefix, argnames, combo, tail):
    posonly, pos, kwonly = [], [], []
    for n, c in zip(argnames, combo):
        if c == "pos":
            pos.append(n)
        elif c == "pos-default":
            pos.append(n + "=None")
        elif c == "kwonly":
            kwonly.append(n)
        elif c == "kwonly-default":
            kwonly.append(n + "=None")
        elif c == "posonly":
            posonly.append(n)
    parts = []
    has_star = False
    pre = [p.strip() for p in prefix.split(",") if p.strip()]
    if "/" in pre:
        if posonly:
            return None
        parts = pre
    elif posonly:
        if any("=" in p or p.startswith("*") for p in pre):
            return None
        parts = pre + posonly + ["/"]
    else:
        parts = pre
    if any(p.startswith("*") for p in parts):
        has_star = True
        # everything after *args is keyword-only
        kwonly = pos + kwonly
        pos = []
    # positional parameters: defaults must come last
    seen_default = any("=" in p for p in parts)
    for p in pos:
        if "=" not in p and seen_default:
            return None
        if "=" in p:
            seen_default = True
        parts.append(p)
    tail_kw = []
    if tail.startswith("*,"):
        tail_kw = [tail[2:].strip()]
        tail = ""
    if kwonly or tail_kw:
        if not has_star:
            parts.append("*")
        parts.extend(kwonly + tail_kw)
    if tail:
        parts.append(tail)
    s = ", ".join(parts)
    try:
        compile("def f(%s): pass" % s, "<sig>", "exec")
    except SyntaxError:
        return None
    return s


def call_shapes(args):
    """keyword sets the executor can pass: omittable = nullable arguments without default."""
    fixed, optional = [], []
    for a in args:
        key = a.get("pyname") or a["name"]
        if M.parse_type(a["type"])[0] == "nn" or "default" in a:
            fixed.append(key)
        else:
            optional.append(key)
    for r in range(len(optional) + 1):
        for sub in itertools.combinations(optional, r):
            yield fixed + list(sub)


def binds(params, args):
    """independent oracle: does def f(<params>) accept every call the executor can make?"""
    ns = {}
    exec("def f(%s): pass" % params, {}, ns)
    sig = inspect.signature(ns["f"])
    return bind_failure(sig, args) is None


def bind_failure(sig, args):
    """first reason why some executor call does not reach the resolver's parameters, or None."""
    import re

    for keys in call_shapes(args):
        try:
            sig.bind(object(), object(), object(), **{k: 1 for k in keys})
        except TypeError as e:
            return re.sub(r"'[^']*'", "'_'", str(e))
        for k in keys:
            p = sig.parameters.get(k)
            if p is not None and p.kind is inspect.Parameter.POSITIONAL_ONLY:
                # binds only because **kw swallows the value: the parameter named after the argument
                # never receives it (it takes the place of root / ctx / info instead)
                return "argument value cannot reach the positional-only parameter of the same name"
    return None


RESOLVER_SITES = ("field", "interface-field", "type-default", "global-default")


def resolver_cases():
    """[(site, type name, field name, params)] -- every signature at every site."""
    sm = rbase()
    out = []
    q = M.get_type(sm, "Query")
    for f in q["fields"]:
        names = [a.get("pyname") or a["name"] for a in f["args"]]
        for params in signatures(names):
            out.append(("field", "Query", f["name"], params))
    for params in signatures(["b"]):
        out.append(("interface-field", "Iface", "iv", params))
    # default resolvers serve every field of the type / of the schema
    for params in signatures([]) + ["root, ctx, info, a=None, b=None, c=None, some_arg=None", "root, ctx, info, a, b=None, c=1, some_arg=None"]:
        out.append(("type-default", "Query", None, params))
        out.append(("global-default", None, None, params))
    return out


# ------------------------------------------------------------------------------------------
# one resolver object serving several fields

SHARED_SITES = [
    ("Query", "plain"),
    ("Query", "req"),
    ("Query", "opt"),
    ("Query", "dft"),
    ("Query", "two"),
    ("Query", "py"),
    ("Query", "aopt"),
    ("Query", "breq"),
    ("Iface", "iv"),
    ("Impl", "iv"),
]
SHARED_SIGNATURES = [
    "root, ctx, info",
    "root, ctx, info, a",
    "root, ctx, info, b=None",
    "root, ctx, info, b",
    "root, ctx, info, a, b=None",
    "root, ctx, info, c",
    "root, ctx, info, some_arg=None",
    "root, ctx, info, a=None, b=None, c=None",
    "root, ctx, info, **kw",
    "root, ctx",
]


def shared_resolver_cases():
    """[(sites, params)]: ONE function object assigned to 2 or 3 fields whose argument sets differ."""
    out = []
    for r in (2, 3):
        for sites in itertools.combinations(SHARED_SITES, r):
            for params in SHARED_SIGNATURES:
                out.append(([list(x) for x in sites], params))
    return out


def shared_orders(sm, sites):
    """models with the chosen fields of each type in every relative order (moved to the front)."""
    by_type = {}
    for tn, fn in sites:
        by_type.setdefault(tn, []).append(fn)
    variants = [copy.deepcopy(sm)]
    for tn, fns in by_type.items():
        if len(fns) < 2:
            continue
        nxt = []
        for m in variants:
            for perm in itertools.permutations(fns):
                m2 = copy.deepcopy(m)
                t = M.get_type(m2, tn)
                chosen = {f["name"]: f for f in t["fields"] if f["name"] in fns}
                t["fields"] = [chosen[n] for n in perm] + [f for f in t["fields"] if f["name"] not in fns]
                nxt.append(m2)
        variants = nxt
    return variants


# ------------------------------------------------------------------------------------------
# precedence: field resolver, then the type's default resolver, then the schema-wide default resolver

PRECEDENCE_SIGNATURES = [
    None,
    "root, ctx, info, **kw",
    "root, ctx, info, a=None, b=None, c=None, some_arg=None",
    "root, ctx, info",
    "root, ctx",
    "root, ctx, info, extra",
    "root, ctx, info, a, **kw",
    "root, ctx, info, b, **kw",
]


def precedence_cases():
    """[(field-level params for Query.req, type-level default params for Query, schema-wide default params)]"""
    out = []
    for fld in (None, "root, ctx, info, a", "root, ctx, info"):
        for typ in PRECEDENCE_SIGNATURES:
            for glob in PRECEDENCE_SIGNATURES:
                if typ is None and glob is None and fld is None:
                    continue
                out.append([fld, typ, glob])
    return out


# ------------------------------------------------------------------------------------------
# several root violations at once (and with an unrelated violation elsewhere): all must be reported


def root_combinations():
    """lists of 2-4 violations with at least one root violation; see C13 'root-combination'."""
    q_opts = [
        None,
        {"op": "root-missing-query", "at": ["root", "query"]},
        {"op": "root-non-object", "at": ["root", "query"], "to": "Node", "of": "interface"},
        {"op": "root-non-object", "at": ["root", "query"], "to": "Kind", "of": "enum"},
    ]
    m_opts = [
        None,
        {"op": "root-non-object", "at": ["root", "mutation"], "to": "Node", "of": "interface"},
        {"op": "root-non-object", "at": ["root", "mutation"], "to": "In", "of": "input"},
    ]
    s_opts = [
        None,
        {"op": "root-non-object", "at": ["root", "subscription"], "to": "Any", "of": "union"},
        {"op": "root-non-object", "at": ["root", "subscription"], "to": "Sc", "of": "scalar"},
    ]
    u_opts = [
        None,
        {"op": "bad-name", "target": "field", "at": ["field", "Leaf", "only"], "bad": "digit"},
        {"op": "empty", "target": "enum", "at": ["type", "One"]},
        {"op": "duplicate", "target": "directive-arg", "at": ["directive-arg", "dir", "x"]},
    ]
    out = []
    for q in q_opts:
        for m in m_opts:
            for s_ in s_opts:
                for u in u_opts:
                    vl = [copy.deepcopy(x) for x in (q, m, s_, u) if x is not None]
                    roots = [x for x in (q, m, s_) if x is not None]
                    if len(vl) >= 2 and roots:
                        out.append(vl)
    return out
