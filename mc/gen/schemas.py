# -*- coding: utf-8 -*-
"""
Feature-indexed enumeration of schema models (DESIGN 4.5).

A schema model is determined by a *set of feature names* switched on over the base schema

    type Query { a(x: Int): Int }

`build_sm(features)` is a pure function of the (sorted) feature tuple, so cases and witnesses only carry
the feature names.  `feature_sets(k)` enumerates every subset of FEATURES with at most k elements in a
fixed order, smallest first -- exhaustive inside the bound, never sampled.

Structural features add definitions / fields; *post* features rewrite the whole model afterwards
(descriptions on every describable element, a custom directive applied at every location, explicit
schema definition, non-default root names).
"""
import itertools

from mc.ref.schema_model import mk_field, mk_ival, mk_type, sm_new, sm_type

# ---------------------------------------------------------------------------------------------
# helpers


def _query(sm):
    return sm_type(sm, "Query")


def _add_type(sm, t):
    if sm_type(sm, t["name"]) is None:
        sm["types"].append(t)
    return sm_type(sm, t["name"])


def _qfield(sm, f):
    q = _query(sm)
    if all(x["name"] != f["name"] for x in q["fields"]):
        q["fields"].append(f)


def ensure_enum(sm):
    _add_type(sm, mk_type("enum", "Color", values=["RED", "GREEN", "BLUE"]))


def ensure_input(sm):
    _add_type(sm, mk_type("input", "Inp", fields=[mk_ival("k", "Int"), mk_ival("s", "String"), mk_ival("j", "Int", default=["int", "5"])]))


def ensure_scalar(sm):
    _add_type(sm, mk_type("scalar", "Date"))


def ensure_node(sm):
    _add_type(sm, mk_type("interface", "Node", fields=[mk_field("id", "ID")]))
    _qfield(sm, mk_field("node", "Node"))


# ---------------------------------------------------------------------------------------------
# structural features


def f_obj(sm):
    _add_type(sm, mk_type("object", "Obj", fields=[mk_field("x", "Int"), mk_field("q", "Query")]))
    _qfield(sm, mk_field("o", "Obj"))


def f_iface(sm):
    ensure_node(sm)
    _add_type(sm, mk_type("object", "Impl", interfaces=["Node"], fields=[mk_field("id", "ID"), mk_field("n", "Int")]))
    _qfield(sm, mk_field("impl", "Impl"))


def f_iface2(sm):
    # an object implementing two interfaces, an interface field with an argument
    ensure_node(sm)
    _add_type(sm, mk_type("interface", "Named", fields=[mk_field("name", "String", args=[mk_ival("upper", "Boolean")])]))
    _add_type(
        sm,
        mk_type(
            "object",
            "Both",
            interfaces=["Node", "Named"],
            fields=[mk_field("id", "ID"), mk_field("name", "String", args=[mk_ival("upper", "Boolean")])],
        ),
    )
    _qfield(sm, mk_field("both", "Both"))
    _qfield(sm, mk_field("named", "Named"))


def f_orphan(sm):
    ensure_node(sm)
    _add_type(sm, mk_type("object", "Orph", interfaces=["Node"], fields=[mk_field("id", "ID"), mk_field("z", "Int")]))


def f_union(sm):
    _add_type(sm, mk_type("object", "UA", fields=[mk_field("a", "Int")]))
    _add_type(sm, mk_type("object", "UB", fields=[mk_field("b", "Int")]))
    _add_type(sm, mk_type("union", "U", members=["UB", "UA"]))
    _qfield(sm, mk_field("u", "U"))


def f_enum(sm):
    ensure_enum(sm)
    _qfield(sm, mk_field("color", "Color", args=[mk_ival("c", "Color")]))


def f_input(sm):
    ensure_input(sm)
    _qfield(sm, mk_field("inp", "Int", args=[mk_ival("i", "Inp")]))


def f_scalar(sm):
    ensure_scalar(sm)
    _qfield(sm, mk_field("date", "Date", args=[mk_ival("d", "Date")]))


def f_mutation(sm):
    _add_type(sm, mk_type("object", "Mutation", fields=[mk_field("m", "Int", args=[mk_ival("x", "Int")])]))
    sm["roots"]["mutation"] = "Mutation"


def f_subscription(sm):
    _add_type(sm, mk_type("object", "Subscription", fields=[mk_field("s", "Int")]))
    sm["roots"]["subscription"] = "Subscription"


WRAPPERS = ["T!", "[T]", "[T]!", "[T!]", "[T!]!", "[[T]]"]


def _f_wrap(i, w):
    def f(sm):
        _qfield(sm, mk_field("w%d" % i, w.replace("T", "Query"), args=[mk_ival("x", w.replace("T", "Int"))]))

    return f


DEEP7 = "[[[T!]!]!]!"  # 7 wrappers: the deepest chain the standard introspection query can express
DEEP6 = "[[[T!]!]!]"


def f_wrap_deep(sm):
    ensure_enum(sm)
    ensure_input(sm)
    args = []
    fields = []
    for i, w in enumerate((DEEP7, DEEP6)):
        for n, t in (("i", "Int"), ("c", "Color"), ("o", "Inp")):
            args.append(mk_ival("%s%d" % (n, 7 - i), w.replace("T", t)))
            fields.append(mk_ival("%s%d" % (n, 7 - i), w.replace("T", t)))
    _qfield(sm, mk_field("deep7", DEEP7.replace("T", "Int"), args=args))
    _qfield(sm, mk_field("deep6", DEEP6.replace("T", "Color")))
    _qfield(sm, mk_field("deepQ", DEEP7.replace("T", "Query")))
    _add_type(sm, mk_type("input", "DeepIn", fields=fields))
    _qfield(sm, mk_field("deepIn", "Int", args=[mk_ival("v", "DeepIn")]))


def f_iface_unimplemented(sm):
    """an interface nobody implements, used as a field type"""
    _add_type(sm, mk_type("interface", "Lonely", fields=[mk_field("id", "ID"), mk_field("self", "Lonely")]))
    _qfield(sm, mk_field("lonely", "Lonely"))


def f_union_single(sm):
    _add_type(sm, mk_type("object", "Only", fields=[mk_field("o", "Int")]))
    _add_type(sm, mk_type("union", "Solo", members=["Only"]))
    _qfield(sm, mk_field("solo", "Solo"))


def L(kind, v):
    return [kind, v]


def I(n):  # noqa: E743
    return ["int", str(n)]


# groups of defaults: (suffix, type, literal); each group becomes arguments of one Query field AND the
# fields of one input object type used by a second Query field
DEFAULT_GROUPS = {
    "int": [("a", "Int", I(3)), ("b", "Int", I(-7)), ("c", "Int", I(0))],
    "int-max": [("a", "Int", I(2147483647))],
    "int-min": [("a", "Int", I(-2147483648))],
    "float": [("a", "Float", ["float", "1.5"]), ("b", "Float", I(2)), ("c", "Float", ["float", "1e3"]), ("d", "Float", ["float", "-0.25"])],
    # floats that need all 17 significant digits, tiny / huge exponents, negative zero, integral floats; also
    # inside list and input-object defaults
    "float-precise": [
        ("a", "Float", ["float", "0.30000000000000004"]),
        ("b", "Float", ["float", "3.141592653589793"]),
        ("c", "Float", ["float", "1e-13"]),
        ("d", "Float", ["float", "2.5e-15"]),
        ("e", "Float", ["float", "1.7976931348623157e308"]),
        ("f", "Float", ["float", "-0.0"]),
        ("g", "Float", ["float", "1.0"]),
        ("h", "Float", ["float", "5e-324"]),
        ("i", "Float!", ["float", "-123456789.12345679"]),
        ("j", "Float", ["float", "1e21"]),
        ("l", "[Float!]", ["list", [["float", "0.1"], ["float", "0.30000000000000004"], ["float", "1.0"], ["float", "1e-13"]]]),
        ("o", "Fl", ["obj", [["x", ["float", "2.5e-15"]]]]),
        ("ol", "[Fl]", ["list", [["obj", []], ["obj", [["y", ["float", "3.141592653589793"]]]]]]),
    ],
    # a SINGLE value standing for a list default (list input coercion wraps it), depth 1 and 2
    "list-single": [
        ("a", "[Int]", I(1)),
        ("b", "[[Int]]", I(2)),
        ("c", "[[Int]]", ["list", [I(1), I(2)]]),
        ("d", "[Color]", ["enum", "GREEN"]),
        ("e", "[[Color!]]", ["enum", "RED"]),
        ("f", "[Inp]", ["obj", [["k", I(1)]]]),
        ("g", "[[Inp]]", ["obj", [["k", I(2)]]]),
        ("h", "[[Inp]]", ["list", [["obj", [["k", I(3)]]]]]),
        ("i", "[String!]!", ["str", "x"]),
        ("j", "[Float]", ["float", "1.5"]),
    ],
    # custom-scalar string values that are ALMOST Int literals (the string must stay that string)
    "scalar-almost-int": [
        ("a", "Date", ["str", "00501"]),
        ("b", "Date", ["str", "+5"]),
        ("c", "Date", ["str", "1_000"]),
        ("d", "Date", ["str", " 5"]),
        ("e", "Date", ["str", "5 "]),
        ("f", "Date", ["str", "-0"]),
        ("g", "Date", ["str", "0"]),
        ("h", "Date", ["str", "-12"]),
        ("i", "[Date]", ["list", [["str", "007"], ["str", "7"]]]),
    ],
    "string": [
        ("a", "String", ["str", "abc"]),
        ("b", "String", ["str", 'q"uo\\te']),
        ("c", "String", ["str", ""]),
        ("d", "String", ["str", "café"]),
        ("e", "String", ["str", "two\nlines"]),
    ],
    "bool": [("a", "Boolean", ["bool", True]), ("b", "Boolean", ["bool", False])],
    "id": [("a", "ID", I(4)), ("b", "ID", ["str", "x1"])],
    "enum": [("a", "Color", ["enum", "GREEN"]), ("b", "[Color!]", ["list", [["enum", "RED"], ["enum", "BLUE"]]])],
    "list": [
        ("a", "[Int]", ["list", [I(1), I(2)]]),
        ("b", "[Int]", I(1)),
        ("c", "[Int]", ["list", []]),
        ("d", "[[Int]]", ["list", [["list", [I(1)]], ["list", [I(2), I(3)]]]]),
        ("e", "[Int]", ["list", [I(1), ["null"]]]),
        ("f", "[String!]!", ["list", [["str", "a"], ["str", 'b"']]]),
    ],
    "obj": [
        ("a", "Inp", ["obj", [["k", I(2)]]]),
        ("b", "Inp", ["obj", []]),
        ("c", "Inp", ["obj", [["s", ["str", 'x"y']], ["j", I(1)], ["k", ["null"]]]]),
        ("d", "[Inp]", ["obj", [["k", I(1)]]]),
    ],
    "null": [("a", "Int", ["null"]), ("b", "[Int]", ["null"]), ("c", "String", ["null"])],
    "nonnull": [("a", "Int!", I(3)), ("b", "[Int!]!", ["list", [I(1)]])],
    "scalar": [("a", "Date", ["str", "2020-01-01"])],
    # a pass-through scalar holding values of several Python types that compare / hash EQUAL (1 == True == 1.0):
    # every default keeps its own literal kind, whatever was printed before it
    "scalar-typed": [
        ("a", "Raw", I(1)), ("b", "Raw", ["bool", True]), ("c", "Raw", ["float", "1.0"]), ("d", "Raw", ["bool", False]), ("e", "Raw", I(0)),
        ("f", "Raw", ["float", "0.0"]), ("g", "Raw", ["float", "2.0"]), ("h", "Raw", I(2)), ("i", "[Raw]", ["list", [["bool", True], I(1), ["float", "1.0"]]]),
    ],
    "scalar-numstr": [("a", "Date", ["str", "1e3"]), ("b", "Date", ["str", "12"])],
}
def ensure_float_input(sm):
    _add_type(sm, mk_type("input", "Fl", fields=[mk_ival("x", "Float", default=["float", "0.1"]), mk_ival("y", "Float!", default=["float", "1.0"]), mk_ival("z", "[Float]", default=["list", [["float", "1e-13"]]])]))


def ensure_list_single(sm):
    ensure_enum(sm)
    ensure_input(sm)
    sm["directives"].append(_dir("single", ["FIELD"], [mk_ival("xs", "[Inp]", default=["obj", [["k", I(1)]]]), mk_ival("n", "[[Int]]", default=I(1)), mk_ival("c", "[Color!]", default=["enum", "BLUE"])]))


def ensure_raw(sm):
    _add_type(sm, mk_type("scalar", "Raw"))


_NEEDS = {"scalar-typed": ensure_raw, "scalar-almost-int": ensure_scalar, "list-single": ensure_list_single, "float-precise": ensure_float_input, "enum": ensure_enum, "obj": ensure_input, "scalar": ensure_scalar, "scalar-numstr": ensure_scalar}


def _f_default(group):
    items = DEFAULT_GROUPS[group]
    tag = "".join(p.capitalize() for p in group.split("-"))

    def f(sm):
        if group in _NEEDS:
            _NEEDS[group](sm)
        _qfield(sm, mk_field("d" + tag, "Int", args=[mk_ival(n, t, default=lit) for n, t, lit in items]))
        _add_type(sm, mk_type("input", "In" + tag, fields=[mk_ival(n, t, default=lit) for n, t, lit in items]))
        _qfield(sm, mk_field("i" + tag, "Int", args=[mk_ival("v", "In" + tag)]))

    return f


def f_nested_defaults(sm):
    """input-object default literals that OMIT fields which are non-null WITH a default of their own
    (scalar, enum, list, nested input object `= {}`), at top level and nested, on arguments, input fields and
    directive arguments: the literal is valid and the coerced default has the nested defaults filled in."""
    ensure_enum(sm)
    E = lambda n: ["enum", n]  # noqa: E731
    _add_type(
        sm,
        mk_type(
            "input",
            "Page",
            fields=[
                mk_ival("size", "Int!", default=I(10)),
                mk_ival("sort", "Color!", default=E("GREEN")),
                mk_ival("tags", "[String!]!", default=["list", [["str", "a"]]]),
                mk_ival("after", "String"),
            ],
        ),
    )
    _add_type(
        sm,
        mk_type(
            "input",
            "Filter",
            fields=[
                mk_ival("page", "Page!", default=["obj", []]),
                mk_ival("n", "Int!", default=I(3)),
                mk_ival("pages", "[Page!]!", default=["list", [["obj", []], ["obj", [["size", I(1)]]]]]),
                mk_ival("q", "String"),
            ],
        ),
    )
    items = [
        ("a", "Filter", ["obj", []]),
        ("b", "Filter", ["obj", [["q", ["str", "x"]]]]),
        ("c", "[Filter!]", ["list", [["obj", []]]]),
        ("d", "Filter!", ["obj", [["page", ["obj", [["size", I(1)]]]]]]),
        ("e", "Page", ["obj", []]),
        ("f", "[Filter]", ["obj", [["n", I(4)]]]),
    ]
    _qfield(sm, mk_field("dNested", "Int", args=[mk_ival(n, t, default=lit) for n, t, lit in items]))
    _add_type(sm, mk_type("input", "InNested", fields=[mk_ival(n, t, default=lit) for n, t, lit in items]))
    _qfield(sm, mk_field("iNested", "Int", args=[mk_ival("v", "InNested", default=["obj", []])]))
    sm["directives"].append(_dir("nested", ["FIELD"], [mk_ival("f", "Filter", default=["obj", []]), mk_ival("p", "Page!", default=["obj", [["sort", E("RED")]]])]))


def f_dep_field(sm):
    _qfield(sm, mk_field("old1", "Int", deprecation={"reason": None}))
    _qfield(sm, mk_field("old2", "Int", args=[mk_ival("x", "Int")], deprecation={"reason": 'use "a" \\ instead'}))


def f_dep_enum(sm):
    _add_type(
        sm,
        mk_type(
            "enum",
            "Status",
            values=[{"name": "NEW"}, {"name": "OLD", "deprecation": {"reason": None}}, {"name": "OLDER", "deprecation": {"reason": "gone"}}],
        ),
    )
    _qfield(sm, mk_field("status", "Status"))


def f_dep_empty(sm):
    _qfield(sm, mk_field("old0", "Int", deprecation={"reason": ""}))
    _add_type(sm, mk_type("enum", "Faded", values=[{"name": "KEEP"}, {"name": "DROP", "deprecation": {"reason": ""}}]))
    _qfield(sm, mk_field("faded", "Faded"))


def f_dep_all(sm):
    # a type all of whose fields are deprecated (nothing left to show when deprecated members are hidden)
    _add_type(sm, mk_type("object", "Legacy", fields=[mk_field("l", "Int", deprecation={"reason": "all gone"})]))
    _qfield(sm, mk_field("legacy", "Legacy"))


def f_dep_iface(sm):
    """deprecated fields on an INTERFACE (default / custom / empty reason), an object that implements them with
    plain fields, an object whose implementing fields are deprecated too."""
    deps = [("old1", {"reason": None}), ("old2", {"reason": "use keep"}), ("old3", {"reason": ""})]

    def fields(dep):
        return [mk_field("keep", "Int")] + [mk_field(n, "Int", deprecation=(d if dep else None)) for n, d in deps]

    _add_type(sm, mk_type("interface", "DepNode", fields=fields(True)))
    _add_type(sm, mk_type("object", "DepPlain", interfaces=["DepNode"], fields=fields(False)))
    _add_type(sm, mk_type("object", "DepBoth", interfaces=["DepNode"], fields=fields(True)))
    _qfield(sm, mk_field("depNode", "DepNode"))
    _qfield(sm, mk_field("depPlain", "DepPlain"))
    _qfield(sm, mk_field("depBoth", "DepBoth"))


def _dir(name, locations, args=None):
    return {"name": name, "description": None, "locations": list(locations), "args": list(args or [])}


def f_dir_def(sm):
    sm["directives"].append(
        _dir("foo", ["FIELD_DEFINITION", "OBJECT"], [mk_ival("x", "Int", default=I(1)), mk_ival("y", "[String!]"), mk_ival("z", "String", default=["str", 'd"q'])])
    )


def f_dir_same_name(sm):
    """a directive and a type with the SAME name (separate namespaces: legal), the directive applied too"""
    sm["directives"].append(_dir("Auth", ["FIELD_DEFINITION", "OBJECT"], [mk_ival("role", "String", default=["str", "user"])]))
    t = mk_type("object", "Auth", fields=[mk_field("token", "String", applied=[["Auth", [["role", ["str", "admin"]]]]])])
    t["applied"].append(["Auth", []])
    _add_type(sm, t)
    _add_type(sm, mk_type("enum", "foo", values=["X"]))  # also same as the directive @foo of dir:def / dir:foo
    _qfield(sm, mk_field("auth", "Auth"))
    _qfield(sm, mk_field("fooEnum", "foo"))


def f_dir_exec(sm):
    sm["directives"].append(_dir("onq", ["QUERY", "FIELD", "FRAGMENT_SPREAD"], [mk_ival("if", "Boolean!")]))


def f_dir_vardef(sm):
    sm["directives"].append(_dir("vd", ["VARIABLE_DEFINITION"]))


def f_dir_input(sm):
    # directive whose arguments use an enum and an input object (type-map closure through directives)
    _add_type(sm, mk_type("enum", "Level", values=["LOW", "HIGH"]))
    _add_type(sm, mk_type("input", "Opts", fields=[mk_ival("n", "Int", default=I(1))]))
    sm["directives"].append(_dir("cfg", ["FIELD_DEFINITION"], [mk_ival("level", "Level", default=["enum", "HIGH"]), mk_ival("opts", "Opts", default=["obj", []])]))


def f_rec_obj(sm):
    _add_type(sm, mk_type("object", "R", fields=[mk_field("r", "R"), mk_field("v", "Int")]))
    _qfield(sm, mk_field("r", "R"))


def f_rec_obj_mutual(sm):
    _add_type(sm, mk_type("object", "RA", fields=[mk_field("b", "RB")]))
    _add_type(sm, mk_type("object", "RB", fields=[mk_field("a", "[RA!]")]))
    _qfield(sm, mk_field("ra", "RA"))


def f_rec_arg(sm):
    # an object field whose argument is an input that is used by the object's own field type
    _add_type(sm, mk_type("object", "RQ", fields=[mk_field("next", "RQ", args=[mk_ival("x", "Int", default=I(1))])]))
    _qfield(sm, mk_field("rq", "RQ"))


def f_rec_input(sm):
    _add_type(sm, mk_type("input", "RI", fields=[mk_ival("r", "RI"), mk_ival("v", "Int")]))
    _qfield(sm, mk_field("ri", "Int", args=[mk_ival("x", "RI")]))


def f_rec_input_list(sm):
    _add_type(sm, mk_type("input", "RL", fields=[mk_ival("v", "Int"), mk_ival("rs", "[RL!]")]))
    _qfield(sm, mk_field("rl", "Int", args=[mk_ival("x", "RL")]))


def f_rec_input_mutual(sm):
    _add_type(sm, mk_type("input", "MA", fields=[mk_ival("b", "MB"), mk_ival("v", "Int")]))
    _add_type(sm, mk_type("input", "MB", fields=[mk_ival("a", "MA")]))
    _qfield(sm, mk_field("ma", "Int", args=[mk_ival("x", "MA")]))


def f_rec_iface(sm):
    _add_type(sm, mk_type("interface", "Tree", fields=[mk_field("parent", "Tree")]))
    _add_type(sm, mk_type("object", "Leaf", interfaces=["Tree"], fields=[mk_field("parent", "Tree")]))
    _qfield(sm, mk_field("tree", "Tree"))
    _qfield(sm, mk_field("leaf", "Leaf"))


# ---------------------------------------------------------------------------------------------
# post features

DESCRIPTIONS = {
    "one": "A thing.",
    "multi": "First line.\nSecond line.",
    "para": "Para one.\n\nPara two.",
    "tq": 'Has """ inside.',
    "endq": 'Ends with a "quote"',
    "endbs": "Ends with a backslash \\",
    "midq": 'Has "quotes" and \\ inside.',
    "unicode": "Café ☕ ok",
    "multi-endq": 'Two lines\nend "q"',
}


# description content classes that only matter to the printers (enumerated alone and with the element-kind
# carriers, not with every other feature); lines stay far below the printer's re-wrapping width
EXTRA_DESCRIPTIONS = {
    "trail-space": "Markdown hard break  ",
    "trail-tab": "Ends with a tab\t",
    "lead-first": "  Indented first line",
    "lead-later": "First line\n    indented later line\nlast line",
    "ws-only": "   ",
    "trail-newline": "Ends with a newline\n",
    "trail-blank": "Ends with a blank line\n\n",
    "lead-newline": "\nStarts with a newline",
    "empty": "",
    "astral": "No entry \U0001F6AB sign",
    "ls": "Line\u2028separator",
    "nbsp": "No\u00a0break space",
    "tab-inside": "Tab\tinside",
    # an interior line made only of blanks (not an empty line): it must keep its blanks on nested elements too
    "ws-line-inside": "First line\n    \nlast line",
    "tab-line-inside": "First line\n\t\nlast line",
}

# string content alphabet of DESIGN 4.1, pushed through every place where the schema printers emit a string
STRING_CONTENTS = {
    "empty": "",
    "quote": 'q"q',
    "backslash": "b\\s",
    "newline": "n\nl",
    "tab": "t\tb",
    "eacute": "\u00e9",
    "astral": "\U0001F6AB",
    "ls": "l\u2028s",
    "nbsp": "n\u00a0b",
}


def _f_string(name):
    c = STRING_CONTENTS[name]
    tag = name.capitalize()
    S = lambda: ["str", c]  # noqa: E731

    def f(sm):
        dname = "s%sD" % tag
        sm["directives"].append(
            _dir(dname, ["FIELD_DEFINITION", "ENUM_VALUE"], [mk_ival("s", "String", default=S()), mk_ival("l", "[String]", default=["list", [S(), ["str", "x"]]])])
        )
        _add_type(sm, mk_type("input", "S%sI" % tag, fields=[mk_ival("s", "String", default=S()), mk_ival("l", "[String!]", default=["list", [S()]])]))
        _add_type(
            sm,
            mk_type(
                "enum",
                "S%sE" % tag,
                values=[{"name": "KEEP"}, {"name": "GONE", "deprecation": {"reason": c}, "applied": [[dname, [["s", S()]]]]}],
            ),
        )
        _qfield(
            sm,
            mk_field(
                "s" + tag,
                "S%sE" % tag,
                args=[
                    mk_ival("a", "String", default=S()),
                    mk_ival("l", "[String]", default=["list", [S(), ["str", "x"]]]),
                    mk_ival("o", "S%sI" % tag, default=["obj", [["s", S()]]]),
                ],
                applied=[[dname, [["s", S()], ["l", ["list", [S()]]]]]],
            ),
        )
        _qfield(sm, mk_field("s%sOld" % tag, "Int", deprecation={"reason": c}))

    return f


def _each_describable(sm):
    for t in sm["types"]:
        yield t
        for f in t.get("fields", []):
            yield f
            for a in f.get("args", []):
                yield a
        for v in t.get("values", []):
            yield v
    for d in sm["directives"]:
        yield d
        for a in d["args"]:
            yield a


def _p_desc(form):
    text = DESCRIPTIONS[form] if form in DESCRIPTIONS else EXTRA_DESCRIPTIONS[form]

    def p(sm):
        for el in _each_describable(sm):
            el["description"] = text

    return p


_ALL_TS_LOCATIONS = [
    "SCHEMA",
    "SCALAR",
    "OBJECT",
    "FIELD_DEFINITION",
    "ARGUMENT_DEFINITION",
    "INTERFACE",
    "UNION",
    "ENUM",
    "ENUM_VALUE",
    "INPUT_OBJECT",
    "INPUT_FIELD_DEFINITION",
]


def p_dir_applied(sm):
    sm["directives"].append(_dir("tag", _ALL_TS_LOCATIONS, [mk_ival("n", "Int", default=I(0)), mk_ival("s", "String")]))
    k = [0]

    def app():
        k[0] += 1
        if k[0] % 3 == 0:
            return ["tag", [["n", I(k[0])], ["s", ["str", 'v"%d' % k[0]]]]]
        if k[0] % 3 == 1:
            return ["tag", []]
        return ["tag", [["n", I(k[0])]]]

    sm["schema_applied"].append(app())
    sm["schema_def"] = True
    for t in sm["types"]:
        t["applied"].append(app())
        for f in t.get("fields", []):
            f["applied"].append(app())
            for a in f.get("args", []):
                a["applied"].append(app())
        for v in t.get("values", []):
            v["applied"].append(app())


def p_dir_foo(sm):
    # the directive named in the whitelist option include_custom_schema_directives=["foo"]
    if all(d["name"] != "foo" for d in sm["directives"]):
        sm["directives"].append(_dir("foo", ["FIELD_DEFINITION", "OBJECT"], [mk_ival("x", "Int", default=I(1))]))
    q = _query(sm)
    q["applied"].append(["foo", []])
    q["fields"][0]["applied"].append(["foo", [["x", I(2)]]])


def p_schema_explicit(sm):
    sm["schema_def"] = True


def _rename(sm, old, new):
    def rt(t):
        if t[0] == "n":
            return ("n", new) if t[1] == old else t
        return (t[0], rt(t[1]))

    for t in sm["types"]:
        if t["name"] == old:
            t["name"] = new
        for f in t.get("fields", []):
            f["type"] = rt(f["type"])
            for a in f.get("args", []):
                a["type"] = rt(a["type"])
        if "interfaces" in t:
            t["interfaces"] = [new if i == old else i for i in t["interfaces"]]
        if "members" in t:
            t["members"] = [new if i == old else i for i in t["members"]]
    for d in sm["directives"]:
        for a in d["args"]:
            a["type"] = rt(a["type"])
    for op, n in list(sm["roots"].items()):
        if n == old:
            sm["roots"][op] = new


def p_schema_names(sm):
    sm["schema_def"] = True
    _rename(sm, "Query", "Root")
    _rename(sm, "Mutation", "Mut")
    _rename(sm, "Subscription", "Sub")


def _ensure_roots(sm):
    if sm_type(sm, "Mutation") is None:
        f_mutation(sm)
    if sm_type(sm, "Subscription") is None:
        f_subscription(sm)


def p_roots_case(sm):
    """every root named like the default up to case: query / MUTATION / subscription"""
    _ensure_roots(sm)
    sm["schema_def"] = True
    _rename(sm, "Query", "query")
    _rename(sm, "Mutation", "MUTATION")
    _rename(sm, "Subscription", "subscription")


def p_roots_query_renamed(sm):
    """only the query root has a non-default name; mutation and subscription keep the default names"""
    _ensure_roots(sm)
    sm["schema_def"] = True
    _rename(sm, "Query", "Root")


def p_roots_nonroot_named(sm):
    """types CALLED Mutation and Subscription that are not roots (only reachable as field types)"""
    _add_type(sm, mk_type("object", "Mutation", fields=[mk_field("m", "Int")]))
    _add_type(sm, mk_type("object", "Subscription", fields=[mk_field("s", "Int")]))
    sm["roots"]["mutation"] = None
    sm["roots"]["subscription"] = None
    sm["schema_def"] = True
    _qfield(sm, mk_field("notMutation", "Mutation"))
    _qfield(sm, mk_field("notSubscription", "Subscription"))


def p_roots_swapped(sm):
    """the type called Subscription is the mutation root and vice versa"""
    _ensure_roots(sm)
    sm["schema_def"] = True
    sm["roots"]["mutation"], sm["roots"]["subscription"] = "Subscription", "Mutation"


# ---------------------------------------------------------------------------------------------
# registry (order = order of application = enumeration order)

FEATURES = []
EXTRA = {}  # extra feature name -> carriers it is paired with


def _reg(name, fn, post=False, extra=None):
    FEATURES.append((name, fn, post))
    if extra is not None:
        EXTRA[name] = list(extra)


_reg("k:obj", f_obj)
_reg("k:iface", f_iface)
_reg("k:iface2", f_iface2)
_reg("k:orphan", f_orphan)
_reg("k:union", f_union)
_reg("k:union-single", f_union_single)
_reg("k:iface-unimplemented", f_iface_unimplemented)
_reg("k:enum", f_enum)
_reg("k:input", f_input)
_reg("k:scalar", f_scalar)
_reg("k:mutation", f_mutation)
_reg("k:subscription", f_subscription)
for _i, _w in enumerate(WRAPPERS):
    _reg("w:" + _w, _f_wrap(_i + 1, _w))
# large, self-contained features: enumerated alone and with a few carriers only (see feature_sets)
_reg("w:deep", f_wrap_deep, extra=["k:enum", "k:input", "desc:one"])
for _g in DEFAULT_GROUPS:
    _reg("d:" + _g, _f_default(_g), extra=(["k:input", "dir:def", "desc:one"] if _g in ("float-precise", "list-single", "scalar-almost-int", "scalar-typed") else None))
_reg("d:nested-defaults", f_nested_defaults, extra=["k:enum", "k:input", "dir:applied"])
_reg("dep:field", f_dep_field)
_reg("dep:enum", f_dep_enum)
_reg("dep:empty", f_dep_empty)
_reg("dep:all", f_dep_all)
_reg("dep:iface", f_dep_iface)
_reg("dir:def", f_dir_def)
_reg("dir:exec", f_dir_exec)
_reg("dir:same-name", f_dir_same_name, extra=["dir:def", "dir:foo", "dir:applied"])
_reg("dir:vardef", f_dir_vardef)
_reg("dir:input", f_dir_input)
_reg("rec:obj", f_rec_obj)
_reg("rec:obj-mutual", f_rec_obj_mutual)
_reg("rec:arg", f_rec_arg)
_reg("rec:input", f_rec_input)
_reg("rec:input-list", f_rec_input_list)
_reg("rec:input-mutual", f_rec_input_mutual)
_reg("rec:iface", f_rec_iface)
_reg("dir:applied", p_dir_applied, post=True)
_reg("dir:foo", p_dir_foo, post=True)
_reg("schema:explicit", p_schema_explicit, post=True)
_reg("schema:names", p_schema_names, post=True)
for _form in DESCRIPTIONS:
    _reg("desc:" + _form, _p_desc(_form), post=True)
DESC_CARRIERS = ["k:obj", "k:iface", "k:union", "k:enum", "k:input", "k:scalar", "k:mutation", "dep:enum", "dir:def", "dir:applied"]
STRING_CARRIERS = ["dir:applied", "schema:names"]
ROOT_CARRIERS = ["k:obj", "dir:applied", "desc:one"]
_reg("roots:case", p_roots_case, post=True, extra=ROOT_CARRIERS)
_reg("roots:query-renamed", p_roots_query_renamed, post=True, extra=ROOT_CARRIERS)
_reg("roots:nonroot-named", p_roots_nonroot_named, post=True, extra=ROOT_CARRIERS)
_reg("roots:swapped", p_roots_swapped, post=True, extra=ROOT_CARRIERS)
for _name in STRING_CONTENTS:
    _reg("str:" + _name, _f_string(_name), extra=STRING_CARRIERS)
for _form in EXTRA_DESCRIPTIONS:
    _reg("desc:" + _form, _p_desc(_form), post=True, extra=DESC_CARRIERS)

FEATURE_NAMES = [f[0] for f in FEATURES]
CORE_NAMES = [n for n in FEATURE_NAMES if n not in EXTRA]
_BY = {f[0]: f for f in FEATURES}
_IDX = {n: i for i, n in enumerate(FEATURE_NAMES)}


def base_sm():
    sm = sm_new()
    sm["types"].append(mk_type("object", "Query", fields=[mk_field("a", "Int", args=[mk_ival("x", "Int")])]))
    sm["roots"]["query"] = "Query"
    return sm


def compatible(features):
    """At most one description form (a second one would just overwrite the first) and one root-name feature."""
    return sum(1 for f in features if f.startswith("desc:")) <= 1 and sum(1 for f in features if f.startswith("roots:") or f == "schema:names") <= 1


def build_sm(features):
    """features: iterable of feature names -> SM.  Application order is the registry order."""
    fs = sorted(set(features), key=lambda n: _IDX[n])
    sm = base_sm()
    for n in fs:
        if not _BY[n][2]:
            _BY[n][1](sm)
    for n in fs:
        if _BY[n][2]:
            _BY[n][1](sm)
    return sm


def with_internals(sm):
    """Code-only facets: enum internal values != names, python_names, a scalar with its own value type."""
    import copy

    sm = copy.deepcopy(sm)
    for t in sm["types"]:
        if t["kind"] == "enum":
            for i, v in enumerate(t["values"]):
                v["value"] = 10 * (i + 1)
        elif t["kind"] == "scalar":
            t["impl"] = "typed" if t["name"] == "Raw" else "date"
        for f in t.get("fields", []):
            if t["kind"] == "input":
                f["python_name"] = "py_" + f["name"]
            for a in f.get("args", []):
                a["python_name"] = "py_" + a["name"]
    for d in sm["directives"]:
        for a in d["args"]:
            a["python_name"] = "py_" + a["name"]
    return sm


def feature_sets(k, names=None):
    """Every subset of the CORE features with <= k elements (incompatible ones skipped), smallest first;
    each EXTRA feature (string / description content classes) alone and with each of its carriers (k >= 2)."""
    names = list(names) if names is not None else CORE_NAMES
    for r in range(0, k + 1):
        for combo in itertools.combinations(names, r):
            if compatible(combo):
                yield list(combo)
        if names is not CORE_NAMES and names != CORE_NAMES:
            continue
        if r == 1:
            for e in EXTRA:
                yield [e]
        elif r == 2:
            for e in EXTRA:
                for c in EXTRA[e]:
                    yield [c, e]


def selftest():
    from mc.ref.schema_model import sm_expected, sm_to_sdl

    n = 0
    for fs in feature_sets(1):
        sm = build_sm(fs)
        sm_expected(sm)
        sm_to_sdl(sm)
        n += 1
    assert n == len(FEATURE_NAMES) + 1, (n, len(FEATURE_NAMES))
    assert build_sm(["k:obj", "desc:one"]) == build_sm(["desc:one", "k:obj"])
