# -*- coding: utf-8 -*-
"""
Deterministic, simplest-first, *indexable* enumerator of derivations of the GraphQL grammar
(June 2018 Appendix B, executable and type-system dialects, plus two documented extensions:
constant directives on variable definitions; variable definitions on fragment definitions).

The grammar is data built from six combinators (token, constant, sequence, alternative, reference,
node); `count(dialect, n, depth)` and `unrank(dialect, n, depth, i)` give the number of derivations
with exactly n (non-Name) nodes and the i-th of them, so callers can shard by index without
materialising the corpus.  `realize(term, seed)` turns a derivation into

    tokens : list of (token class, lexeme)
    tree   : the EXPECTED tree, nested dicts in the vocabulary of py_gql's Node.to_dict()
             ("__kind__", slot names, decoded values), every node carrying "_tok" = (index of its first
             token, index of its last token).

Nothing here imports py_gql: the expectation is built from the derivation alone.

Leaf lexemes (names, scalar literals, descriptions, operation keywords, directive locations) are not
separate derivations -- that would multiply the corpus by ~10 per leaf without adding a shape --
they *rotate*: the k-th leaf of a document takes entry (seed + k) of its pool, so neighbouring
leaves always differ (order bugs are visible); running seeds 0..ROTATIONS-1 puts every literal
form at every leaf position and the lexeme inside a form advances with the derivation index
(`leaf_seed`).
"""
from mc.ref import strings as RS

# ----------------------------------------------------------------------------------------------
# derivation items


class Tok(object):
    __slots__ = ("cls", "text", "pool", "bind")

    def __init__(self, cls, text=None, pool=None, bind=None):
        self.cls, self.text, self.pool, self.bind = cls, text, pool, bind


class Term(object):
    __slots__ = ("kind", "fields", "items")

    def __init__(self, kind, fields, items):
        self.kind, self.fields, self.items = kind, fields, items


class Leaf(object):
    """a scalar literal / description whose concrete form is chosen at realisation time"""

    __slots__ = ("pool",)

    def __init__(self, pool):
        self.pool = pool


# ----------------------------------------------------------------------------------------------
# combinators


class E(object):
    def __init__(self):
        self._memo = {}

    def count(self, g, n, d):
        k = (n, d, g.key)
        v = self._memo.get(k)
        if v is None:
            v = self._memo[k] = self._count(g, n, d)
        return v


class T(E):
    def __init__(self, cls, text=None, pool=None, bind=None):
        E.__init__(self)
        self.a = (cls, text, pool, bind)

    def _count(self, g, n, d):
        return 1 if n == 0 else 0

    def get(self, g, n, d, i):
        return [Tok(*self.a)], {}


def P(text):
    return T("P", text)


def KW(text):
    return T("Name", text)


class C(E):
    def __init__(self, name, value):
        E.__init__(self)
        self.name, self.value = name, value

    def _count(self, g, n, d):
        return 1 if n == 0 else 0

    def get(self, g, n, d, i):
        return [], {self.name: self.value}


class LF(E):
    def __init__(self, pool):
        E.__init__(self)
        self.pool = pool

    def _count(self, g, n, d):
        return 1 if n == 1 else 0

    def get(self, g, n, d, i):
        return [Leaf(self.pool)], {}


class S(E):
    def __init__(self, *parts):
        E.__init__(self)
        self.parts = [(_lift(p)) for p in parts]
        self._m2 = {}

    def _from(self, g, j, n, d):
        if j == len(self.parts):
            return 1 if n == 0 else 0
        k = (j, n, d, g.key)
        v = self._m2.get(k)
        if v is None:
            v = 0
            p = self.parts[j]
            for m in range(n + 1):
                c = p.count(g, m, d)
                if c:
                    v += c * self._from(g, j + 1, n - m, d)
            self._m2[k] = v
        return v

    def _count(self, g, n, d):
        return self._from(g, 0, n, d)

    def get(self, g, n, d, i):
        items, binds = [], {}
        j = 0
        while j < len(self.parts):
            p = self.parts[j]
            for m in range(n + 1):
                c = p.count(g, m, d)
                if not c:
                    continue
                rest = self._from(g, j + 1, n - m, d)
                if i < c * rest:
                    a, i = divmod(i, rest)
                    it, bd = p.get(g, m, d, a)
                    items.extend(it)
                    binds.update(bd)
                    n -= m
                    break
                i -= c * rest
            else:
                raise IndexError("S.get out of range")
            j += 1
        return items, binds


class A(E):
    def __init__(self, *alts):
        E.__init__(self)
        self.alts = [_lift(a) for a in alts]

    def _count(self, g, n, d):
        return sum(a.count(g, n, d) for a in self.alts)

    def get(self, g, n, d, i):
        for a in self.alts:
            c = a.count(g, n, d)
            if i < c:
                return a.get(g, n, d, i)
            i -= c
        raise IndexError("A.get out of range")


class Ref(E):
    def __init__(self, name, dec=False):
        E.__init__(self)
        self.name, self.dec = name, dec

    def _count(self, g, n, d):
        if self.dec:
            if d == 0:
                return 0
            d -= 1
        return g.rules[self.name].count(g, n, d)

    def get(self, g, n, d, i):
        if self.dec:
            d -= 1
        return g.rules[self.name].get(g, n, d, i)


class N(E):
    def __init__(self, kind, body, cost=1):
        E.__init__(self)
        self.kind, self.body, self.cost = kind, _lift(body), cost

    def _count(self, g, n, d):
        return self.body.count(g, n - self.cost, d) if n >= self.cost else 0

    def get(self, g, n, d, i):
        items, binds = self.body.get(g, n - self.cost, d, i)
        return [Term(self.kind, binds, items)], {}


class B(E):
    """bind the single node produced by x to a slot of the enclosing node"""

    def __init__(self, name, x):
        E.__init__(self)
        self.name, self.x = name, _lift(x)

    def _count(self, g, n, d):
        return self.x.count(g, n, d)

    def get(self, g, n, d, i):
        items, binds = self.x.get(g, n, d, i)
        nodes = [x for x in items if not isinstance(x, Tok)]
        assert len(nodes) == 1 and not binds, (self.name, nodes, binds)
        return items, {self.name: nodes[0]}


class BL(E):
    """bind the list of nodes produced by x (in source order) to a list slot"""

    def __init__(self, name, x):
        E.__init__(self)
        self.name, self.x = name, _lift(x)

    def _count(self, g, n, d):
        return self.x.count(g, n, d)

    def get(self, g, n, d, i):
        items, binds = self.x.get(g, n, d, i)
        assert not binds
        return items, {self.name: [x for x in items if not isinstance(x, Tok)]}


def _lift(x):
    if isinstance(x, E):
        return x
    if isinstance(x, str):
        return Ref(x)
    raise TypeError(x)


EMPTY = S()


def Opt(x):
    return A(EMPTY, x)


def Rep(x, lo, hi, sep=None):
    alts = []
    for k in range(lo, hi + 1):
        parts = []
        for j in range(k):
            if j and sep is not None:
                parts.append(sep)
            parts.append(x)
        alts.append(S(*parts))
    return A(*alts)


# ----------------------------------------------------------------------------------------------
# the grammar

MAXLIST = 2


def _name(pool="any"):
    return N("Name", T("Name", pool=pool, bind="value"), cost=0)


def _build_rules(fragment_variables, type_system):
    R = {}
    name = _name()
    dirs = BL("directives", Rep(Ref("Directive"), 0, MAXLIST))
    dirs_c = BL("directives", Rep(Ref("DirectiveC"), 0, MAXLIST))
    dirs_c1 = BL("directives", Rep(Ref("DirectiveC"), 1, MAXLIST))
    desc = Opt(B("description", LF("desc")))
    vardefs = Opt(S(P("("), BL("variable_definitions", Rep(Ref("VariableDefinition"), 1, MAXLIST)), P(")")))

    R["NamedType"] = N("NamedType", B("name", _name("type")))
    R["ListType"] = N("ListType", S(P("["), B("type", Ref("Type", dec=True)), P("]")))
    R["NonNullType"] = N("NonNullType", S(B("type", A(Ref("NamedType"), Ref("ListType"))), P("!")))
    R["Type"] = A(Ref("NamedType"), Ref("ListType"), Ref("NonNullType"))

    R["Variable"] = N("Variable", S(P("$"), B("name", name)))
    for c in ("", "C"):
        inner = Ref("Value" + c, dec=True)
        R["ListValue" + c] = N("ListValue", S(P("["), BL("values", Rep(inner, 1, MAXLIST)), P("]")))
        R["ObjectField" + c] = N("ObjectField", S(B("name", name), P(":"), B("value", inner)))
        R["ObjectValue" + c] = N(
            "ObjectValue", S(P("{"), BL("fields", Rep(Ref("ObjectField" + c), 1, MAXLIST)), P("}"))
        )
        alts = [LF("value")] + ([Ref("Variable")] if not c else []) + [Ref("ListValue" + c), Ref("ObjectValue" + c)]
        R["Value" + c] = A(*alts)
        R["Argument" + c] = N("Argument", S(B("name", name), P(":"), B("value", Ref("Value" + c))))
        R["Directive" + c] = N(
            "Directive",
            S(
                P("@"),
                B("name", name),
                Opt(S(P("("), BL("arguments", Rep(Ref("Argument" + c), 1, MAXLIST)), P(")"))),
            ),
        )

    R["VariableDefinition"] = N(
        "VariableDefinition",
        S(
            B("variable", Ref("Variable")),
            P(":"),
            B("type", Ref("Type")),
            Opt(S(P("="), B("default_value", Ref("ValueC")))),
            dirs_c,
        ),
    )
    R["SelectionSet"] = N(
        "SelectionSet", S(P("{"), BL("selections", Rep(Ref("Selection"), 1, MAXLIST)), P("}"))
    )
    R["Selection"] = A(Ref("Field"), Ref("FragmentSpread"), Ref("InlineFragment"))
    R["Field"] = N(
        "Field",
        S(
            Opt(S(B("alias", name), P(":"))),
            B("name", name),
            Opt(S(P("("), BL("arguments", Rep(Ref("Argument"), 1, MAXLIST)), P(")"))),
            dirs,
            Opt(B("selection_set", Ref("SelectionSet", dec=True))),
        ),
    )
    R["FragmentSpread"] = N("FragmentSpread", S(T("Ellip", "..."), B("name", _name("frag")), dirs))
    R["InlineFragment"] = N(
        "InlineFragment",
        S(
            T("Ellip", "..."),
            Opt(S(KW("on"), B("type_condition", Ref("NamedType")))),
            dirs,
            B("selection_set", Ref("SelectionSet", dec=True)),
        ),
    )
    R["ShortOperation"] = N(
        "OperationDefinition", S(C("operation", "query"), B("selection_set", Ref("SelectionSet")))
    )
    R["FullOperation"] = N(
        "OperationDefinition",
        S(
            T("Name", pool="optype", bind="operation"),
            Opt(B("name", name)),
            vardefs,
            dirs,
            B("selection_set", Ref("SelectionSet")),
        ),
    )
    R["FragmentDefinition"] = N(
        "FragmentDefinition",
        S(
            KW("fragment"),
            B("name", _name("frag")),
            (vardefs if fragment_variables else EMPTY),
            KW("on"),
            B("type_condition", Ref("NamedType")),
            dirs,
            B("selection_set", Ref("SelectionSet")),
        ),
    )
    R["Executable"] = A(Ref("FullOperation"), Ref("FragmentDefinition"))

    if type_system:
        otds = S(P("{"), BL("operation_types", Rep(Ref("OperationTypeDefinition"), 1, MAXLIST)), P("}"))
        R["OperationTypeDefinition"] = N(
            "OperationTypeDefinition",
            S(T("Name", pool="optype", bind="operation"), P(":"), B("type", Ref("NamedType"))),
        )
        R["SchemaDefinition"] = N("SchemaDefinition", S(KW("schema"), dirs_c, otds))
        R["SchemaExtension"] = N(
            "SchemaExtension",
            A(S(KW("extend"), KW("schema"), dirs_c, otds), S(KW("extend"), KW("schema"), dirs_c1)),
        )
        implements = S(
            KW("implements"),
            Opt(P("&")),
            BL("interfaces", Rep(Ref("NamedType"), 1, MAXLIST, sep=P("&"))),
        )
        fields = S(P("{"), BL("fields", Rep(Ref("FieldDefinition"), 1, MAXLIST)), P("}"))
        in_fields = S(P("{"), BL("fields", Rep(Ref("InputValueDefinition"), 1, MAXLIST)), P("}"))
        values = S(P("{"), BL("values", Rep(Ref("EnumValueDefinition"), 1, MAXLIST)), P("}"))
        members = S(P("="), Opt(P("|")), BL("types", Rep(Ref("NamedType"), 1, MAXLIST, sep=P("|"))))
        argdefs = Opt(S(P("("), BL("arguments", Rep(Ref("InputValueDefinition"), 1, MAXLIST)), P(")")))
        R["FieldDefinition"] = N(
            "FieldDefinition", S(desc, B("name", name), argdefs, P(":"), B("type", Ref("Type")), dirs_c)
        )
        R["InputValueDefinition"] = N(
            "InputValueDefinition",
            S(
                desc,
                B("name", name),
                P(":"),
                B("type", Ref("Type")),
                Opt(S(P("="), B("default_value", Ref("ValueC")))),
                dirs_c,
            ),
        )
        R["EnumValueDefinition"] = N("EnumValueDefinition", S(desc, B("name", _name("enum")), dirs_c))
        tname = B("name", _name("type"))
        R["ScalarTypeDefinition"] = N("ScalarTypeDefinition", S(desc, KW("scalar"), tname, dirs_c))
        R["ObjectTypeDefinition"] = N(
            "ObjectTypeDefinition", S(desc, KW("type"), tname, Opt(implements), dirs_c, Opt(fields))
        )
        R["InterfaceTypeDefinition"] = N(
            "InterfaceTypeDefinition", S(desc, KW("interface"), tname, dirs_c, Opt(fields))
        )
        R["UnionTypeDefinition"] = N("UnionTypeDefinition", S(desc, KW("union"), tname, dirs_c, Opt(members)))
        R["EnumTypeDefinition"] = N("EnumTypeDefinition", S(desc, KW("enum"), tname, dirs_c, Opt(values)))
        R["InputObjectTypeDefinition"] = N(
            "InputObjectTypeDefinition", S(desc, KW("input"), tname, dirs_c, Opt(in_fields))
        )
        R["DirectiveDefinition"] = N(
            "DirectiveDefinition",
            S(
                desc,
                KW("directive"),
                P("@"),
                B("name", name),
                argdefs,
                KW("on"),
                Opt(P("|")),
                BL("locations", Rep(_name("loc"), 1, MAXLIST, sep=P("|"))),
            ),
        )
        ext = KW("extend")
        R["ScalarTypeExtension"] = N("ScalarTypeExtension", S(ext, KW("scalar"), tname, dirs_c1))
        R["ObjectTypeExtension"] = N(
            "ObjectTypeExtension",
            A(
                S(ext, KW("type"), tname, Opt(implements), dirs_c, fields),
                S(ext, KW("type"), tname, Opt(implements), dirs_c1),
                S(ext, KW("type"), tname, implements),
            ),
        )
        R["InterfaceTypeExtension"] = N(
            "InterfaceTypeExtension",
            A(S(ext, KW("interface"), tname, dirs_c, fields), S(ext, KW("interface"), tname, dirs_c1)),
        )
        R["UnionTypeExtension"] = N(
            "UnionTypeExtension",
            A(S(ext, KW("union"), tname, dirs_c, members), S(ext, KW("union"), tname, dirs_c1)),
        )
        R["EnumTypeExtension"] = N(
            "EnumTypeExtension",
            A(S(ext, KW("enum"), tname, dirs_c, values), S(ext, KW("enum"), tname, dirs_c1)),
        )
        R["InputObjectTypeExtension"] = N(
            "InputObjectTypeExtension",
            A(S(ext, KW("input"), tname, dirs_c, in_fields), S(ext, KW("input"), tname, dirs_c1)),
        )
        R["TypeSystem"] = A(
            *[
                Ref(k)
                for k in (
                    "ScalarTypeDefinition",
                    "ObjectTypeDefinition",
                    "InterfaceTypeDefinition",
                    "UnionTypeDefinition",
                    "EnumTypeDefinition",
                    "InputObjectTypeDefinition",
                    "SchemaDefinition",
                    "DirectiveDefinition",
                    "ScalarTypeExtension",
                    "ObjectTypeExtension",
                    "InterfaceTypeExtension",
                    "UnionTypeExtension",
                    "EnumTypeExtension",
                    "InputObjectTypeExtension",
                    "SchemaExtension",
                )
            ]
        )
        # a shorthand operation may only come first: `type A {a}` / `extend schema @d {a}` would
        # otherwise be ambiguous in the grammar itself
        R["Document"] = N(
            "Document",
            BL(
                "definitions",
                A(
                    S(Ref("TypeSystem")),
                    S(Ref("TypeSystem"), Ref("TypeSystem")),
                    S(Ref("TypeSystem"), Ref("Executable")),
                    S(A(Ref("ShortOperation"), Ref("Executable")), Ref("TypeSystem")),
                ),
            ),
            cost=0,
        )
    else:
        R["Document"] = N(
            "Document",
            BL(
                "definitions",
                A(
                    S(A(Ref("ShortOperation"), Ref("Executable"))),
                    S(A(Ref("ShortOperation"), Ref("Executable")), Ref("Executable")),
                ),
            ),
            cost=0,
        )
    return R


class Grammar(object):
    def __init__(self, key, fragment_variables, type_system):
        self.key = key
        self.fragment_variables = fragment_variables
        self.type_system = type_system
        self.rules = _build_rules(fragment_variables, type_system)


#   exec      executable documents (June 2018 + const directives on variable definitions)
#   fragvars  the same with variable definitions on fragment definitions (experimental flag on)
#   sdl       type-system documents (optionally mixed with one executable definition)
DIALECTS = {
    "exec": Grammar("exec", False, False),
    "fragvars": Grammar("fragvars", True, False),
    "sdl": Grammar("sdl", False, True),
}


def parser_flags(dialect):
    """keyword arguments the parser needs to accept this dialect"""
    return {
        "exec": {},
        "fragvars": {"experimental_fragment_variables": True},
        "sdl": {"allow_type_system": True},
    }[dialect]


def count(dialect, n, depth, start="Document"):
    g = DIALECTS[dialect]
    return g.rules[start].count(g, n, depth)


def unrank(dialect, n, depth, i, start="Document"):
    g = DIALECTS[dialect]
    items, _ = g.rules[start].get(g, n, depth, i)
    assert len(items) == 1
    return items[0]


# ----------------------------------------------------------------------------------------------
# vocabulary of Node.to_dict(): every slot of every kind with the value it has when the source does
# not mention it (read off py_gql/lang/ast.py constructors; `loc` is added by the layout)

DEFAULTS = {
    "Name": {},
    "Document": {"definitions": []},
    "OperationDefinition": {"name": None, "variable_definitions": [], "directives": []},
    "FragmentDefinition": {"variable_definitions": [], "directives": []},
    "VariableDefinition": {"default_value": None, "directives": []},
    "Variable": {},
    "SelectionSet": {},
    "Field": {"alias": None, "arguments": [], "directives": [], "selection_set": None},
    "Argument": {},
    "FragmentSpread": {"directives": []},
    "InlineFragment": {"type_condition": None, "directives": []},
    "IntValue": {},
    "FloatValue": {},
    "StringValue": {},
    "BooleanValue": {},
    "NullValue": {},
    "EnumValue": {},
    "ListValue": {"values": []},
    "ObjectValue": {"fields": []},
    "ObjectField": {},
    "Directive": {"arguments": []},
    "NamedType": {},
    "ListType": {},
    "NonNullType": {},
    "SchemaDefinition": {"directives": [], "operation_types": []},
    "SchemaExtension": {"directives": [], "operation_types": []},
    "OperationTypeDefinition": {},
    "ScalarTypeDefinition": {"description": None, "directives": []},
    "ScalarTypeExtension": {"directives": []},
    "ObjectTypeDefinition": {"description": None, "interfaces": [], "directives": [], "fields": []},
    "ObjectTypeExtension": {"interfaces": [], "directives": [], "fields": []},
    "InterfaceTypeDefinition": {"description": None, "directives": [], "fields": []},
    "InterfaceTypeExtension": {"directives": [], "fields": []},
    "UnionTypeDefinition": {"description": None, "directives": [], "types": []},
    "UnionTypeExtension": {"directives": [], "types": []},
    "EnumTypeDefinition": {"description": None, "directives": [], "values": []},
    "EnumTypeExtension": {"directives": [], "values": []},
    "InputObjectTypeDefinition": {"description": None, "directives": [], "fields": []},
    "InputObjectTypeExtension": {"directives": [], "fields": []},
    "FieldDefinition": {"description": None, "arguments": [], "directives": []},
    "InputValueDefinition": {"description": None, "default_value": None, "directives": []},
    "EnumValueDefinition": {"description": None, "directives": []},
    "DirectiveDefinition": {"description": None, "arguments": [], "locations": []},
}

# ----------------------------------------------------------------------------------------------
# leaf pools

NAME_POOLS = {
    # every keyword the parser dispatches on is a legal Name in these positions
    "any": ["a", "b", "on", "query", "c_1", "type", "true", "fooBar", "fragment", "null", "implements", "_", "snake_case", "extend", "input", "Z9"],
    "frag": ["F", "G", "query", "fragment", "true", "type", "H_2"],  # FragmentName: Name but not `on`
    "type": ["T", "U", "Int", "on", "query", "implements", "type", "extend", "V"],
    "enum": ["A", "B", "on", "query", "type", "extend", "RED"],  # EnumValue: Name but not true/false/null
    "optype": ["query", "mutation", "subscription"],
    "loc": [
        "QUERY", "FIELD_DEFINITION", "MUTATION", "SUBSCRIPTION", "FIELD", "FRAGMENT_DEFINITION",
        "FRAGMENT_SPREAD", "INLINE_FRAGMENT", "VARIABLE_DEFINITION", "SCHEMA", "SCALAR", "OBJECT",
        "ARGUMENT_DEFINITION", "INTERFACE", "UNION", "ENUM", "ENUM_VALUE", "INPUT_OBJECT",
        "INPUT_FIELD_DEFINITION",
    ],
}

INTS = ["0", "1", "-0", "-12", "9007199254740993", "10"]
FLOATS = ["1.5", "-0.0", "1e3", "1E-2", "0.10e+10", "-12.50E1", "0e0"]
ENUMS = ["RED", "on", "query", "type", "x"]
# raw bodies (between the quotes), values come from ref/strings.py
QUOTED = ["", "a", "\\u00e9\\n\\\"\\\\", "é 😀", "#not,a comment", " lead", "\\ud83d\\ude00\\/\\b\\f\\r\\t", "\\u000A", "}"]
BLOCKS = ["", "a", "\n  a\n   b\n", ' \\""" x', "a\r\n  b\r  c", "  lead", '"" x', "\n\n\tx\n\n", "é😀 \\n"]

VALUE_FORMS = ["Int", "Float", "String", "Block", "true", "false", "null", "Enum", "EmptyList", "EmptyObject"]
DESC_FORMS = ["String", "Block"]

# number of consecutive seeds after which every literal FORM has been at every leaf position
ROTATIONS = len(VALUE_FORMS)


def leaf_seed(i, s=0):
    """
    seed for rotation s of derivation i: the form of the k-th leaf is (s + k) mod ROTATIONS, its lexeme
    index advances with the derivation index, so over the corpus every lexeme of every pool occurs in
    every position although one derivation only sees ROTATIONS of them.
    """
    return s + ROTATIONS * i


def _leaf(pool, k):
    """-> Term for the k-th rotation of a leaf of this pool"""
    forms = VALUE_FORMS if pool == "value" else DESC_FORMS
    form = forms[k % len(forms)]
    j = k // len(forms)  # lexeme index: advances once per full cycle of forms (see leaf_seed)
    if form == "Int":
        return Term("IntValue", {}, [Tok("Int", INTS[j % len(INTS)], bind="value")])
    if form == "Float":
        return Term("FloatValue", {}, [Tok("Float", FLOATS[j % len(FLOATS)], bind="value")])
    if form == "Enum":
        return Term("EnumValue", {}, [Tok("Name", ENUMS[j % len(ENUMS)], bind="value")])
    if form == "String":
        body = QUOTED[j % len(QUOTED)]
        v = RS.decode_quoted(body)
        assert v is not None
        return Term("StringValue", {"value": v, "block": False}, [Tok("String", '"' + body + '"')])
    if form == "Block":
        body = BLOCKS[j % len(BLOCKS)]
        v = RS.decode_block(body)
        assert v is not None
        return Term("StringValue", {"value": v, "block": True}, [Tok("BlockString", '"""' + body + '"""')])
    if form in ("true", "false"):
        return Term("BooleanValue", {"value": form == "true"}, [Tok("Name", form)])
    if form == "null":
        return Term("NullValue", {}, [Tok("Name", "null")])
    if form == "EmptyList":
        return Term("ListValue", {"values": []}, [Tok("P", "["), Tok("P", "]")])
    if form == "EmptyObject":
        return Term("ObjectValue", {"fields": []}, [Tok("P", "{"), Tok("P", "}")])
    raise ValueError(form)


def realize(term, seed=0, strings=None):
    """
    -> (tokens, tree).  `strings`: optional override, a function (ordinal, block_hint) -> (block, body) or
    None giving the raw string token for the k-th *string-capable* leaf (used by C03 to put every
    string content at every position that can hold a string).
    """
    tokens = []
    ctr = {"name": 0, "leaf": 0}

    def do(x):
        if isinstance(x, Leaf):
            k = ctr["leaf"]
            ctr["leaf"] += 1
            t = None
            if strings is not None:
                ov = strings(k, x.pool)
                if ov is not None:
                    block, body = ov
                    v = RS.decode_block(body) if block else RS.decode_quoted(body)
                    assert v is not None, (block, body)
                    q = '"""' if block else '"'
                    t = Term(
                        "StringValue",
                        {"value": v, "block": bool(block)},
                        [Tok("BlockString" if block else "String", q + body + q)],
                    )
            if t is None:
                t = _leaf(x.pool, seed + k)
            return do(t)
        start = len(tokens)
        d = {"__kind__": x.kind}
        d.update({k: (list(v) if isinstance(v, list) else v) for k, v in DEFAULTS[x.kind].items()})
        made = {}
        for it in x.items:
            if isinstance(it, Tok):
                text = it.text
                if text is None:
                    pool = NAME_POOLS[it.pool]
                    text = pool[(seed + ctr["name"]) % len(pool)]
                    ctr["name"] += 1
                tokens.append((it.cls, text))
                if it.bind:
                    d[it.bind] = text
            else:
                made[id(it)] = do(it)
        for k, v in x.fields.items():
            if isinstance(v, (Term, Leaf)):
                d[k] = made[id(v)]
            elif isinstance(v, list):
                d[k] = [made[id(e)] for e in v]
            else:
                d[k] = v
        d["_tok"] = (start, len(tokens) - 1)
        return d

    tree = do(term)
    return tokens, tree


def leaf_pools(term):
    """pools of the leaves of a derivation in realisation order (value / desc)"""
    out = []

    def rec(x):
        if isinstance(x, Leaf):
            out.append(x.pool)
        elif isinstance(x, Term):
            for it in x.items:
                rec(it)

    rec(term)
    return out


def walk(tree, path=()):
    """yield (path, node dict) for every node of an expected tree, pre-order, slots in dict order"""
    yield path, tree
    for k, v in tree.items():
        if k == "_tok":
            continue
        if isinstance(v, dict):
            for x in walk(v, path + (k,)):
                yield x
        elif isinstance(v, list):
            for i, e in enumerate(v):
                if isinstance(e, dict):
                    for x in walk(e, path + (k, i)):
                        yield x


# ----------------------------------------------------------------------------------------------
# structured block-string bodies: lines indented with DIFFERENT mixes of space and tab (the raw character
# enumeration of C02 is too short to hold two such lines)

BLOCK_INDENTS = ["", " ", "  ", "\t", "\t\t", " \t", "\t ", "   "]
BLOCK_FIRST = ["", "x", " x"]
BLOCK_TERMS = ["\n", "\r\n", "\r"]
BLOCK_BETWEEN = [None, "", " \t"]  # nothing / an empty line / a whitespace-only line between content lines 1 and 2
BLOCK_TRAIL = ["", "T", "T  "]  # nothing / a final terminator / terminator + whitespace-only last line (T = terminator)


def block_family(first, k, term, between=BLOCK_BETWEEN, trail=BLOCK_TRAIL):
    """raw bodies: `first` line, then k content lines `<indent><letter>` with every combination of BLOCK_INDENTS"""
    import itertools

    letters = "abc"
    for combo in itertools.product(BLOCK_INDENTS, repeat=k):
        lines = [ind + letters[i] for i, ind in enumerate(combo)]
        for bt in between:
            mid = list(lines)
            if bt is not None:
                mid.insert(1, bt)
            core = term.join([first] + mid)
            for tr in trail:
                yield core + tr.replace("T", term)


def selftest():
    assert RS.decode_block("\n  a\n\t\tb\n") == "a\nb"
    assert RS.decode_block("x\r\n \ta\r\n\t b\r\n   c") == "x\na\nb\n c"
    assert len(list(block_family("", 2, "\n"))) == 64 * 9
    for body in QUOTED:
        assert RS.decode_quoted(body) is not None, body
    for body in BLOCKS:
        assert RS.decode_block(body) is not None, body
    # counts are stable and unrank is a bijection onto distinct token sequences (small sizes)
    for dialect in DIALECTS:
        seen = set()
        for n in range(1, 6):
            c = count(dialect, n, 3)
            for i in range(c):
                toks, tree = realize(unrank(dialect, n, 3, i), 0)
                assert tree["__kind__"] == "Document"
                nn = sum(1 for _, nd in walk(tree) if nd["__kind__"] not in ("Name", "Document"))
                assert nn == n, (dialect, n, i, nn)
                key = tuple(toks)
                assert key not in seen, (dialect, n, i, toks)
                seen.add(key)
    toks, tree = realize(unrank("exec", 3, 3, 0), 0)
    assert [t for _, t in toks] == ["{", "a", "}"], toks
