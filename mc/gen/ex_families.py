# -*- coding: utf-8 -*-
"""
Small dedicated document families for C05 / C06 (each targets one rule facet exhaustively):

    shape_docs()               return-type SHAPE conflicts in mutually exclusive fragments over the
                               wrapper set {T, T!, [T], [T!], [T]!, [[T]]}: all 21 unordered pairs
    argument_order_docs()      one field selected twice with 2-3 arguments in different orders (valid)
    directive_location_docs()  8 directives (one per executable location) x 9 placements

Each yields (schema name, tag, label, case): label None = valid by construction, otherwise the rule
class the document violates (and only that one).
"""
import itertools

from . import ex_schemas as S
from . import operations as O
from .worlds import OMIT

F, I, SP, mkop, mkdoc = O.F, O.I, O.SP, O.mkop, O.mkdoc

SHAPE_WRAPPERS = [("t", "Int"), ("tn", "Int!"), ("l", "[Int]"), ("ln", "[Int!]"), ("nl", "[Int]!"), ("ll", "[[Int]]")]


# composite-typed fields of the same objects: leaf vs composite (always a conflict, whatever the wrapping) and
# composite vs composite (a conflict iff the wrapping differs)
SHAPE_COMPOSITES = [("o", "Node"), ("ol", "[Node]"), ("u", "Shape")]


def _schema_r():
    fields = {n: S._f(t) for n, t in SHAPE_WRAPPERS + SHAPE_COMPOSITES}
    return {
        "name": "R",
        "query": "Query",
        "mutation": None,
        "subscription": None,
        "types": {
            "Query": {"kind": "object", "interfaces": [], "fields": {"any": S._f("Shape"), "anys": S._f("[Shape]"), "node": S._f("Node")}},
            "Shape": {"kind": "union", "members": ["A", "B"]},
            "Node": {"kind": "interface", "fields": {"t": S._f("Int")}},
            "A": {"kind": "object", "interfaces": ["Node"], "fields": dict(fields)},
            "B": {"kind": "object", "interfaces": ["Node"], "fields": dict(fields)},
        },
    }


S.SCHEMA_R = _schema_r()
S.SCHEMAS["R"] = S.SCHEMA_R


def shape_docs():
    for (fa, ta), (fb, tb) in itertools.combinations_with_replacement(SHAPE_WRAPPERS, 2):
        label = None if ta == tb else "OverlappingFieldsCanBeMergedChecker"
        pair = "%s-vs-%s" % (ta, tb)
        for parent in ("any", "anys", "node"):
            for order in ((("A", fa), ("B", fb)), (("B", fb), ("A", fa))):
                if order[0][1] == order[1][1] and order[0][0] == "B":
                    continue
                sels = [I(tn, [F(fn, alias="x")]) for tn, fn in order]
                yield "R", "shape:inline:%s:%s:%s-first" % (parent, pair, order[0][0]), label, {"doc": mkdoc(mkop([F(parent, sels)])), "vars": {}}
        # through named fragments (multi-letter names), list parent
        frags = [["OnA", "A", [], [F(fa, alias="x")]], ["OnB", "B", [], [F(fb, alias="x")]]]
        yield "R", "shape:spreads:anys:%s" % pair, label, {"doc": mkdoc(mkop([F("anys", [SP("OnA"), SP("OnB")])]), frags), "vars": {}}
    # leaf vs composite and composite vs composite under one response name, parents mutually exclusive
    sub = lambda: [I("A", [F("t")]), I("B", [F("t")])]  # noqa: E731

    def fld(fn, leaf):
        return F(fn, alias="x") if leaf else F(fn, sub(), alias="x")

    sides = [(fn, tn, True) for fn, tn in SHAPE_WRAPPERS[:3]] + [(fn, tn, False) for fn, tn in SHAPE_COMPOSITES]
    for (fa, ta, la), (fb, tb, lb) in itertools.combinations_with_replacement(sides, 2):
        if la and lb:
            continue
        if la != lb:
            label = "OverlappingFieldsCanBeMergedChecker"
        else:
            # two composites: same wrapping = mergeable (the named types may differ), else a shape conflict
            label = None if ta.count("[") == tb.count("[") else "OverlappingFieldsCanBeMergedChecker"
        pair = "%s-vs-%s" % (ta, tb)
        for parent in ("any", "anys"):
            for order in ((("A", fa, la), ("B", fb, lb)), (("B", fb, lb), ("A", fa, la))):
                if order[0][1] == order[1][1] and order[0][0] == "B":
                    continue
                sels = [I(tn, [fld(fn, leaf)]) for tn, fn, leaf in order]
                yield "R", "shape:leaf-composite:%s:%s:%s-first" % (parent, pair, order[0][0]), label, {"doc": mkdoc(mkop([F(parent, sels)])), "vars": {}}


def argument_order_docs():
    """schema C: echo(i, s, e, ...) selected twice, arguments in different orders -- all valid"""
    a3 = [("i", "1"), ("s", '"a"'), ("e", "RED")]
    a2 = a3[:2]

    def echo(pairs, alias=None):
        return F("echo", alias=alias, args=dict(pairs))

    for n, args in (("two", a2), ("three", a3)):
        for k, perm in enumerate(itertools.permutations(args)):
            if k == 0:
                continue
            p = list(perm)
            tagp = "-".join(x for x, _ in p)
            yield "C", "argument-order:direct:%s:%s" % (n, tagp), None, {"doc": mkdoc(mkop([echo(args), echo(p)])), "vars": {}}
            yield "C", "argument-order:aliased:%s:%s" % (n, tagp), None, {"doc": mkdoc(mkop([echo(args, "x"), F("c"), echo(p, "x")])), "vars": {}}
        p = list(reversed(args))
        yield "C", "argument-order:inline:%s" % n, None, {"doc": mkdoc(mkop([echo(args), I(None, [echo(p)]), I("Q", [echo(args)])])), "vars": {}}
        yield "C", "argument-order:fragments:%s" % n, None, {"doc": mkdoc(mkop([SP("One"), SP("Other")]), [["One", "Q", [], [echo(args)]], ["Other", "Q", [], [echo(p)]]]), "vars": {}}
        yield "C", "argument-order:nested:%s" % n, None, {
            "doc": mkdoc(mkop([F("box", [echo([("i", "1"), ("e", "RED")])], args={"id": '"b"'}), F("box", [echo([("e", "RED"), ("i", "1")])], args={"id": '"b"'})])),
            "vars": {},
        }
    # a variable among the arguments
    yield "C", "argument-order:variable", None, {
        "doc": mkdoc(mkop([echo([("i", "$v"), ("s", '"a"')]), echo([("s", '"a"'), ("i", "$v")])], vars_=[["v", "Int", None]])),
        "vars": {"v": [OMIT, 1]},
    }


DIRECTIVE_LOCATIONS = S.DIRECTIVE_LOCATIONS


def _placements(dname):
    d = [[dname, {}]]
    frag = lambda dirs=None: [["Fr", "Q", dirs or [], [F("c")]]]  # noqa: E731
    return [
        ("QUERY", mkdoc(mkop([F("c")], name="Q1", dirs=d))),
        ("MUTATION", mkdoc(mkop([F("inc")], kind="mutation", name="M1", dirs=d))),
        ("SUBSCRIPTION", mkdoc(mkop([F("tick")], kind="subscription", name="S1", dirs=d))),
        ("FIELD", mkdoc(mkop([F("c", dirs=d)]))),
        ("FRAGMENT_DEFINITION", mkdoc(mkop([SP("Fr")]), frag(d))),
        ("FRAGMENT_SPREAD", mkdoc(mkop([SP("Fr", dirs=d)]), frag())),
        ("INLINE_FRAGMENT", mkdoc(mkop([I(None, [F("c")], dirs=d)]))),
        ("INLINE_FRAGMENT", mkdoc(mkop([I("Q", [F("c")], dirs=d)]))),
        ("VARIABLE_DEFINITION", mkdoc(mkop([F("echo", args={"i": "$v"})], vars_=[["v", "Int @%s" % dname, None]]))),
    ]


def directive_location_docs():
    import copy

    for dname, dloc in DIRECTIVE_LOCATIONS:
        for k, (ploc, doc) in enumerate(_placements(dname)):
            label = None if ploc == dloc else "KnownDirectivesChecker"
            typed = ":typed" if k == 7 else ""
            yield "C", "directive-location:%s:%s%s" % (dname, ploc, typed), label, {"doc": copy.deepcopy(doc), "vars": {}}


FAMILIES = {
    "shape": shape_docs,
    "argument-order": argument_order_docs,
    "directive-location": directive_location_docs,
}


# ---------------------------------------------------------------------------------------------
# merged parent fields whose CHILD selections conflict, each side reached directly / through an inline
# fragment / a named spread / a spread nested two levels: all 16 side combinations, both orders


def _side(style, child, ptype, frags, prefix):
    import copy

    child = copy.deepcopy(child)
    if style == "direct":
        return [child]
    if style == "inline":
        return [I(None, [child])]
    if style == "spread":
        frags.append([prefix + "Side", ptype, [], [child]])
        return [SP(prefix + "Side")]
    frags.append([prefix + "Outer", ptype, [], [SP(prefix + "Inner")]])
    frags.append([prefix + "Inner", ptype, [], [child]])
    return [SP(prefix + "Outer")]


SIDE_STYLES = ["direct", "inline", "spread", "nested"]


def merged_parent_docs():
    import copy

    kinds = [
        # (tag, schema, root type, parent field + args, child type, child A, child B, label)
        ("different-fields", "C", "Q", ("box", {"id": '"b"'}), "Box", F("v", alias="k"), F("echo", alias="k"), "OverlappingFieldsCanBeMergedChecker"),
        ("different-arguments", "C", "Q", ("box", {"id": '"b"'}), "Box", F("echo", args={"i": "1"}), F("echo", args={"i": "2"}), "OverlappingFieldsCanBeMergedChecker"),
        ("return-shape", "R", "Query", ("node", {}), "Node", I("A", [F("l", alias="x")]), I("B", [F("ll", alias="x")]), "OverlappingFieldsCanBeMergedChecker"),
        ("same-field", "C", "Q", ("box", {"id": '"b"'}), "Box", F("v", alias="k"), F("v", alias="k"), None),
        ("same-arguments", "C", "Q", ("box", {"id": '"b"'}), "Box", F("echo", args={"i": "1", "e": "RED"}), F("echo", args={"e": "RED", "i": "1"}), None),
        ("same-shape", "R", "Query", ("node", {}), "Node", I("A", [F("l", alias="x")]), I("B", [F("l", alias="x")]), None),
    ]
    for tag, schema, root, (pf, pargs), ctype, ca, cb, label in kinds:
        forms = ["direct", "aliased", "one-in-fragment", "three-parents"] if tag in ("different-fields", "same-field") else ["direct"]
        for form in forms:
            for sa in SIDE_STYLES:
                for sb in SIDE_STYLES:
                    for order in ("ab", "ba"):
                        frags = []
                        first, second = (ca, cb) if order == "ab" else (cb, ca)
                        s1 = _side(sa, first, ctype, frags, "Left")
                        s2 = _side(sb, second, ctype, frags, "Right")
                        alias = "p" if form == "aliased" else None
                        p1 = F(pf, s1, alias=alias, args=dict(pargs))
                        p2 = F(pf, s2, alias=alias, args=dict(pargs))
                        sels = [p1, p2]
                        if form == "one-in-fragment":
                            frags.append(["Holder", root, [], [p2]])
                            sels = [p1, SP("Holder")]
                        elif form == "three-parents":
                            neutral = F(pf, [F("__typename")], args=dict(pargs))
                            sels = [p1, neutral, p2]
                        yield schema, "merged-parents:%s:%s:%s-%s:%s" % (tag, form, sa, sb, order), label, {"doc": mkdoc(mkop(copy.deepcopy(sels)), frags), "vars": {}}


FAMILIES["merged-parents"] = merged_parent_docs


# ---------------------------------------------------------------------------------------------
# ONE nullable variable used at TWO positions of the same non-null type, exactly one of which has a
# default value: the usage at the position without default must be refused, whatever the order


def two_usage_docs():
    VIAP = "VariablesInAllowedPositionChecker"

    def doc(sels, vtype, vdefault=None):
        return {"doc": mkdoc(mkop(sels, vars_=[["v", vtype, vdefault]])), "vars": {"v": [OMIT]}}

    shapes = {
        # two arguments of one field: a has a default, b has none
        "arguments:default-first": lambda: [F("pair", args={"a": "$v", "b": "$v"})],
        "arguments:default-last": lambda: [F("pair", args={"b": "$v", "a": "$v"})],
        # two selections (one argument each)
        "selections:default-first": lambda: [F("scalar_d1", alias="x", args={"x": "$v"}), F("scalar_a1", alias="y", args={"x": "$v"})],
        "selections:default-last": lambda: [F("scalar_a1", alias="y", args={"x": "$v"}), F("scalar_d1", alias="x", args={"x": "$v"})],
        # the same field twice (merged), through a fragment
        "fragment:default-first": lambda: [F("scalar_d1", args={"x": "$v"}), SP("Use")],
        "fragment:default-last": lambda: [SP("Use"), F("scalar_d1", args={"x": "$v"})],
        # two fields of one input object
        "input-fields:default-first": lambda: [F("pairobj", args={"x": "{a: $v, b: $v}"})],
        "input-fields:default-last": lambda: [F("pairobj", args={"x": "{b: $v, a: $v}"})],
        # two input objects in two selections
        "input-objects:default-first": lambda: [F("obj_d1", alias="x", args={"x": "{f: $v}"}), F("obj_a1", alias="y", args={"x": "{f: $v}"})],
        "input-objects:default-last": lambda: [F("obj_a1", alias="y", args={"x": "{f: $v}"}), F("obj_d1", alias="x", args={"x": "{f: $v}"})],
    }
    for tag, mk in shapes.items():
        frags = [["Use", "Query", [], [F("scalar_a1", args={"x": "$v"})]]] if tag.startswith("fragment") else []
        for vtag, vtype, vdef, label in (
            ("nullable", "Int", None, VIAP),            # refused at the position without default
            ("nullable-null-default", "Int", "null", VIAP),
            ("non-null", "Int!", None, None),           # fine at both
            ("nullable-with-default", "Int", "3", None),  # a non-null variable default excuses both
        ):
            c = doc(mk(), vtype, vdef)
            c["doc"]["frags"] = [list(f) for f in frags]
            yield "W", "two-usages:%s:%s" % (tag, vtag), label, c
    # a field argument with a default and a directive argument without one (same printed type Boolean!)
    for order in ("default-first", "default-last"):
        for dname in ("skip", "include"):
            for vtag, vtype, vdef, label in (("nullable", "Boolean", None, VIAP), ("nullable-null-default", "Boolean", "null", VIAP), ("non-null", "Boolean!", None, None), ("nullable-with-default", "Boolean", "true", None)):
                sels = [F("flagged", args={"flag": "$v"}), F("plain", dirs=[[dname, {"if": "$v"}]])]
                if order == "default-last":
                    sels.reverse()
                yield "W", "two-usages:directive-%s:%s:%s" % (dname, order, vtag), label, doc(sels, vtype, vdef)
                sels = [F("flagged", args={"flag": "$v"}), SP("Cond")] if order == "default-first" else [SP("Cond"), F("flagged", args={"flag": "$v"})]
                c = doc(sels, vtype, vdef)
                c["doc"]["frags"] = [["Cond", "Query", [], [I(None, [F("plain")], dirs=[[dname, {"if": "$v"}]])]]]
                yield "W", "two-usages:directive-%s-in-fragment:%s:%s" % (dname, order, vtag), label, c
    # only the defaulted position uses the variable: valid
    yield "W", "two-usages:only-defaulted-position:nullable", None, doc([F("pair", args={"a": "$v", "b": "1"})], "Int")
    yield "W", "two-usages:only-defaulted-position:input-field", None, doc([F("pairobj", args={"x": "{a: $v, b: 1}"})], "Int")


FAMILIES["two-usages"] = two_usage_docs


# ---------------------------------------------------------------------------------------------
# ONE fragment using $v, spread (directly or through another fragment) by TWO or THREE operations that each
# declare $v with their own type: every operation is judged on its own, whatever came earlier in the document


def shared_fragment_variable_docs():
    VIAP = "VariablesInAllowedPositionChecker"
    decls = [("nonnull", "Int!", None, True), ("nullable", "Int", None, False), ("other-type", "String!", None, False), ("nullable-default", "Int", "3", True)]
    for form in ("direct", "nested"):
        if form == "direct":
            frags = [["Use", "Query", [], [F("scalar_a1", args={"x": "$v"})]]]
        else:
            frags = [["Outer", "Query", [], [F("plain"), SP("Use")]], ["Use", "Query", [], [F("scalar_a1", args={"x": "$v"})]]]
        top = "Use" if form == "direct" else "Outer"
        for n in (2, 3):
            for combo in itertools.product(decls, repeat=n):
                if n == 3 and len({c[0] for c in combo}) < 2:
                    continue
                ops = [mkop([SP(top)], name="Op%s" % "ABC"[i], vars_=[["v", t, d]]) for i, (_n, t, d, _ok) in enumerate(combo)]
                label = None if all(c[3] for c in combo) else VIAP
                tag = "shared-fragment-variable:%s:%s" % (form, "+".join(c[0] for c in combo))
                yield "W", tag, label, {"doc": mkdoc(ops, [list(f) for f in frags]), "vars": {"v": [1]}}


FAMILIES["shared-fragment-variable"] = shared_fragment_variable_docs
