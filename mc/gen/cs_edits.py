# -*- coding: utf-8 -*-
"""
cs_edits -- elementary edits of a schema model (cs_model) at every applicable position.

    single_edits(sm)        deterministic list of JSON-able edit descriptors, simplest kinds first
    apply_edit(sm, edit)    -> edited deep copy, or None when the edit is not applicable (any more)
    apply_edits(sm, edits)  -> edited copy or None
    edit_kind(edit)         short mechanical name of the edit

Positions: ["field", T, f] | ["arg", T, f, a] | ["input-field", T, f] | ["directive-arg", d, a]
           | ["enum-value", T, v]

Whether the edited model is still a valid schema is NOT decided here (e.g. removing a field an
interface demands): the checks build it and skip pairs the real validator rejects, counting them.
"""
import copy

from mc.ref import cs_model as M

ADDED = "added"  # name of added members; no base uses it


def get_pos(sm, pos):
    k = pos[0]
    if k == "directive-arg":
        for d in sm.get("directives") or ():
            if d["name"] == pos[1]:
                for a in d.get("args") or ():
                    if a["name"] == pos[2]:
                        return a
        return None
    t = M.get_type(sm, pos[1])
    if t is None:
        return None
    if k in ("field", "arg"):
        if t["kind"] not in ("object", "interface"):
            return None
        for f in t.get("fields") or ():
            if f["name"] == pos[2]:
                if k == "field":
                    return f
                for a in f.get("args") or ():
                    if a["name"] == pos[3]:
                        return a
        return None
    if k == "input-field":
        if t["kind"] != "input":
            return None
        for f in t.get("fields") or ():
            if f["name"] == pos[2]:
                return f
        return None
    if k == "enum-value":
        if t["kind"] != "enum":
            return None
        for v in t.get("values") or ():
            if v["name"] == pos[2]:
                return v
        return None
    raise ValueError(pos)


def positions(sm, kinds=("field", "arg", "input-field", "directive-arg")):
    out = []
    for t in sm["types"]:
        if t["kind"] in ("object", "interface"):
            for f in t.get("fields") or ():
                if "field" in kinds:
                    out.append(["field", t["name"], f["name"]])
                if "arg" in kinds:
                    for a in f.get("args") or ():
                        out.append(["arg", t["name"], f["name"], a["name"]])
        elif t["kind"] == "input" and "input-field" in kinds:
            for f in t.get("fields") or ():
                out.append(["input-field", t["name"], f["name"]])
        elif t["kind"] == "enum" and "enum-value" in kinds:
            for v in t.get("values") or ():
                out.append(["enum-value", t["name"], v["name"]])
    if "directive-arg" in kinds:
        for d in sm.get("directives") or ():
            for a in d.get("args") or ():
                out.append(["directive-arg", d["name"], a["name"]])
    return out


def referenced(sm, name):
    for t in sm["types"]:
        for f in t.get("fields") or ():
            if M.named(f["type"]) == name:
                return True
            for a in f.get("args") or ():
                if M.named(a["type"]) == name:
                    return True
        if name in (t.get("interfaces") or ()) or name in (t.get("members") or ()):
            return True
    for d in sm.get("directives") or ():
        for a in d.get("args") or ():
            if M.named(a["type"]) == name:
                return True
    return name in (sm.get("roots") or {}).values()


def new_typedef(kind, name, sm):
    if kind == "object":
        return M.T("object", name, fields=[M.F("x", "Int")])
    if kind == "interface":
        return M.T("interface", name, fields=[M.F("x", "Int")])
    if kind == "union":
        objs = [t["name"] for t in sm["types"] if t["kind"] == "object" and t["name"] != name]
        return M.T("union", name, members=objs[-1:])
    if kind == "enum":
        return M.T("enum", name, values=[M.V("X"), M.V("Y")])
    if kind == "input":
        return M.T("input", name, fields=[M.A("z", "Int")])
    return M.T("scalar", name)


def wrapper_neighbours(texpr, max_lists=3):
    """every one-step wrapper change: toggle non-null at any depth, add / drop one list level."""
    t = M.parse_type(texpr)
    out = []

    def variants(t):
        # returns list of trees obtained by one local change somewhere in t
        res = []
        if t[0] == "nn":
            res.append(t[1])  # drop non-null here
            for v in variants(t[1]):
                if v[0] != "nn":
                    res.append(("nn", v))
        else:
            res.append(("nn", t))  # add non-null here
            res.append(("l", t))  # wrap in a list here
            if t[0] == "l":
                inner = t[1]
                res.append(inner[1] if inner[0] == "nn" else inner)  # drop this list level
                for v in variants(inner):
                    res.append(("l", v))
        return res

    seen = {texpr}
    for v in variants(t):
        s = M.type_str(v)
        if s in seen or s.count("[") > max_lists:
            continue
        seen.add(s)
        out.append(s)
    return out


def _named_alternatives(sm, texpr, direction):
    """other named types that can stand at this position (same wrappers)."""
    n = M.named(texpr)
    k = M.kind_of(sm, n)
    cands = []
    if n in M.SPECIFIED_SCALARS:
        cands.append("String" if n != "String" else "Int")
    for t in sm["types"]:
        if t["name"] == n:
            continue
        if direction == "output" and t["kind"] in ("object", "interface", "union") and k in ("object", "interface", "union"):
            cands.append(t["name"])
        elif t["kind"] == k and k in ("enum", "input", "scalar"):
            cands.append(t["name"])
    return [M.rewrap(texpr, c) for c in cands[:4]]


def _default_values(sm, texpr):
    """two distinct default values fitting the type (first one for 'add', second for 'change')."""
    t = M.parse_type(texpr)
    while t[0] == "nn":
        t = t[1]
    if t[0] == "l":
        inner = _default_values(sm, M.type_str(t[1]))
        return [[inner[0]], [inner[1], inner[0]]]
    n = t[1]
    k = M.kind_of(sm, n)
    if k == "enum":
        vals = [v["name"] for v in M.get_type(sm, n)["values"]]
        return [vals[0], vals[-1]] if len(vals) > 1 else [vals[0], vals[0]]
    if k == "input":
        td = M.get_type(sm, n)
        req = {}
        for f in td["fields"]:
            if M.parse_type(f["type"])[0] == "nn" and "default" not in f:
                req[f["name"]] = _default_values(sm, f["type"])[0]
        first = td["fields"][0]
        second = dict(req)
        second[first["name"]] = _default_values(sm, first["type"])[1]
        return [req, second]
    if n == "Int":
        return [7, 8]
    if n == "Float":
        return [1.5, 2.5]
    if n == "Boolean":
        return [True, False]
    return ["s", "t"]


# ------------------------------------------------------------------------------------------


def single_edits(sm, wrappers=True):
    E = []
    objs = [t for t in sm["types"] if t["kind"] == "object"]
    # types
    for k in M.KINDS:
        E.append({"op": "add-type", "kind": k})
    for t in sm["types"]:
        if not referenced(sm, t["name"]):
            E.append({"op": "remove-type", "name": t["name"]})
    for t in sm["types"]:
        for k in M.KINDS:
            if k != t["kind"]:
                E.append({"op": "change-kind", "name": t["name"], "to": k})
    # fields
    for t in sm["types"]:
        if t["kind"] in ("object", "interface"):
            E.append({"op": "add-field", "type": t["name"], "cascade": False})
            if t["kind"] == "interface":
                E.append({"op": "add-field", "type": t["name"], "cascade": True})
            for f in t["fields"]:
                E.append({"op": "remove-field", "type": t["name"], "field": f["name"]})
    for pos in positions(sm, ("field",)):
        f = get_pos(sm, pos)
        for alt in _named_alternatives(sm, f["type"], "output"):
            E.append({"op": "retype", "at": pos, "to": alt})
        if wrappers:
            for alt in wrapper_neighbours(f["type"]):
                E.append({"op": "retype", "at": pos, "to": alt})
        E.append({"op": "add-arg", "at": pos, "atype": "Int"})
        E.append({"op": "add-arg", "at": pos, "atype": "Int!"})
        E.append({"op": "add-arg", "at": pos, "atype": "Int!", "default": 1})
        for reason in deprecation_alternatives(f.get("dep")):
            E.append({"op": "set-deprecation", "at": pos, "reason": reason})
    # input values
    for t in sm["types"]:
        if t["kind"] == "input":
            E.append({"op": "add-input-field", "type": t["name"], "atype": "Int"})
            E.append({"op": "add-input-field", "type": t["name"], "atype": "Int!"})
            E.append({"op": "add-input-field", "type": t["name"], "atype": "Int!", "default": 1})
    for d in sm.get("directives") or ():
        E.append({"op": "add-directive-arg", "directive": d["name"], "atype": "Int"})
        E.append({"op": "add-directive-arg", "directive": d["name"], "atype": "Int!"})
        E.append({"op": "add-directive-arg", "directive": d["name"], "atype": "Int!", "default": 1})
    for pos in positions(sm, ("arg", "input-field", "directive-arg")):
        a = get_pos(sm, pos)
        E.append({"op": "remove", "at": pos})
        for alt in _named_alternatives(sm, a["type"], "input"):
            E.append({"op": "retype", "at": pos, "to": alt})
        if wrappers:
            for alt in wrapper_neighbours(a["type"]):
                E.append({"op": "retype", "at": pos, "to": alt})
        dv = _default_values(sm, a["type"])
        if "default" in a:
            E.append({"op": "remove-default", "at": pos})
            E.append({"op": "set-default", "at": pos, "value": dv[1] if dv[1] != a["default"] else dv[0]})
            if a["default"] is not None and M.parse_type(a["type"])[0] != "nn":
                E.append({"op": "set-default", "at": pos, "value": None})
        else:
            E.append({"op": "set-default", "at": pos, "value": dv[0]})
            if M.parse_type(a["type"])[0] != "nn":
                E.append({"op": "set-default", "at": pos, "value": None})
    # interface fields retyped together with every implementation (alone the schema would be invalid)
    for t in sm["types"]:
        if t["kind"] == "interface":
            for f in t["fields"]:
                alts = _named_alternatives(sm, f["type"], "output")[:1] + wrapper_neighbours(f["type"])[:2]
                for alt in alts:
                    E.append({"op": "retype-cascade", "interface": t["name"], "field": f["name"], "to": alt})
    # enums
    for t in sm["types"]:
        if t["kind"] == "enum":
            vals = [v["name"] for v in t["values"]]
            # client-visible name changes while the Python value stays; Python values change while names stay
            E.append({"op": "rename-enum-value", "type": t["name"], "value": vals[-1], "to": "RENAMED"})
            if len(vals) > 1:
                E.append({"op": "swap-enum-python-values", "type": t["name"], "a": vals[0], "b": vals[1]})
            E.append({"op": "set-enum-python-value", "type": t["name"], "value": vals[-1], "pyvalue": "other-internal-value"})
            E.append({"op": "add-enum-value", "type": t["name"]})
            for v in t["values"]:
                pos = ["enum-value", t["name"], v["name"]]
                E.append({"op": "remove", "at": pos})
                for reason in deprecation_alternatives(v.get("dep")):
                    E.append({"op": "set-deprecation", "at": pos, "reason": reason})
    # unions, interfaces
    for t in sm["types"]:
        if t["kind"] == "union":
            for o in objs:
                if o["name"] not in t["members"]:
                    E.append({"op": "add-union-member", "type": t["name"], "member": o["name"]})
            for m in t["members"]:
                E.append({"op": "remove-union-member", "type": t["name"], "member": m})
        if t["kind"] == "object":
            for i in sm["types"]:
                if i["kind"] == "interface" and i["name"] not in (t.get("interfaces") or ()):
                    E.append({"op": "add-interface", "type": t["name"], "interface": i["name"]})
            for i in t.get("interfaces") or ():
                E.append({"op": "remove-interface", "type": t["name"], "interface": i})
    # directives
    E.append({"op": "add-directive"})
    for d in sm.get("directives") or ():
        E.append({"op": "remove-directive", "name": d["name"]})
        for loc in ("MUTATION", "INLINE_FRAGMENT", "ENUM_VALUE"):
            if loc not in d["locations"]:
                E.append({"op": "add-location", "directive": d["name"], "location": loc})
        if len(d["locations"]) > 1:
            for loc in d["locations"]:
                E.append({"op": "remove-location", "directive": d["name"], "location": loc})
    # root operation types (not in the property's list of edits; used for the soundness clause)
    roots = sm.get("roots") or {}
    for op in ("query", "mutation", "subscription"):
        for o in objs:
            if roots.get(op) != o["name"] and o["name"] not in roots.values():
                E.append({"op": "set-root", "operation": op, "to": o["name"]})
        if roots.get(op) and op != "query":
            E.append({"op": "set-root", "operation": op, "to": None})
    return E


def deprecation_alternatives(current):
    """reasons to move to: None = remove the deprecation."""
    if current is None:
        return ["No longer supported", "why", ""]
    out = [None]
    out.append("why" if current != "why" else "because")
    return out


def edit_kind(e):
    op = e["op"]
    if op in ("retype", "remove", "set-default", "remove-default", "set-deprecation"):
        return "%s:%s" % (op, e["at"][0])
    if op == "add-arg":
        return "add-arg"
    return op


def apply_edit(sm, e):
    sm = copy.deepcopy(sm)
    op = e["op"]
    names = M.type_names(sm)
    if op == "add-type":
        name = "Added" + e["kind"].capitalize()
        if name in names:
            return None
        sm["types"].append(new_typedef(e["kind"], name, sm))
        return sm
    if op == "remove-type":
        if e["name"] not in names or referenced(sm, e["name"]):
            return None
        sm["types"] = [t for t in sm["types"] if t["name"] != e["name"]]
        return sm
    if op == "change-kind":
        t = M.get_type(sm, e["name"])
        if t is None or t["kind"] == e["to"]:
            return None
        i = sm["types"].index(t)
        sm["types"][i] = new_typedef(e["to"], e["name"], sm)
        return sm
    if op == "add-field":
        t = M.get_type(sm, e["type"])
        if t is None or t["kind"] not in ("object", "interface") or any(f["name"] == ADDED for f in t["fields"]):
            return None
        t["fields"].append(M.F(ADDED, "Int"))
        if e.get("cascade"):
            if t["kind"] != "interface":
                return None
            for o in sm["types"]:
                if o["kind"] == "object" and t["name"] in (o.get("interfaces") or ()):
                    if any(f["name"] == ADDED for f in o["fields"]):
                        return None
                    o["fields"].append(M.F(ADDED, "Int"))
        return sm
    if op == "remove-field":
        t = M.get_type(sm, e["type"])
        if t is None or t["kind"] not in ("object", "interface"):
            return None
        n = len(t["fields"])
        t["fields"] = [f for f in t["fields"] if f["name"] != e["field"]]
        return sm if len(t["fields"]) == n - 1 else None
    if op == "retype":
        p = get_pos(sm, e["at"])
        if p is None or p["type"] == e["to"]:
            return None
        p["type"] = e["to"]
        return sm
    if op == "add-arg":
        f = get_pos(sm, e["at"])
        if f is None or any(a["name"] == ADDED for a in f.get("args") or ()):
            return None
        f.setdefault("args", []).append(M.A(ADDED, e["atype"], *([e["default"]] if "default" in e else [])))
        return sm
    if op == "add-input-field":
        t = M.get_type(sm, e["type"])
        if t is None or t["kind"] != "input" or any(a["name"] == ADDED for a in t["fields"]):
            return None
        t["fields"].append(M.A(ADDED, e["atype"], *([e["default"]] if "default" in e else [])))
        return sm
    if op == "add-directive-arg":
        for d in sm.get("directives") or ():
            if d["name"] == e["directive"]:
                if any(a["name"] == ADDED for a in d["args"]):
                    return None
                d["args"].append(M.A(ADDED, e["atype"], *([e["default"]] if "default" in e else [])))
                return sm
        return None
    if op == "remove":
        pos = e["at"]
        if get_pos(sm, pos) is None:
            return None
        if pos[0] == "directive-arg":
            for d in sm["directives"]:
                if d["name"] == pos[1]:
                    d["args"] = [a for a in d["args"] if a["name"] != pos[2]]
            return sm
        t = M.get_type(sm, pos[1])
        if pos[0] == "arg":
            f = get_pos(sm, ["field", pos[1], pos[2]])
            f["args"] = [a for a in f["args"] if a["name"] != pos[3]]
        elif pos[0] == "input-field":
            t["fields"] = [a for a in t["fields"] if a["name"] != pos[2]]
        elif pos[0] == "enum-value":
            t["values"] = [v for v in t["values"] if v["name"] != pos[2]]
        else:
            return None
        return sm
    if op == "set-default":
        p = get_pos(sm, e["at"])
        if p is None or ("default" in p and p["default"] == e["value"]):
            return None
        p["default"] = copy.deepcopy(e["value"])
        return sm
    if op == "remove-default":
        p = get_pos(sm, e["at"])
        if p is None or "default" not in p:
            return None
        del p["default"]
        return sm
    if op == "set-deprecation":
        p = get_pos(sm, e["at"])
        if p is None or p.get("dep") == e["reason"]:
            return None
        p["dep"] = e["reason"]
        return sm
    if op == "retype-cascade":
        it = M.get_type(sm, e["interface"])
        if it is None or it["kind"] != "interface":
            return None
        targets = [it] + [o for o in sm["types"] if o["kind"] == "object" and e["interface"] in (o.get("interfaces") or ())]
        n = 0
        for t in targets:
            for f in t["fields"]:
                if f["name"] == e["field"] and f["type"] != e["to"]:
                    f["type"] = e["to"]
                    n += 1
        return sm if n else None
    if op in ("rename-enum-value", "swap-enum-python-values", "set-enum-python-value"):
        t = M.get_type(sm, e["type"])
        if t is None or t["kind"] != "enum":
            return None
        by = {v["name"]: v for v in t["values"]}
        if op == "rename-enum-value":
            v = by.get(e["value"])
            if v is None or e["to"] in by:
                return None
            v.setdefault("value", v["name"])  # the Python value stays what it was
            old_name = v["name"]
            v["name"] = e["to"]
            # defaults naming the value follow the rename (they denote the same Python value)
            for pos in positions(sm):
                p = get_pos(sm, pos)
                if M.named(p["type"]) == e["type"] and "default" in p:
                    p["default"] = _rename_in_default(p["default"], old_name, e["to"])
            return sm
        if op == "swap-enum-python-values":
            a, b = by.get(e["a"]), by.get(e["b"])
            if a is None or b is None:
                return None
            va, vb = a.get("value", a["name"]), b.get("value", b["name"])
            a["value"], b["value"] = vb, va
            return sm
        v = by.get(e["value"])
        if v is None or v.get("value", v["name"]) == e["pyvalue"]:
            return None
        v["value"] = e["pyvalue"]
        return sm
    if op == "add-enum-value":
        t = M.get_type(sm, e["type"])
        if t is None or t["kind"] != "enum" or any(v["name"] == "ADDED" for v in t["values"]):
            return None
        t["values"].append(M.V("ADDED"))
        return sm
    if op in ("add-union-member", "remove-union-member"):
        t = M.get_type(sm, e["type"])
        if t is None or t["kind"] != "union":
            return None
        if op == "add-union-member":
            if e["member"] in t["members"] or M.kind_of(sm, e["member"]) != "object":
                return None
            t["members"].append(e["member"])
        else:
            if e["member"] not in t["members"]:
                return None
            t["members"].remove(e["member"])
        return sm
    if op in ("add-interface", "remove-interface"):
        t = M.get_type(sm, e["type"])
        if t is None or t["kind"] != "object":
            return None
        ifs = t.setdefault("interfaces", [])
        if op == "add-interface":
            if e["interface"] in ifs or M.kind_of(sm, e["interface"]) != "interface":
                return None
            ifs.append(e["interface"])
        else:
            if e["interface"] not in ifs:
                return None
            ifs.remove(e["interface"])
        return sm
    if op == "add-directive":
        if any(d["name"] == ADDED for d in sm.get("directives") or ()):
            return None
        sm.setdefault("directives", []).append({"name": ADDED, "locations": ["FIELD"], "args": [M.A("x", "Int")]})
        return sm
    if op == "remove-directive":
        n = len(sm.get("directives") or ())
        sm["directives"] = [d for d in sm.get("directives") or () if d["name"] != e["name"]]
        return sm if len(sm["directives"]) == n - 1 else None
    if op in ("add-location", "remove-location"):
        for d in sm.get("directives") or ():
            if d["name"] == e["directive"]:
                if op == "add-location":
                    if e["location"] in d["locations"]:
                        return None
                    d["locations"].append(e["location"])
                else:
                    if e["location"] not in d["locations"] or len(d["locations"]) < 2:
                        return None
                    d["locations"].remove(e["location"])
                return sm
        return None
    if op == "set-root":
        roots = sm.setdefault("roots", {})
        if roots.get(e["operation"]) == e["to"]:
            return None
        if e["to"] is not None and M.kind_of(sm, e["to"]) != "object":
            return None
        roots[e["operation"]] = e["to"]
        return sm
    raise ValueError(op)


def _rename_in_default(d, old, new):
    if isinstance(d, list):
        return [_rename_in_default(x, old, new) for x in d]
    return new if d == old else d


def apply_edits(sm, edits):
    for e in edits:
        sm = apply_edit(sm, e)
        if sm is None:
            return None
    return sm
