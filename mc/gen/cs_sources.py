# -*- coding: utf-8 -*-
"""
cs_sources -- the source schema of C14 and the operation menu applied to it.

The source carries everything the property says must survive: field resolvers, a type-level and
a global default resolver, type resolvers on the interface and the union, a subscription resolver,
python names on a field / an argument / an input field, defaults of several kinds, descriptions on
every kind of element, deprecations on a field and on an enum value, enum internal values
(code-built variant only), a custom directive definition, and -- SDL-built variant only --
schema-directive applications (@rename, @remove) for apply_schema_directives.

Operations are JSON-able descriptors; ``run_op`` performs them on the real schema,
``mc.ref.cs_predict.predict`` on the model.
"""
import copy

from mc.ref import cs_model as M
from mc.ref.cs_model import A, F, T, V

OK = M.OK


def _peer():
    return F("peer_node", "Node", [A("first_n", "Int", 1, pyname="first_py", desc="how many")], desc="a neighbour")


def source(kind="code"):
    sm = {
        "types": [
            T("interface", "Node", desc="node iface", resolve_type="tr:Obj#node", fields=[F("id", "ID!", desc="ident"), _peer()]),
            T(
                "object",
                "Query",
                interfaces=["Node"],
                default_resolver=OK + "#query-default",
                desc="the root",
                fields=[
                    F("id", "ID!", desc="ident"),
                    _peer(),
                    F("obj", "Obj", resolver=OK + "#obj", desc="an obj"),
                    F("any_thing", "Any"),
                    F("search", "[Node!]", [A("flt", "Filter"), A("kind", "Kind", "A")]),
                    F("old_field", "Int", dep="gone", applied=["@remove"]),
                    F("hidden_t", "Hide"),
                ],
            ),
            T(
                "object",
                "Obj",
                interfaces=["Node"],
                desc="an object",
                fields=[
                    F("id", "ID!", desc="ident", resolver=OK + "#obj-id"),
                    _peer(),
                    F("snake_name", "String", pyname="attr", desc="named"),
                    F("val", "Float", dep=M_DEP(), applied=['@rename(to: "value")']),
                    F("at", "Stamp"),
                ],
            ),
            T("object", "Hide", fields=[F("h", "Int")], desc="to hide"),
            T("union", "Any", members=["Obj", "Hide"], resolve_type="tr:Obj#any", desc="a union"),
            T("enum", "Kind", desc="kinds", values=[V("A", value=1), V("B", value=2, dep="old", desc="bee")]),
            T(
                "input",
                "Filter",
                desc="a filter",
                fields=[A("min_val", "Int", 0, pyname="min_py", desc="minimum"), A("tags", "[String!]", ["t"]), A("hide_in", "HideIn")],
            ),
            T("input", "HideIn", fields=[A("z", "Int"), A("y", "Int", 2), A("nul", "Int", None)]),
            T("object", "Mut", fields=[F("set_it", "Int", [A("v", "Int!"), A("note", "String", None)], resolver=OK + "#set"), F("other", "Int")]),
            T("object", "Sub", fields=[F("tick", "Int", [A("every", "Int", 1)], sub="sub:tick", resolver=OK + "#tick"), F("tock", "Int")]),
            T("scalar", "Stamp", desc="a scalar"),
            T("object", "Gone", fields=[F("g", "Int")], applied=["@remove"]),
        ],
        "directives": [
            {"name": "tag", "desc": "tag it", "locations": ["FIELD", "FIELD_DEFINITION"], "args": [A("tag_name", "String", "x", desc="the tag"), A("why", "String", None)]},
            {
                # arguments typed by an input object, an enum, a list of input objects and a custom scalar:
                # directive argument types must be re-pointed / filtered like every other reference
                "name": "auth",
                "desc": "authorise",
                "locations": ["FIELD", "QUERY", "FIELD_DEFINITION"],
                "args": [
                    A("the_opts", "Filter", desc="options"),
                    A("min_role", "Kind", "A"),
                    A("all_opts", "[Filter!]"),
                    A("since", "Stamp"),
                    A("hidden_opts", "[HideIn!]!", []),
                ],
            },
            {"name": "rename", "locations": ["FIELD_DEFINITION"], "args": [A("to", "String!")]},
            {"name": "remove", "locations": ["FIELD_DEFINITION", "OBJECT"], "args": []},
        ],
        "roots": {"query": "Query", "mutation": "Mut", "subscription": "Sub"},
        "default_resolver": OK + "#global",
    }
    base, tail = split_src(kind)
    if base == "sdl":
        for t in sm["types"]:
            for v in t.get("values") or ():
                v.pop("value", None)
    if tail:
        # type-map ORDER axis: an unreferenced type of the given kind declared last, so that it is the last
        # entry of schema.types (of the source and of every clone)
        sm["types"].append(TAILS[tail]())
    return sm


TAIL_KINDS = ("enum", "scalar", "input", "interface", "union")
TAILS = {
    "enum": lambda: T("enum", "Tail", values=[V("T1"), V("T2")]),
    "scalar": lambda: T("scalar", "Tail"),
    "input": lambda: T("input", "Tail", fields=[A("t", "Int")]),
    "interface": lambda: T("interface", "Tail", fields=[F("t", "Int")]),
    "union": lambda: T("union", "Tail", members=["Hide"]),
}


def split_src(src):
    """'code' | 'sdl' | 'code:tail=enum' ... -> (construction route, kind of the type declared last or None)"""
    base, _, tail = src.partition(":tail=")
    return base, (tail or None)


def M_DEP():
    return "No longer supported"


def build_source(kind):
    sm = source(kind)
    if split_src(kind)[0] == "code":
        return M.build_code(sm), sm
    return M.build_sdl(sm), sm


# ------------------------------------------------------------------------------------------
# operation menu

EXTENSIONS = [
    {"ext": "add-field", "type": "Obj", "field": {"name": "extra_f", "type": "Int", "args": [{"name": "n", "type": "Int", "default": 3}]}},
    {"ext": "add-interface", "type": "Hide", "interface": "Node"},
    {"ext": "add-union-member", "type": "Any", "member": "Mut"},
    {"ext": "add-enum-value", "type": "Kind", "value": "C"},
    {"ext": "add-input-field", "type": "Filter", "field": {"name": "more_in", "type": "Int", "default": 5}},
    {"ext": "add-type", "kind": "object"},
    {"ext": "add-interface-field", "type": "Node", "field": {"name": "extra_i", "type": "Int"}},
] + [
    # members whose types are EXISTING non-built-in types (enum / input object / object / interface / union /
    # scalar), bare and wrapped, added to an interface and its implementers, an object, an input object;
    # every reference must end up pointing at the object registered in the extended schema
    {
        "ext": "members",
        "tag": tag,
        "adds": adds,
    }
    for tag, adds in [
        (
            "interface-field:enum",
            [[t, {"name": "ext_kind", "type": "Kind", "args": [{"name": "k", "type": "Kind", "default": "A"}]}] for t in ("Node", "Query", "Obj")],
        ),
        (
            "interface-field:wrapped-object+input-args",
            [
                [t, {"name": "ext_objs", "type": "[Obj!]!", "args": [{"name": "flt", "type": "Filter"}, {"name": "ks", "type": "[Kind!]!"}]}]
                for t in ("Node", "Query", "Obj")
            ],
        ),
        (
            "interface-field:interface+union",
            [[t, {"name": "ext_node", "type": "Node", "args": []}] for t in ("Node", "Query", "Obj")]
            + [[t, {"name": "ext_nodes", "type": "[Node!]!", "args": []}] for t in ("Node", "Query", "Obj")]
            + [[t, {"name": "ext_any", "type": "[Any]", "args": [{"name": "st", "type": "Stamp"}]}] for t in ("Node", "Query", "Obj")],
        ),
        (
            "object-field:wrapped",
            [["Obj", {"name": "ext_hidden", "type": "[Hide!]!", "args": [{"name": "flts", "type": "[Filter!]!"}, {"name": "hi", "type": "HideIn"}]}]],
        ),
        (
            "input-field:input+enum",
            [
                ["Filter", {"name": "ext_in", "type": "HideIn"}],
                ["Filter", {"name": "ext_ins", "type": "[HideIn!]"}],
                ["Filter", {"name": "ext_ks", "type": "[Kind!]!", "default": ["A"]}],
                ["HideIn", {"name": "ext_stamp", "type": "Stamp"}],
            ],
        ),
        (
            "implements-existing+union-member",
            [["Hide", "implements", "Node"], ["Any", "member", "Sub"], ["Kind", "value", "D"]],
        ),
    ]
]


def extension_sdl(e):
    k = e["ext"]
    if k == "add-field":
        f = e["field"]
        return "extend type %s { %s(n: Int = 3): %s }" % (e["type"], f["name"], f["type"])
    if k == "add-interface":
        return "extend type %s implements %s { id: ID!  peer_node(first_n: Int = 1): Node }" % (e["type"], e["interface"])
    if k == "add-union-member":
        return "extend union %s = %s" % (e["type"], e["member"])
    if k == "add-enum-value":
        return "extend enum %s { %s }" % (e["type"], e["value"])
    if k == "add-input-field":
        f = e["field"]
        return "extend input %s { %s: %s = 5 }" % (e["type"], f["name"], f["type"])
    if k == "add-type":
        return "type Brand { b: Int  back: Query }"
    if k == "add-interface-field":
        f = e["field"]
        return "extend interface %s { %s: %s }\nextend type Query { %s: %s }\nextend type Obj { %s: %s }" % (
            e["type"], f["name"], f["type"], f["name"], f["type"], f["name"], f["type"])
    if k == "members":
        sm = source("sdl")
        parts = []
        for add in e["adds"]:
            tn = add[0]
            kind = M.kind_of(sm, tn)
            if len(add) == 3:
                if add[1] == "implements":
                    parts.append("extend type %s implements %s { id: ID!  peer_node(first_n: Int = 1): Node }" % (tn, add[2]))
                elif add[1] == "member":
                    parts.append("extend union %s = %s" % (tn, add[2]))
                else:
                    parts.append("extend enum %s { %s }" % (tn, add[2]))
                continue
            f = add[1]
            if kind == "input":
                text = "%s: %s" % (f["name"], f["type"])
                if "default" in f:
                    text += " = " + M.sdl_value(sm, f["type"], f["default"])
                parts.append("extend input %s { %s }" % (tn, text))
            else:
                args = ""
                if f.get("args"):
                    args = "(" + ", ".join(
                        "%s: %s%s" % (a["name"], a["type"], (" = " + M.sdl_value(sm, a["type"], a["default"])) if "default" in a else "") for a in f["args"]
                    ) + ")"
                parts.append("extend %s %s { %s%s: %s }" % ("interface" if kind == "interface" else "type", tn, f["name"], args, f["type"]))
        return "\n".join(parts)
    raise ValueError(k)


def menu(sm, tier="quick"):
    """deterministic list of operation descriptors for source model sm."""
    ops = [{"op": "clone"}, {"op": "camel"}, {"op": "fix"}, {"op": "directives"}]
    hides = []
    for t in sm["types"]:
        hides.append({"types": [t["name"]]})
    for t in sm["types"]:
        if t["kind"] in ("object", "interface"):
            for f in t["fields"]:
                hides.append({"fields": [[t["name"], f["name"]]]})
        if t["kind"] == "input":
            for f in t["fields"]:
                hides.append({"input_fields": [[t["name"], f["name"]]]})
    for d in sm["directives"]:
        hides.append({"directives": [d["name"]]})
    pairs = [
        {"types": ["Hide"], "fields": [["Obj", "val"]]},
        {"input_fields": [["Filter", "tags"]], "directives": ["tag"]},
        {"types": ["Hide", "HideIn"]},
        {"fields": [["Query", "old_field"], ["Node", "peer_node"]]},
    ]
    if tier == "thorough":
        # every pair of types hidden together (cascades through unions, interfaces, arguments)
        names = [t["name"] for t in sm["types"]]
        for i in range(len(names)):
            for j in range(i + 1, len(names)):
                p = {"types": [names[i], names[j]]}
                if p not in pairs:
                    pairs.append(p)
    for h in hides + pairs:
        ops.append(dict({"op": "hide"}, **copy.deepcopy(h)))
    for h in hides:
        ops.append(dict({"op": "hide+camel"}, **copy.deepcopy(h)))
    for e in EXTENSIONS:
        ops.append(dict({"op": "extend"}, **copy.deepcopy(e)))
    return ops


def op_kind(op):
    k = op["op"]
    if k in ("hide", "hide+camel"):
        what = "+".join(x for x in ("types", "fields", "input_fields", "directives") if op.get(x))
        return "%s:%s" % (k, what)
    if k == "extend":
        return "extend:" + op["ext"] + (":" + op["tag"] if op.get("tag") else "")
    return k


IN_PLACE = ("fix", "directives")


def _visibility(op):
    from py_gql.schema.transforms import VisibilitySchemaTransform

    types = set(op.get("types") or ())
    fields = set(tuple(x) for x in op.get("fields") or ())
    ifields = set(tuple(x) for x in op.get("input_fields") or ())
    dirs = set(op.get("directives") or ())

    class Hide(VisibilitySchemaTransform):
        def is_type_visible(self, name):
            return name not in types

        def is_field_visible(self, typename, fieldname):
            return (typename, fieldname) not in fields

        def is_input_field_visible(self, typename, fieldname):
            return (typename, fieldname) not in ifields

        def is_directive_visible(self, name):
            return name not in dirs

    return Hide()


def _schema_directives():
    from py_gql.schema import Field
    from py_gql.sdl import SchemaDirective

    class Rename(SchemaDirective):
        definition = "rename"

        def on_field(self, field):
            return Field(
                self.args["to"],
                field.type,
                args=field.arguments,
                description=field.description,
                deprecation_reason=field.deprecation_reason,
                resolver=field.resolver,
                subscription_resolver=field.subscription_resolver,
                node=field.node,
                python_name=field.python_name,
            )

    class Remove(SchemaDirective):
        definition = "remove"

        def on_field(self, field):
            return None

        def on_object(self, object_type):
            return None

    return [Rename, Remove]


def run_op(schema, op):
    """perform op on the real schema; -> result schema (the same object for in-place operations)."""
    from py_gql.schema.fix_type_references import fix_type_references
    from py_gql.schema.transforms import CamelCaseSchemaTransform, transform_schema
    from py_gql.sdl import extend_schema
    from py_gql.sdl.schema_directives import apply_schema_directives

    k = op["op"]
    if k == "clone":
        return schema.clone()
    if k == "camel":
        return transform_schema(schema, CamelCaseSchemaTransform())
    if k == "hide":
        return transform_schema(schema, _visibility(op))
    if k == "hide+camel":
        return transform_schema(schema, _visibility(op), CamelCaseSchemaTransform())
    if k == "extend":
        return extend_schema(schema, extension_sdl(op))
    if k == "fix":
        return fix_type_references(schema)
    if k == "directives":
        return apply_schema_directives(schema, _schema_directives())
    raise ValueError(k)
