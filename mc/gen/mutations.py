# -*- coding: utf-8 -*-
"""
Mutation operators over case documents ({"doc": document, "vars": {name: [choices]}}) of
mc.gen.operations.

Every operator is a generator ``op(sm, case) -> (tag, new_case)`` registered with

    rule   the validation rule (class name in py_gql.validation.rules) the mutant violates -- and,
           by construction, the only specification rule it is MEANT to violate -- or
           None for operators that keep the document valid (used by C05 as the second half of a pair
           and to place conflicts behind fragments) or whose result is not labelled.

C05 uses all of them unlabelled ("adversarial"); C06 uses the labelled ones as single violations.
Operators are applied at EVERY position where they apply.  Tags are mechanical and stable; they
contain no witness text.

Extra (raw) definitions, needed for type-system definitions inside executable documents, live in
``doc["extra"]`` (list of definition texts rendered after the other definitions).
"""
import copy

from . import ex_schemas as S
from . import operations as O
from .worlds import OMIT

OPERATORS = []


def operator(name, rule):
    def deco(fn):
        OPERATORS.append((name, rule, fn))
        return fn

    return deco


def _clone(case):
    return copy.deepcopy(case)


def _positions(sm, case, pred):
    """for every node position satisfying pred(node, parent): (fresh clone, container, index, parent, node)"""
    nodes = O.typed_nodes(sm, case["doc"])
    for pos, (lst, i, parent) in enumerate(nodes):
        if pred(lst[i], parent):
            c = _clone(case)
            l2, i2, p2 = O.typed_nodes(sm, c["doc"])[pos]
            yield c, l2, i2, p2, l2[i2]


def _positions_indexed(sm, case, pred):
    """like _positions; the clone carries the position index under "_pos" (caller deletes it)"""
    nodes = O.typed_nodes(sm, case["doc"])
    for pos, (lst, i, parent) in enumerate(nodes):
        if pred(lst[i], parent):
            c = _clone(case)
            c["_pos"] = pos
            l2, i2, p2 = O.typed_nodes(sm, c["doc"])[pos]
            yield c, l2, i2, p2, l2[i2]


def _reaching_ops(doc, lst):
    """operations whose selection tree reaches container `lst`, directly or through spreads"""
    frag_of = None
    for fr in doc["frags"]:
        if _contains(fr[3], lst):
            frag_of = fr[0]
    out = []
    for op in doc["ops"]:
        if _contains(op["sels"], lst):
            out.append(op)
        elif frag_of is not None and frag_of in _spread_closure(doc, op["sels"]):
            out.append(op)
    return out


def _spread_closure(doc, sels):
    fm = {}
    for fr in doc["frags"]:
        fm.setdefault(fr[0], fr)
    seen = set()

    def rec(l):
        for s in l:
            if s[0] == "s":
                if s[1] not in seen:
                    seen.add(s[1])
                    if s[1] in fm:
                        rec(fm[s[1]][3])
            else:
                ch = O.children_of(s)
                if ch:
                    rec(ch)

    rec(sels)
    return seen


def _uses_var(doc, sels, name):
    """does the selection list (with everything it spreads) mention $name?"""
    import re

    pat = re.compile(r"\$%s\b" % re.escape(name))
    text = O._render_sels(sels, 0, {})
    if pat.search(text):
        return True
    fm = {fr[0]: fr for fr in doc["frags"]}
    return any(pat.search(O._render_sels(fm[n][3], 0, {})) for n in _spread_closure(doc, sels) if n in fm)


def _all_var_names(doc):
    return {v[0] for o in doc["ops"] for v in o["vars"]}


def _is_field(s, parent):
    return s[0] == "f" and parent is not None


def _fdef(sm, parent, s):
    if parent is None or s[1].startswith("__"):
        return None
    return S.fields_of(sm, parent).get(s[1]) if S.kind_of(sm, parent) in ("object", "interface") else None


def _op_of_position(doc, lst):
    """the operation (or None when inside a fragment) whose tree contains the container `lst`"""
    for op in doc["ops"]:
        if _contains(op["sels"], lst):
            return op
    return None


def _contains(sels, lst):
    if sels is lst:
        return True
    for s in sels:
        c = O.children_of(s)
        if c is not None and _contains(c, lst):
            return True
    return False


def _fresh_var(op, pool=("u", "extra", "k", "more")):
    used = {v[0] for v in op["vars"]}
    return O._fresh(used, list(pool))


def _fresh_frag(doc, pool):
    return O._fresh({f[0] for f in doc["frags"]}, list(pool))


def _leaf_fields(sm, tname):
    return [fn for fn, f in S.fields_of(sm, tname).items() if S.is_leaf(sm, S.named_of(S.parse_type(f["type"]))) and not _required_args(f)]


def _required_args(fdef):
    return [an for an, a in fdef["args"].items() if a["type"].endswith("!") and a["default"] is None]


# =============================================================================================
# document level


TYPE_SYSTEM_DEFS = [
    ("object", "type Foo { a: Int }"),
    ("extend", "extend type Foo { zz: Int }"),
    ("schema", "schema { query: Foo }"),
    ("scalar", "scalar Zed"),
    ("directive", "directive @dd on FIELD"),
    ("enum", "enum E2 { A }"),
    ("input", "input I2 { a: Int }"),
    ("interface", "interface If2 { a: Int }"),
    ("union", "union U2 = Foo"),
]


@operator("typesystem-def", "ExecutableDefinitionsChecker")
def typesystem_def(sm, case):
    for kind, text in TYPE_SYSTEM_DEFS:
        c = _clone(case)
        c["doc"].setdefault("extra", []).append(text)
        yield "typesystem-def:%s" % kind, c


@operator("dup-operation-name", "UniqueOperationNameChecker")
def dup_operation_name(sm, case):
    c = _clone(case)
    ops = c["doc"]["ops"]
    name = ops[0]["name"] or "Same"
    ops[0]["name"] = name
    root = sm[ops[0].get("kind", "query")]
    ops.append(O.mkop([O.F("__typename")], kind=ops[0].get("kind", "query"), name=name))
    del root
    yield "dup-operation-name:same-kind", c
    if sm.get("mutation") and ops[0].get("kind", "query") == "query":
        c = _clone(case)
        ops = c["doc"]["ops"]
        name = ops[0]["name"] or "Same"
        ops[0]["name"] = name
        ops.append(O.mkop([O.F("__typename")], kind="mutation", name=name))
        yield "dup-operation-name:other-kind", c


@operator("anonymous-not-alone", "LoneAnonymousOperationChecker")
def anonymous_not_alone(sm, case):
    # two anonymous operations
    c = _clone(case)
    ops = c["doc"]["ops"]
    for op in ops:
        op["name"] = None
    if len(ops) == 1:
        ops.append(O.mkop([O.F("__typename")]))
    yield "anonymous-not-alone:two-anonymous", c
    # anonymous + named, both orders
    for first in (True, False):
        c = _clone(case)
        ops = c["doc"]["ops"]
        ops[0]["name"] = None
        other = O.mkop([O.F("__typename")], name="Named")
        if len(ops) == 1:
            if first:
                ops.append(other)
            else:
                ops.insert(0, other)
            yield "anonymous-not-alone:anonymous-%s" % ("first" if first else "last"), c


@operator("subscription-two-root-fields", "SingleFieldSubscriptionsChecker")
def subscription_two_fields(sm, case):
    sub = sm.get("subscription")
    if not sub:
        return
    doc = case["doc"]
    if len(doc["ops"]) != 1 or doc["ops"][0].get("kind") != "subscription":
        return
    fields = _leaf_fields(sm, sub)
    present = [s[1] for s in doc["ops"][0]["sels"] if s[0] == "f"]
    other = [f for f in fields if f not in present]
    if not other:
        return
    c = _clone(case)
    c["doc"]["ops"][0]["sels"].append(O.F(other[0]))
    yield "subscription-two-root-fields:direct", c
    c = _clone(case)
    c["doc"]["ops"][0]["sels"].append(O.F("__typename"))
    yield "subscription-two-root-fields:typename", c
    c = _clone(case)
    op = c["doc"]["ops"][0]
    op["sels"] = [O.I(None, op["sels"] + [O.F(other[0])])]
    yield "subscription-two-root-fields:inline-fragment", c
    c = _clone(case)
    op = c["doc"]["ops"][0]
    name = _fresh_frag(c["doc"], ["SubFields", "SF"])
    c["doc"]["frags"].append([name, sub, [], op["sels"] + [O.F(other[0])]])
    op["sels"] = [O.SP(name)]
    yield "subscription-two-root-fields:fragment-spread", c
    c = _clone(case)
    op = c["doc"]["ops"][0]
    name = _fresh_frag(c["doc"], ["OneField", "OF"])
    c["doc"]["frags"].append([name, sub, [], [O.F(other[0])]])
    op["sels"] = op["sels"] + [O.SP(name)]
    yield "subscription-two-root-fields:field-plus-spread", c
    c = _clone(case)
    op = c["doc"]["ops"][0]
    name = _fresh_frag(c["doc"], ["OneField", "OF"])
    c["doc"]["frags"].append([name, sub, [], [O.F(other[0])]])
    op["sels"] = [O.SP(name)] + op["sels"]
    yield "subscription-two-root-fields:spread-plus-field", c


# =============================================================================================
# type names, type conditions


def _retarget_kinds(sm):
    """(class, type name) candidates for a retargeted type condition"""
    out = [("unknown", "Unknown")]
    for n, t in sm["types"].items():
        if t["kind"] == "scalar":
            out.append(("custom-scalar", n))
        elif t["kind"] == "enum":
            out.append(("enum", n))
        elif t["kind"] == "input":
            out.append(("input", n))
    out.append(("builtin-scalar", "Int"))
    seen = set()
    res = []
    for k, n in out:
        if k not in seen:
            seen.add(k)
            res.append((k, n))
    return res


@operator("type-condition-unknown", "KnownTypeNamesChecker")
def type_condition_unknown(sm, case):
    for c, lst, i, parent, s in _positions(sm, case, lambda s, p: s[0] == "i"):
        s[1] = "Unknown"
        yield "type-condition-unknown:inline", c
    for k in range(len(case["doc"]["frags"])):
        c = _clone(case)
        c["doc"]["frags"][k][1] = "Unknown"
        yield "type-condition-unknown:fragment-definition", c


@operator("variable-type-unknown", "KnownTypeNamesChecker")
def variable_type_unknown(sm, case):
    for oi, op in enumerate(case["doc"]["ops"]):
        for vi, v in enumerate(op["vars"]):
            for wrap in ("%s", "[%s]", "%s!"):
                c = _clone(case)
                c["doc"]["ops"][oi]["vars"][vi][1] = wrap % "Unknown"
                c["doc"]["ops"][oi]["vars"][vi][2] = None
                c["vars"][v[0]] = [OMIT]
                yield "variable-type-unknown:%s" % wrap.replace("%s", "T"), c


@operator("type-condition-not-composite", "FragmentsOnCompositeTypesChecker")
def type_condition_not_composite(sm, case):
    for kind, tname in _retarget_kinds(sm):
        if kind == "unknown":
            continue
        for c, lst, i, parent, s in _positions(sm, case, lambda s, p: s[0] == "i"):
            s[1] = tname
            yield "type-condition-not-composite:inline:%s" % kind, c
        for k in range(len(case["doc"]["frags"])):
            c = _clone(case)
            c["doc"]["frags"][k][1] = tname
            yield "type-condition-not-composite:fragment-definition:%s" % kind, c


@operator("variable-type-not-input", "VariablesAreInputTypesChecker")
def variable_type_not_input(sm, case):
    comps = {}
    for n in S.composite_names(sm):
        comps.setdefault(S.kind_of(sm, n), n)
    for oi, op in enumerate(case["doc"]["ops"]):
        for vi, v in enumerate(op["vars"]):
            for kind, tname in comps.items():
                c = _clone(case)
                c["doc"]["ops"][oi]["vars"][vi][1] = tname
                c["doc"]["ops"][oi]["vars"][vi][2] = None
                c["vars"][v[0]] = [OMIT]
                yield "variable-type-not-input:%s" % kind, c


# =============================================================================================
# fields


@operator("leaf-with-selection", "ScalarLeafsChecker")
def leaf_with_selection(sm, case):
    def pred(s, p):
        fd = _fdef(sm, p, s) if s[0] == "f" else None
        return fd is not None and s[5] is None and S.is_leaf(sm, S.named_of(S.parse_type(fd["type"])))

    for c, lst, i, parent, s in _positions(sm, case, pred):
        s[5] = [O.F("__typename")]
        yield "leaf-with-selection", c


@operator("composite-without-selection", "ScalarLeafsChecker")
def composite_without_selection(sm, case):
    def pred(s, p):
        return s[0] == "f" and s[5] is not None and _fdef(sm, p, s) is not None

    for c, lst, i, parent, s in _positions(sm, case, pred):
        kind = S.kind_of(sm, S.named_of(S.parse_type(_fdef(sm, parent, s)["type"])))
        s[5] = None
        yield "composite-without-selection:%s" % kind, c


@operator("unknown-field", "FieldsOnCorrectTypeChecker")
def unknown_field(sm, case):
    def pred(s, p):
        return s[0] == "f" and p is not None and s[5] is None and not s[4] and not s[1].startswith("__")

    for c, lst, i, parent, s in _positions(sm, case, pred):
        s[1] = "nope"
        yield "unknown-field:%s" % S.kind_of(sm, parent), c
    # a field of another type
    all_fields = set()
    for n in S.composite_names(sm):
        all_fields |= set(S.fields_of(sm, n))
    for c, lst, i, parent, s in _positions(sm, case, pred):
        own = set(S.fields_of(sm, parent))
        foreign = sorted(f for f in all_fields - own if _is_plain_leaf_anywhere(sm, f))
        if foreign:
            s[1] = foreign[0]
            yield "foreign-field:%s" % S.kind_of(sm, parent), c


def _is_plain_leaf_anywhere(sm, fname):
    for n in S.composite_names(sm):
        f = S.fields_of(sm, n).get(fname)
        if f is not None:
            return S.is_leaf(sm, S.named_of(S.parse_type(f["type"]))) and not f["args"]
    return False


@operator("introspection-off-root", "FieldsOnCorrectTypeChecker")
def introspection_off_root(sm, case):
    def pred(s, p):
        return s[0] == "f" and s[5] is not None and p is not None

    for c, lst, i, parent, s in _positions(sm, case, pred):
        s[5].append(O.F("__schema", [O.F("queryType", [O.F("name")])]))
        yield "introspection-off-root:__schema", c
    for c, lst, i, parent, s in _positions(sm, case, pred):
        s[5].append(O.F("__type", [O.F("name")], args={"name": '"Q"'}))
        yield "introspection-off-root:__type", c
    # on the mutation root
    for oi, op in enumerate(case["doc"]["ops"]):
        if op.get("kind") == "mutation":
            c = _clone(case)
            c["doc"]["ops"][oi]["sels"].append(O.F("__schema", [O.F("queryType", [O.F("name")])]))
            yield "introspection-off-root:mutation-root", c


# =============================================================================================
# fragments


@operator("dup-fragment-name", "UniqueFragmentNamesChecker")
def dup_fragment_name(sm, case):
    for k, fr in enumerate(case["doc"]["frags"]):
        c = _clone(case)
        c["doc"]["frags"].append(copy.deepcopy(fr))
        yield "dup-fragment-name:identical", c
        c = _clone(case)
        c["doc"]["frags"].insert(0, [fr[0], fr[1], [], [O.F("__typename")]])
        yield "dup-fragment-name:different-body", c


@operator("unknown-fragment-spread", "KnownFragmentNamesChecker")
def unknown_fragment_spread(sm, case):
    for c, lst, i, parent, s in _positions(sm, case, lambda s, p: s[0] == "s"):
        old = s[1]
        s[1] = "Missing"
        # keep the original fragment in use so that only one rule is broken
        lst.append(O.SP(old))
        yield "unknown-fragment-spread:replace", c
    for c, lst, i, parent, s in _positions(sm, case, lambda s, p: s[0] == "f" and s[5] is not None):
        s[5].append(O.SP("Missing"))
        yield "unknown-fragment-spread:added", c
    for oi in range(len(case["doc"]["ops"])):
        c = _clone(case)
        c["doc"]["ops"][oi]["sels"].append(O.SP("Mi"))
        yield "unknown-fragment-spread:root", c


@operator("unused-fragment", "NoUnusedFragmentsChecker")
def unused_fragment(sm, case):
    root = sm[case["doc"]["ops"][0].get("kind", "query")]
    for names in (["Z"], ["Unused"], ["U1", "U2"]):
        c = _clone(case)
        prev = None
        for n in names:
            body = [O.F("__typename")] if prev is None else [O.SP(prev)]
            c["doc"]["frags"].append([n, root, [], body])
            prev = n
        if len(names) == 2:
            # U2 spreads U1: U1 is used only from an unused fragment (both unused)
            pass
        yield "unused-fragment:%s" % ("chain" if len(names) > 1 else ("multi" if len(names[0]) > 1 else "single")), c
    # an unused fragment that spreads a used one
    if case["doc"]["frags"]:
        c = _clone(case)
        fr = c["doc"]["frags"][0]
        c["doc"]["frags"].append(["Hanger", fr[1], [], [O.SP(fr[0])]])
        yield "unused-fragment:spreads-used", c


@operator("impossible-spread", "PossibleFragmentSpreadsChecker")
def impossible_spread(sm, case):
    comps = S.composite_names(sm)

    def disjoint(parent):
        return [n for n in comps if not S.overlap(sm, n, parent)]

    def pred(s, p):
        return s[0] in ("f", "i") and p is not None and disjoint(p)

    seen = set()
    orig = O.typed_nodes(sm, case["doc"])
    for pos, (c, lst, i, parent, s) in enumerate(_positions_indexed(sm, case, pred)):
        cid = id(orig[c["_pos"]][0])
        del c["_pos"]
        if cid in seen:
            continue
        seen.add(cid)
        for tc in _one_per_kind(sm, disjoint(parent)):
            c2 = _clone(c)
            l2 = _same_container(sm, c, c2, lst)
            l2.append(O.I(tc, [O.F("__typename")]))
            yield "impossible-spread:inline:%s-in-%s" % (S.kind_of(sm, tc), S.kind_of(sm, parent)), c2
            c3 = _clone(c)
            l3 = _same_container(sm, c, c3, lst)
            name = _fresh_frag(c3["doc"], ["Imp", "I"])
            c3["doc"]["frags"].append([name, tc, [], [O.F("__typename")]])
            l3.append(O.SP(name))
            yield "impossible-spread:named:%s-in-%s" % (S.kind_of(sm, tc), S.kind_of(sm, parent)), c3


def _one_per_kind(sm, names):
    seen = set()
    for n in names:
        k = S.kind_of(sm, n)
        if k not in seen:
            seen.add(k)
            yield n


def _same_container(sm, c_old, c_new, lst):
    old = O.typed_nodes(sm, c_old["doc"])
    new = O.typed_nodes(sm, c_new["doc"])
    for (l1, _i1, _p1), (l2, _i2, _p2) in zip(old, new):
        if l1 is lst:
            return l2
    raise KeyError("container")


@operator("fragment-cycle", "NoFragmentCyclesChecker")
def fragment_cycle(sm, case):
    if case["doc"]["ops"][0].get("kind") == "subscription":
        return  # an extra root selection would also break the single-root-field rule
    root = sm[case["doc"]["ops"][0].get("kind", "query")]
    shapes = {
        # name -> {fragment: [spreads]}; all reachable from the operation through the first one
        "self": {"A": ["A"]},
        "self-multi": {"Loop": ["Loop"]},
        "two": {"A": ["B"], "B": ["A"]},
        "two-multi": {"Ping": ["Pong"], "Pong": ["Ping"]},
        "three": {"A": ["B"], "B": ["C"], "C": ["A"]},
        "tail": {"A": ["B"], "B": ["C"], "C": ["B"]},
        "shared-then-back": {"A": ["B", "C"], "B": [], "C": ["B", "A"]},
        "shared-then-back-multi": {"Aa": ["Bb", "Cc"], "Bb": [], "Cc": ["Bb", "Aa"]},
        "diamond-back": {"A": ["B", "C"], "B": ["D"], "C": ["D"], "D": ["A"]},
    }
    for tag, g in shapes.items():
        c = _clone(case)
        used = {f[0] for f in c["doc"]["frags"]}
        ren = {n: (n if n not in used else n + "q") for n in g}
        for n, sp in g.items():
            c["doc"]["frags"].append([ren[n], root, [], [O.F("__typename")] + [O.SP(ren[x]) for x in sp]])
        c["doc"]["ops"][0]["sels"].append(O.SP(ren[list(g)[0]]))
        yield "fragment-cycle:%s" % tag, c


# =============================================================================================
# variables


def _first_int_arg_position(sm, case):
    """(position predicate) fields that have a nullable Int argument not yet given"""

    def pred(s, p):
        fd = _fdef(sm, p, s) if s[0] == "f" else None
        return fd is not None and any(a["type"] == "Int" and an not in s[4] for an, a in fd["args"].items())

    return pred


def _int_arg(sm, parent, s):
    fd = _fdef(sm, parent, s)
    for an, a in fd["args"].items():
        if a["type"] == "Int" and an not in s[4]:
            return an
    return None


@operator("dup-variable", "UniqueVariableNamesChecker")
def dup_variable(sm, case):
    for oi, op in enumerate(case["doc"]["ops"]):
        for vi, v in enumerate(op["vars"]):
            c = _clone(case)
            c["doc"]["ops"][oi]["vars"].append(copy.deepcopy(v))
            yield "dup-variable:same-type", c
            c = _clone(case)
            c["doc"]["ops"][oi]["vars"].insert(0, [v[0], "String" if v[1] != "String" else "Int", None])
            yield "dup-variable:other-type", c


@operator("undefined-variable", "NoUndefinedVariablesChecker")
def undefined_variable(sm, case):
    pred = _first_int_arg_position(sm, case)
    for c, lst, i, parent, s in _positions(sm, case, pred):
        s[4] = dict(s[4])
        s[4][_int_arg(sm, parent, s)] = "$undef"
        where = "operation" if _op_of_position(c["doc"], lst) is not None else "fragment"
        yield "undefined-variable:arg:%s" % where, c
    # in a directive condition
    for c, lst, i, parent, s in _positions(sm, case, lambda s, p: p is not None and not (s[3] if s[0] == "f" else s[2])):
        (s[3] if s[0] == "f" else s[2]).append(["skip", {"if": "$undef"}])
        where = "operation" if _op_of_position(c["doc"], lst) is not None else "fragment"
        yield "undefined-variable:directive:%s:%s" % ({"f": "field", "i": "inline", "s": "spread"}[s[0]], where), c
    # defined by one operation, used through a fragment shared with another that does not define it
    doc = case["doc"]
    if len(doc["ops"]) >= 2:
        for oi, op in enumerate(doc["ops"]):
            for vi, v in enumerate(op["vars"]):
                for oj, other in enumerate(doc["ops"]):
                    if oj != oi and v[0] not in {x[0] for x in other["vars"]}:
                        shared = [s for s in op["sels"] if s[0] == "s" and _uses_var(doc, [s], v[0])]
                        if shared:
                            c = _clone(case)
                            c["doc"]["ops"][oj]["sels"].append(copy.deepcopy(shared[0]))
                            yield "undefined-variable:shared-fragment", c


@operator("unused-variable", "NoUnusedVariablesChecker")
def unused_variable(sm, case):
    for oi, op in enumerate(case["doc"]["ops"]):
        c = _clone(case)
        name = _fresh_var(c["doc"]["ops"][oi])
        c["doc"]["ops"][oi]["vars"].append([name, "Int", None])
        c["vars"][name] = [OMIT, 1]
        yield "unused-variable:added", c
        c = _clone(case)
        name = _fresh_var(c["doc"]["ops"][oi])
        c["doc"]["ops"][oi]["vars"].insert(0, [name, "Boolean!", None])
        c["vars"][name] = [True]
        yield "unused-variable:added-first", c
    # used only by a fragment that this operation does not spread
    doc = case["doc"]
    if len(doc["ops"]) >= 2:
        for oi, op in enumerate(doc["ops"]):
            for oj, other in enumerate(doc["ops"]):
                if oi == oj:
                    continue
                for v in other["vars"]:
                    if v[0] not in {x[0] for x in op["vars"]} and not _uses_var(doc, op["sels"], v[0]):
                        c = _clone(case)
                        c["doc"]["ops"][oi]["vars"].append(copy.deepcopy(v))
                        c["vars"].setdefault(v[0], [OMIT])
                        yield "unused-variable:used-by-other-operation-only", c


# =============================================================================================
# directives


@operator("unknown-directive", "KnownDirectivesChecker")
def unknown_directive(sm, case):
    for c, lst, i, parent, s in _positions(sm, case, lambda s, p: True):
        (s[3] if s[0] == "f" else s[2]).append(["nope", {}])
        yield "unknown-directive:%s" % ({"f": "field", "s": "spread"}.get(s[0]) or ("inline-typed" if s[1] else "inline-untyped")), c
    for oi in range(len(case["doc"]["ops"])):
        c = _clone(case)
        c["doc"]["ops"][oi]["dirs"].append(["nope", {}])
        yield "unknown-directive:operation", c
    for k in range(len(case["doc"]["frags"])):
        c = _clone(case)
        c["doc"]["frags"][k][2].append(["nope", {}])
        yield "unknown-directive:fragment-definition", c
    for oi, op in enumerate(case["doc"]["ops"]):
        for vi in range(len(op["vars"])):
            c = _clone(case)
            v = c["doc"]["ops"][oi]["vars"][vi]
            v[1] = v[1] + (" = " + v[2] if v[2] is not None else "") + " @nope"
            v[2] = None
            yield "unknown-directive:variable-definition", c


@operator("misplaced-directive", "KnownDirectivesChecker")
def misplaced_directive(sm, case):
    for oi in range(len(case["doc"]["ops"])):
        c = _clone(case)
        c["doc"]["ops"][oi]["dirs"].append(["skip", {"if": "false"}])
        yield "misplaced-directive:skip-on-%s" % case["doc"]["ops"][oi].get("kind", "query"), c
    for k in range(len(case["doc"]["frags"])):
        c = _clone(case)
        c["doc"]["frags"][k][2].append(["include", {"if": "true"}])
        yield "misplaced-directive:include-on-fragment-definition", c
    for c, lst, i, parent, s in _positions(sm, case, lambda s, p: True):
        (s[3] if s[0] == "f" else s[2]).append(["deprecated", {}])
        yield "misplaced-directive:deprecated-on-%s" % ({"f": "field", "s": "spread"}.get(s[0]) or ("inline-typed" if s[1] else "inline-untyped")), c
    for oi, op in enumerate(case["doc"]["ops"]):
        for vi in range(len(op["vars"])):
            c = _clone(case)
            v = c["doc"]["ops"][oi]["vars"][vi]
            v[1] = v[1] + (" = " + v[2] if v[2] is not None else "") + " @skip(if: true)"
            v[2] = None
            yield "misplaced-directive:skip-on-variable-definition", c


@operator("repeated-directive", "UniqueDirectivesPerLocationChecker")
def repeated_directive(sm, case):
    """the same directive twice at one location, at EVERY location kind of an executable document.
    Where the schema defines @tag (legal everywhere) it is used, so that only this rule is broken;
    otherwise @skip / @include on the three locations where they are legal."""
    has_tag = any("@tag" in d for d in sm.get("directives", ()))
    kinds = {"f": "field", "i": "inline", "s": "spread"}

    def lockind(s_):
        if s_[0] == "i":
            return "inline-typed" if s_[1] else "inline-untyped"
        return kinds[s_[0]]

    for c, lst, i, parent, s in _positions(sm, case, lambda s, p: not (s[3] if s[0] == "f" else s[2])):
        d = s[3] if s[0] == "f" else s[2]
        if has_tag:
            d.extend([["tag", {}], ["tag", {"n": "1"}]])
        else:
            d.extend([["skip", {"if": "false"}], ["skip", {"if": "false"}]])
        yield "repeated-directive:%s:identical" % lockind(s), c
    for c, lst, i, parent, s in _positions(sm, case, lambda s, p: not (s[3] if s[0] == "f" else s[2])):
        d = s[3] if s[0] == "f" else s[2]
        d.append(["include", {"if": "true"}])
        d.append(["skip", {"if": "false"}])
        d.append(["include", {"if": "true"}])
        yield "repeated-directive:%s:interleaved" % lockind(s), c
    if not has_tag:
        return
    for oi, op in enumerate(case["doc"]["ops"]):
        c = _clone(case)
        c["doc"]["ops"][oi]["dirs"].extend([["tag", {}], ["tag", {}]])
        yield "repeated-directive:%s-operation:identical" % op.get("kind", "query"), c
        for vi in range(len(op["vars"])):
            c = _clone(case)
            v = c["doc"]["ops"][oi]["vars"][vi]
            v[1] = v[1] + (" = " + v[2] if v[2] is not None else "") + " @tag @tag(n: 2)"
            v[2] = None
            yield "repeated-directive:variable-definition:identical", c
    for k in range(len(case["doc"]["frags"])):
        c = _clone(case)
        c["doc"]["frags"][k][2].extend([["tag", {}], ["tag", {}]])
        yield "repeated-directive:fragment-definition:identical", c


# =============================================================================================
# arguments and values


@operator("unknown-argument", "KnownArgumentNamesChecker")
def unknown_argument(sm, case):
    for c, lst, i, parent, s in _positions(sm, case, lambda s, p: s[0] == "f" and _fdef(sm, p, s) is not None):
        s[4] = dict(s[4])
        s[4]["zzz"] = "1"
        yield "unknown-argument:field:%s" % ("has-args" if _fdef(sm, parent, s)["args"] else "no-args"), c
    for c, lst, i, parent, s in _positions(sm, case, lambda s, p: not (s[3] if s[0] == "f" else s[2])):
        (s[3] if s[0] == "f" else s[2]).append(["skip", {"if": "false", "unless": "true"}])
        yield "unknown-argument:directive", c


@operator("dup-argument", "UniqueArgumentNamesChecker")
def dup_argument(sm, case):
    for c, lst, i, parent, s in _positions(sm, case, lambda s, p: s[0] == "f" and s[4]):
        an = list(s[4])[0]
        s[4] = dict(s[4])
        s[4][an + " "] = s[4][an]
        yield "dup-argument:field:same-value", c
    for c, lst, i, parent, s in _positions(sm, case, lambda s, p: not (s[3] if s[0] == "f" else s[2])):
        (s[3] if s[0] == "f" else s[2]).append(["include", {"if": "true", "if ": "true"}])
        yield "dup-argument:directive", c


BAD_LITERALS = {
    # arg type -> [(tag, text)]
    "Int": [("string-for-int", '"1"'), ("float-for-int", "1.5"), ("enum-for-int", "RED"), ("list-for-int", "[1]"), ("object-for-int", "{a: 1}"), ("bool-for-int", "true"), ("int-out-of-range", "2147483648")],
    "String": [("int-for-string", "1"), ("enum-for-string", "RED")],
    "Color": [("string-for-enum", '"RED"'), ("unknown-enum-value", "PURPLE"), ("int-for-enum", "1")],
    "[Int!]": [("null-item-for-nonnull", "[1, null]"), ("string-item", '["x"]'), ("object-for-list", "{a: 1}")],
    "In": [("unknown-input-field", "{zz: 1}"), ("scalar-for-input-object", "1"), ("bad-nested-value", '{a: "x"}'), ("bad-deep-value", "{c: {a: true}}"), ("list-of-objects-for-object", "[{a: 1}, {a: 2}]")],
    "Req": [("missing-required-input-field", "{opt: 1}"), ("null-required-input-field", "{must: null}")],
    "Int!": [("null-for-nonnull", "null"), ("string-for-int", '"x"')],
    "ID!": [("float-for-id", "1.5"), ("bool-for-id", "true"), ("null-for-nonnull", "null")],
    "Boolean!": [("int-for-bool", "1"), ("string-for-bool", '"true"'), ("null-for-nonnull", "null")],
}


@operator("bad-literal", "ValuesOfCorrectTypeChecker")
def bad_literal(sm, case):
    def pred(s, p):
        return s[0] == "f" and _fdef(sm, p, s) is not None and _fdef(sm, p, s)["args"]

    for c0, lst0, i0, parent, s0 in _positions(sm, case, pred):
        fd = _fdef(sm, parent, s0)
        for an, a in fd["args"].items():
            if "$" in s0[4].get(an, ""):
                continue
            for tag, text in BAD_LITERALS.get(a["type"], ()):
                c = _clone(c0)
                l2 = _same_container(sm, c0, c, lst0)
                s = l2[i0]
                s[4] = dict(s[4])
                s[4][an] = text
                yield "bad-literal:%s" % tag, c
    # directive argument
    for c, lst, i, parent, s in _positions(sm, case, lambda s, p: not (s[3] if s[0] == "f" else s[2])):
        for tag, text in BAD_LITERALS["Boolean!"]:
            c2 = _clone(c)
            l2 = _same_container(sm, c, c2, lst)
            s2 = l2[i]
            (s2[3] if s2[0] == "f" else s2[2]).append(["skip", {"if": text}])
            yield "bad-literal:directive:%s" % tag, c2
    # variable default values
    for oi, op in enumerate(case["doc"]["ops"]):
        for vi, v in enumerate(op["vars"]):
            base = v[1].rstrip("!")
            for tag, text in BAD_LITERALS.get(base, BAD_LITERALS.get(v[1], ()))[:2]:
                if v[1].endswith("!"):
                    continue
                c = _clone(case)
                c["doc"]["ops"][oi]["vars"][vi][2] = text
                c["vars"][v[0]] = [x for x in c["vars"].get(v[0], []) if x != OMIT] or [OMIT]
                yield "bad-literal:variable-default:%s" % tag, c


@operator("missing-required-argument", "ProvidedRequiredArgumentsChecker")
def missing_required_argument(sm, case):
    def pred(s, p):
        fd = _fdef(sm, p, s) if s[0] == "f" else None
        return fd is not None and any(an in s[4] for an in _required_args(fd))

    for c, lst, i, parent, s in _positions(sm, case, pred):
        fd = _fdef(sm, parent, s)
        s[4] = {k: v for k, v in s[4].items() if k not in _required_args(fd)}
        yield "missing-required-argument:field", c
    for c, lst, i, parent, s in _positions(sm, case, lambda s, p: not (s[3] if s[0] == "f" else s[2])):
        (s[3] if s[0] == "f" else s[2]).append(["skip", {}])
        yield "missing-required-argument:directive:%s" % {"f": "field", "i": "inline", "s": "spread"}[s[0]], c


DUP_INPUT_LITERALS = {
    # argument type -> [(tag, literal)]; In = {a: Int, b: [String!], c: In2 {a: Int, b: [String!]}}
    "In": [
        ("adjacent", "{a: 1, a: 1}"),
        ("scalar-between", "{a: 1, b: [], a: 2}"),
        ("nested-object-between", "{a: 1, c: {a: 2}, a: 3}"),
        ("nested-object-before", "{c: {a: 2}, a: 1, a: 3}"),
        ("nested-object-after", "{a: 1, a: 3, c: {a: 2}}"),
        ("nested-object-between-other-name", "{b: [], c: {a: 2}, b: []}"),
        ("inside-nested", "{c: {a: 1, a: 1}}"),
        ("inside-nested-scalar-between", "{c: {a: 1, b: [], a: 2}}"),
        ("inside-nested-with-outer-namesake", "{a: 0, c: {a: 1, a: 2}}"),
        ("inside-nested-then-outer-namesake", "{c: {a: 1, a: 2}, a: 0}"),
        ("duplicated-nested-object", "{c: {a: 1}, a: 2, c: {a: 3}}"),
    ],
    "[In]": [
        ("list-item-adjacent", "[{a: 1}, {a: 1, a: 2}]"),
        ("list-item-nested-between", "[{a: 1}, {a: 1, c: {a: 2}, a: 3}, {a: 4}]"),
        ("first-list-item", "[{a: 1, c: {a: 2}, a: 3}, {a: 4}]"),
    ],
}


@operator("dup-input-field", "UniqueInputFieldNamesChecker")
def dup_input_field(sm, case):
    def pred(s, p):
        fd = _fdef(sm, p, s) if s[0] == "f" else None
        return fd is not None and any(a["type"] in DUP_INPUT_LITERALS for a in fd["args"].values())

    for c0, lst0, i0, parent, s0 in _positions(sm, case, pred):
        fd = _fdef(sm, parent, s0)
        for an, a in fd["args"].items():
            if a["type"] not in DUP_INPUT_LITERALS or "$" in s0[4].get(an, ""):
                continue
            for tag, text in DUP_INPUT_LITERALS[a["type"]]:
                c = _clone(c0)
                l2 = _same_container(sm, c0, c, lst0)
                s = l2[i0]
                dict_args(s, [(an, text)])
                yield "dup-input-field:%s:argument" % tag, c
            if a["type"] == "In" and an not in s0[4]:
                # as the default value of a variable used at that argument
                for tag, text in DUP_INPUT_LITERALS["In"][2:4] + DUP_INPUT_LITERALS["In"][6:7]:
                    c = _clone(c0)
                    l2 = _same_container(sm, c0, c, lst0)
                    s = l2[i0]
                    name = O._fresh(_all_var_names(c["doc"]), ["dv", "dupdefault"])
                    for op in _reaching_ops(c["doc"], l2):
                        op["vars"].append([name, "In", text])
                    c["vars"][name] = [OMIT]
                    dict_args(s, [(an, "$" + name)])
                    yield "dup-input-field:%s:variable-default" % tag, c


# variable positions ---------------------------------------------------------------------------

VAR_POSITION_VIOLATIONS = [
    # (tag, variable type, default, arg type wanted, arg value text with $V, choices)
    ("string-for-int", "String", None, "Int", "$V", [OMIT, "s"]),
    ("nullable-for-nonnull", "Int", None, "Int!", "$V", [OMIT, 1]),
    ("list-for-item", "[Int!]", None, "Int", "$V", [OMIT, [1]]),
    ("item-for-list", "Int", None, "[Int!]", "$V", [OMIT, 1]),
    ("nullable-items-for-nonnull-items", "[Int]", None, "[Int!]", "$V", [OMIT, [1]]),
    ("nullable-in-nonnull-list-item", "Int", None, "[Int!]", "[1, $V]", [OMIT, 1]),
    ("string-in-int-list-item", "String", None, "[Int!]", "[$V]", [OMIT, "s"]),
    ("wrong-type-in-object-field", "String", None, "In", "{a: $V}", [OMIT, "s"]),
    ("enum-for-string", "Color", None, "String", "$V", [OMIT, "RED"]),
    ("int-for-id", "Int", None, "ID!", "$V", [1]),
]


@operator("variable-in-wrong-position", "VariablesInAllowedPositionChecker")
def variable_in_wrong_position(sm, case):
    def pred(s, p):
        return s[0] == "f" and _fdef(sm, p, s) is not None and _fdef(sm, p, s)["args"]

    for c0, lst0, i0, parent, s0 in _positions(sm, case, pred):
        fd = _fdef(sm, parent, s0)
        where = "operation" if _op_of_position(c0["doc"], lst0) is not None else "fragment"
        for tag, vtype, vdef, atype, text, choices in VAR_POSITION_VIOLATIONS:
            ans = [an for an, a in fd["args"].items() if a["type"] == atype and "$" not in s0[4].get(an, "")]
            if not ans:
                continue
            if atype.endswith("!") and fd["args"][ans[0]]["default"] is not None and tag == "nullable-for-nonnull":
                continue  # allowed when the location has a default value
            c = _clone(c0)
            l2 = _same_container(sm, c0, c, lst0)
            s = l2[i0]
            name = O._fresh(_all_var_names(c["doc"]), ["pv", "pos", "pw"])
            for op in _reaching_ops(c["doc"], l2):
                op["vars"].append([name, vtype, vdef])
            c["vars"][name] = list(choices)
            s[4] = dict(s[4])
            s[4][ans[0]] = text.replace("$V", "$" + name)
            yield "variable-in-wrong-position:%s:%s" % (tag, where), c


@operator("variable-at-two-positions", "VariablesInAllowedPositionChecker")
def variable_at_two_positions(sm, case):
    """ONE variable used at two differently typed positions, only one of which accepts it."""

    def pred(s, p):
        fd = _fdef(sm, p, s) if s[0] == "f" else None
        if fd is None:
            return False
        ts = {a["type"] for a in fd["args"].values()}
        return "Int" in ts and "String" in ts and not s[4]

    for c0, lst0, i0, parent, s0 in _positions(sm, case, pred):
        fd = _fdef(sm, parent, s0)
        ai = [an for an, a in fd["args"].items() if a["type"] == "Int"][0]
        as_ = [an for an, a in fd["args"].items() if a["type"] == "String"][0]
        for tag, builder in (
            ("same-field:good-first", lambda s, v: [dict_args(s, [(ai, v), (as_, v)])]),
            ("same-field:bad-first", lambda s, v: [dict_args(s, [(as_, v), (ai, v)])]),
            ("two-fields:good-first", lambda s, v: [alias(dict_args(copy.deepcopy(s), [(ai, v)]), "g1"), alias(dict_args(copy.deepcopy(s), [(as_, v)]), "b1")]),
            ("two-fields:bad-first", lambda s, v: [alias(dict_args(copy.deepcopy(s), [(as_, v)]), "b1"), alias(dict_args(copy.deepcopy(s), [(ai, v)]), "g1")]),
        ):
            c = _clone(c0)
            l2 = _same_container(sm, c0, c, lst0)
            s = l2[i0]
            name = O._fresh(_all_var_names(c["doc"]), ["tv", "two"])
            for op in _reaching_ops(c["doc"], l2):
                op["vars"].append([name, "Int", None])
            c["vars"][name] = [OMIT, 3]
            l2[i0 : i0 + 1] = builder(s, "$" + name)
            yield "variable-at-two-positions:%s" % tag, c


def dict_args(s, pairs):
    s[4] = dict(s[4])
    for k, v in pairs:
        s[4][k] = v
    return s


def alias(s, a):
    s[2] = a
    return s


# =============================================================================================
# overlapping fields


@operator("conflicting-fields", "OverlappingFieldsCanBeMergedChecker")
def conflicting_fields(sm, case):
    """two fields under one response key that differ in name, in arguments or in (leaf) type"""

    def leafpred(s, p):
        if s[0] != "f" or p is None or s[5] is not None or s[1].startswith("__"):
            return False
        if p == sm.get("subscription"):
            return False  # keep the single-root-field rule out of the picture
        return len(_leaf_fields(sm, p)) >= 2 and _fdef(sm, p, s) is not None and not _required_args(_fdef(sm, p, s))

    for c, lst, i, parent, s in _positions(sm, case, leafpred):
        other = [f for f in _leaf_fields(sm, parent) if f != s[1]][0]
        lst.append(O.F(other, alias=O.response_key(s)))
        yield "conflicting-fields:different-fields:direct", c
    for c, lst, i, parent, s in _positions(sm, case, leafpred):
        other = [f for f in _leaf_fields(sm, parent) if f != s[1]][0]
        lst.insert(0, O.I(None, [O.F(other, alias=O.response_key(s))]))
        yield "conflicting-fields:different-fields:inline-first", c
    for names in (("A", "B", "C"), ("Left", "Right", "Deep"), ("A", "Right", "C")):
        tagn = "single" if len(names[0]) == 1 and len(names[1]) == 1 else ("multi" if len(names[0]) > 1 else "mixed")
        for c, lst, i, parent, s in _positions(sm, case, leafpred):
            other = [f for f in _leaf_fields(sm, parent) if f != s[1]][0]
            used = {f[0] for f in c["doc"]["frags"]}
            n1, n2, n3 = [n if n not in used else n + "q" for n in names]
            # {...n1 ...n2}; n1 has the field, n2 only spreads n3, n3 has the conflicting alias
            c["doc"]["frags"].append([n1, parent, [], [copy.deepcopy(s)]])
            c["doc"]["frags"].append([n2, parent, [], [O.SP(n3)]])
            c["doc"]["frags"].append([n3, parent, [], [O.F(other, alias=O.response_key(s))]])
            lst[i : i + 1] = [O.SP(n1), O.SP(n2)]
            yield "conflicting-fields:different-fields:nested-fragments:%s" % tagn, c
        for c, lst, i, parent, s in _positions(sm, case, leafpred):
            other = [f for f in _leaf_fields(sm, parent) if f != s[1]][0]
            used = {f[0] for f in c["doc"]["frags"]}
            n1, n2, n3 = [n if n not in used else n + "q" for n in names]
            # field stays; {...n2} where n2 spreads a filler fragment first and n3 second
            c["doc"]["frags"].append([n1, parent, [], [O.F("__typename")]])
            c["doc"]["frags"].append([n2, parent, [], [O.SP(n1), O.SP(n3)]])
            c["doc"]["frags"].append([n3, parent, [], [O.F(other, alias=O.response_key(s))]])
            lst.append(O.SP(n2))
            yield "conflicting-fields:different-fields:field-vs-second-nested:%s" % tagn, c
        for c, lst, i, parent, s in _positions(sm, case, leafpred):
            other = [f for f in _leaf_fields(sm, parent) if f != s[1]][0]
            used = {f[0] for f in c["doc"]["frags"]}
            n1, n2, n3 = [n if n not in used else n + "q" for n in names]
            n4 = "Fill" if "Fill" not in used else "Fillq"
            # two fragments side by side, the conflict sits in the SECOND nested fragment of each
            c["doc"]["frags"].append([n4, parent, [], [O.F("__typename")]])
            c["doc"]["frags"].append([n1, parent, [], [O.SP(n4), O.SP(n3)]])
            c["doc"]["frags"].append([n2, parent, [], [copy.deepcopy(s)]])
            c["doc"]["frags"].append([n3, parent, [], [O.F(other, alias=O.response_key(s))]])
            lst[i : i + 1] = [O.SP(n1), O.SP(n2)]
            yield "conflicting-fields:different-fields:second-nested-vs-fragment:%s" % tagn, c

    # a field of an abstract parent against a different field below one of its possible object types
    def abstract_leafpred(s, p):
        return s[0] == "f" and p is not None and S.kind_of(sm, p) == "interface" and s[5] is None and s[1] in S.fields_of(sm, p)

    for c, lst, i, parent, s in _positions(sm, case, abstract_leafpred):
        for obj in S.possible_types(sm, parent):
            other = [f for f in _leaf_fields(sm, obj) if f != s[1]]
            # prefer a field of the same declared type: then only the name differs
            want = S.fields_of(sm, parent)[s[1]]["type"]
            same = [f for f in other if S.fields_of(sm, obj)[f]["type"] == want]
            other = same or other
            if other:
                lst.append(O.I(obj, [O.F(other[-1], alias=O.response_key(s))]))
                yield "conflicting-fields:different-fields:object-in-abstract", c
                break

    # different arguments, for every argument value kind
    def argpred(s, p):
        fd = _fdef(sm, p, s) if s[0] == "f" else None
        return fd is not None and fd.get("echo") and s[5] is None and not any("$" in v for v in s[4].values())

    for c0, lst0, i0, parent, s0 in _positions(sm, case, argpred):
        fd = _fdef(sm, parent, s0)
        for kind, an, v1, v2, spec in ARG_KIND_PAIRS:
            if an not in fd["args"]:
                continue
            c = _clone(c0)
            l2 = _same_container(sm, c0, c, lst0)
            s = l2[i0]
            a, b = copy.deepcopy(s), copy.deepcopy(s)
            if spec:
                n1 = O._fresh(_all_var_names(c["doc"]), ["a1", "arg1"])
                n2 = O._fresh(_all_var_names(c["doc"]) | {n1}, ["a2", "arg2"])
                for op in _reaching_ops(c["doc"], l2):
                    op["vars"].append([n1, spec, None])
                    op["vars"].append([n2, spec, None])
                c["vars"][n1] = [1]
                c["vars"][n2] = [2]
                v1, v2 = "$" + n1, "$" + n2
            dict_args(a, [(an, v1)])
            dict_args(b, [(an, v2)])
            l2[i0 : i0 + 1] = [a, b]
            yield "conflicting-fields:different-arguments:%s" % kind, c
        # one with, one without the argument
        c = _clone(c0)
        l2 = _same_container(sm, c0, c, lst0)
        s = l2[i0]
        a, b = copy.deepcopy(s), copy.deepcopy(s)
        an = list(fd["args"])[0]
        dict_args(a, [(an, "1")])
        b[4] = {k: v for k, v in b[4].items() if k != an}
        l2[i0 : i0 + 1] = [a, b]
        yield "conflicting-fields:different-arguments:missing", c

    # conflicting leaf types below an abstract parent (objects cannot overlap: names may differ, types not)
    def abspred(s, p):
        return s[0] == "f" and s[5] is not None and _fdef(sm, p, s) is not None and S.kind_of(sm, S.named_of(S.parse_type(_fdef(sm, p, s)["type"]))) in ("interface", "union")

    for c, lst, i, parent, s in _positions(sm, case, abspred):
        tname = S.named_of(S.parse_type(_fdef(sm, parent, s)["type"]))
        poss = S.possible_types(sm, tname)
        found = None
        for x in poss:
            for y in poss:
                if x >= y:
                    continue
                for fx in _leaf_fields(sm, x):
                    for fy in _leaf_fields(sm, y):
                        tx = S.fields_of(sm, x)[fx]["type"]
                        ty = S.fields_of(sm, y)[fy]["type"]
                        if tx != ty and found is None:
                            found = (x, fx, y, fy)
        if found:
            x, fx, y, fy = found
            s[5].append(O.I(x, [O.F(fx, alias="same")]))
            s[5].append(O.I(y, [O.F(fy, alias="same")]))
            yield "conflicting-fields:different-types:exclusive-objects", c


ARG_KIND_PAIRS = [
    # (kind, argument name on the echo fields, value 1, value 2, variable type or None)
    ("int", "i", "1", "2", None),
    ("string", "s", '"a"', '"b"', None),
    ("enum", "e", "RED", "GREEN", None),
    ("list", "l", "[1]", "[2]", None),
    ("list-length", "l", "[1]", "[1, 1]", None),
    ("object", "o", "{a: 1}", "{a: 2}", None),
    ("null-vs-int", "i", "null", "1", None),
    ("variable", "i", None, None, "Int"),
]


# =============================================================================================
# validity-preserving operators (no rule label): identical duplicates for every argument value kind


SAME_ARG_KINDS = [
    ("int", "i", "1", None),
    ("string", "s", '"a"', None),
    ("enum", "e", "RED", None),
    ("list", "l", "[1, 2]", None),
    ("empty-list", "l", "[]", None),
    ("object", "o", "{a: 1}", None),
    ("null", "i", "null", None),
    ("variable", "i", None, ("Int", None, [OMIT, 2])),
    ("variable-list", "l", None, ("[Int!]", None, [OMIT, [1]])),
    ("list-with-variable", "l", "[1, $V]", ("Int!", None, [2])),
    ("object-with-variable", "o", "{a: $V}", ("Int", None, [1, None])),
]


@operator("identical-duplicate", None)
def identical_duplicate(sm, case):
    def argpred(s, p):
        fd = _fdef(sm, p, s) if s[0] == "f" else None
        return fd is not None and fd.get("echo") and s[5] is None and not s[4]

    for c0, lst0, i0, parent, s0 in _positions(sm, case, argpred):
        fd = _fdef(sm, parent, s0)
        for kind, an, text, spec in SAME_ARG_KINDS:
            if an not in fd["args"]:
                continue
            for place in ("adjacent", "inline", "fragment"):
                c = _clone(c0)
                l2 = _same_container(sm, c0, c, lst0)
                s = l2[i0]
                t = text
                if spec:
                    name = O._fresh(_all_var_names(c["doc"]), ["d", "dupv"])
                    for op in _reaching_ops(c["doc"], l2):
                        op["vars"].append([name, spec[0], spec[1]])
                    c["vars"][name] = list(spec[2])
                    t = (text or "$V").replace("$V", "$" + name)
                dict_args(s, [(an, t)])
                b = copy.deepcopy(s)
                if place == "adjacent":
                    l2.insert(i0 + 1, b)
                elif place == "inline":
                    l2.append(O.I(None, [b]))
                else:
                    n = _fresh_frag(c["doc"], ["Dup", "Dp"])
                    c["doc"]["frags"].append([n, parent, [], [b]])
                    l2.append(O.SP(n))
                yield "identical-duplicate:%s:%s" % (kind, place), c


@operator("wrap-in-fragments", None)
def wrap_in_fragments(sm, case):
    for pos, (lst, i, parent) in enumerate(O.typed_nodes(sm, case["doc"])):
        if parent is None or lst[i][0] == "s":
            continue
        for style in ("1", "2"):
            for names in O.FRAG_NAMES[:2]:
                c = O.apply(sm, case, ("frag:%s:%s" % (style, "multi" if len(names[0]) > 1 else "single"), pos, style, names))
                yield "wrap-in-fragments:%s:%s" % (style, "multi" if len(names[0]) > 1 else "single"), c


# =============================================================================================


def all_mutants(sm, case, labelled_only=False):
    """(operator name, rule, tag, mutant) for every operator at every position; deterministic."""
    for name, rule, fn in OPERATORS:
        if labelled_only and rule is None:
            continue
        for tag, c in fn(sm, case):
            c = dict(c)
            c["muts"] = list(case.get("muts", [])) + [tag]
            yield name, rule, tag, c


RULES = sorted({rule for _n, rule, _f in OPERATORS if rule})


# =============================================================================================
# seed documents (all valid by construction)


def hand_seeds():
    """(schema name, case) -- richer documents on the combined schema H that give every operator a
    position to work on (variables, directives, nested fragments, abstract types, all three roots)."""
    F, I, SP, mkop, mkdoc = O.F, O.I, O.SP, O.mkop, O.mkdoc
    out = []
    out.append(("H", {
        "doc": mkdoc(
            [mkop([
                F("echo", args={"i": "$v", "o": "{a: 1}"}),
                F("pet", [F("name"), SP("PetF"), I("Dog", [F("barks", dirs=[["include", {"if": "$f"}]])])]),
                F("box", [F("v")], args={"id": '"b1"'}),
            ], name="Q1", vars_=[["v", "Int", None], ["f", "Boolean!", None]])],
            [["PetF", "Pet", [], [F("n"), I("Cat", [F("lives")])]]],
        ),
        "vars": {"v": [OMIT, 1], "f": [True, False]},
    }))
    out.append(("H", {
        "doc": mkdoc([mkop([
            F("t", [F("__typename"), I("Dog", [F("f"), F("legs")]), I("Fish", [F("f")])]),
            F("w", [F("legs")]),
            F("echo"),
        ])]),
        "vars": {},
    }))
    out.append(("H", {
        "doc": mkdoc([mkop([F("inc", args={"by": "$n"}), F("set", [F("v")], args={"v": "1"})], kind="mutation", name="M1", vars_=[["n", "Int!", "2"]])]),
        "vars": {"n": [OMIT, 5]},
    }))
    out.append(("H", {"doc": mkdoc([mkop([F("tick")], kind="subscription")]), "vars": {}}))
    # a chain of fragments A -> B -> C, the variable is used at the far end; two operations
    out.append(("H", {
        "doc": mkdoc(
            [mkop([SP("Outer")], name="A", vars_=[["v", "Int", None]]), mkop([F("c")], name="Bee")],
            [
                ["Outer", "Q", [], [SP("Inner")]],
                ["Inner", "Q", [], [SP("Deep")]],
                ["Deep", "Q", [], [F("echo", args={"i": "$v"})]],
            ],
        ),
        "vars": {"v": [OMIT, 2]},
        "opnames": ["A", "Bee"],
    }))
    out.append(("H", {
        "doc": mkdoc(
            [mkop([F("pets", [F("name")]), F("pet", [SP("DogBits"), SP("D2")])])],
            [["DogBits", "Dog", [], [F("barks"), F("legs")]], ["D2", "Pet", [], [F("n")]]],
        ),
        "vars": {},
    }))
    out.append(("H", {
        "doc": mkdoc(
            [mkop([I(None, [F("c")]), I("Q", [F("d")]), SP("Loc"), F("echo", args={"i": "$v"})], name="Locs", vars_=[["v", "Int", None]])],
            [["Loc", "Q", [], [F("fl")]]],
        ),
        "vars": {"v": [OMIT, 1]},
    }))
    return out


def generated_seeds(max_nodes):
    """(schema name, case): the base documents of the C04 corpus up to `max_nodes` nodes"""
    for name, root in (("A", "query"), ("B", "query"), ("C", "query"), ("C", "mutation")):
        sm = S.SCHEMAS[name]
        for n, doc in O.base_docs(sm, max_nodes, root):
            yield name, {"doc": doc, "vars": {}}


def all_seeds(max_nodes):
    return hand_seeds() + list(generated_seeds(max_nodes)) + placement_seeds()


# =============================================================================================
# placement seeds: selections inside untyped / same-typed inline fragments below parents whose
# type is wrapped (T, T!, [T], [T!]!), one and two levels deep (schema D).  Every operator then
# places its violation INSIDE those fragments, where the validator has to look through the wrapper.


def placement_seeds():
    F, I, mkop, mkdoc = O.F, O.I, O.mkop, O.mkdoc
    out = []
    parents = [("first", "Dog"), ("second", "Dog"), ("kennel", "Dog"), ("dogs", "Dog"), ("pets", "Pet")]

    def body():
        return [F("name"), F("owner", [F("name")]), F("tag", args={"r": "1", "i": "2"})]

    inc = [["include", {"if": "true"}]]
    styles = [
        ("untyped", lambda t: [I(None, body())]),
        ("untyped-directive", lambda t: [I(None, body(), dirs=copy.deepcopy(inc))]),
        ("same-type", lambda t: [I(t, body())]),
        ("untyped-untyped", lambda t: [I(None, [I(None, body())])]),
        ("same-type-untyped", lambda t: [I(t, [I(None, body(), dirs=copy.deepcopy(inc))])]),
        ("untyped-in-child", lambda t: [F("owner", [I(None, [F("name"), F("best", [I(None, [F("name")])])])])]),
    ]
    for fname, tname in parents:
        for tag, mk in styles:
            out.append(("D", {"doc": mkdoc([mkop([F(fname, mk(tname))])]), "vars": {}, "placement": "%s/%s" % (fname, tag)}))
    return out


# =============================================================================================
# custom scalars in argument position: every literal kind (unlabelled: whether a literal is acceptable
# is the scalar's business -- validation must RETURN either way)

SCALAR_LITERALS = [
    ("int", "1", None),
    ("float", "1.5", None),
    ("string", '"x"', None),
    ("boolean", "true", None),
    ("null", "null", None),
    ("enum", "FOO", None),
    ("list", '[1, "a"]', None),
    ("empty-list", "[]", None),
    ("object", "{a: 1}", None),
    ("empty-object", "{}", None),
    ("nested-object-enum", "{a: {b: FOO}}", None),
    ("object-with-variable", "{a: $V}", ("Int", None, [OMIT, 1])),
    ("list-with-variable", "[$V]", ("Int", None, [OMIT, 1])),
    ("list-of-objects", "[{a: 1}, {b: [FOO]}]", None),
    ("variable", "$V", "SAME"),
]


@operator("custom-scalar-literal", None)
def custom_scalar_literal(sm, case):
    def is_custom(tname):
        t = sm["types"].get(tname)
        return t is not None and t["kind"] == "scalar"

    def pred(s, p):
        fd = _fdef(sm, p, s) if s[0] == "f" else None
        return fd is not None and any(is_custom(S.named_of(S.parse_type(a["type"]))) for a in fd["args"].values())

    for c0, lst0, i0, parent, s0 in _positions(sm, case, pred):
        fd = _fdef(sm, parent, s0)
        for an, a in fd["args"].items():
            tname = S.named_of(S.parse_type(a["type"]))
            if not is_custom(tname) or an in s0[4]:
                continue
            impl = sm["types"][tname].get("impl", "code")
            for kind, text, spec in SCALAR_LITERALS:
                c = _clone(c0)
                l2 = _same_container(sm, c0, c, lst0)
                s = l2[i0]
                t = text
                if spec is not None:
                    vtype = a["type"] if spec == "SAME" else spec[0]
                    choices = [OMIT] if spec == "SAME" else list(spec[2])
                    name = O._fresh(_all_var_names(c["doc"]), ["sv", "scalarvar"])
                    for op in _reaching_ops(c["doc"], l2):
                        op["vars"].append([name, vtype, None])
                    c["vars"][name] = choices
                    t = text.replace("$V", "$" + name)
                dict_args(s, [(an, t)])
                yield "custom-scalar-literal:%s:%s" % (impl, kind), c
    # as the default value of a variable of that type
    for oi, op in enumerate(case["doc"]["ops"]):
        for tname, t in sm["types"].items():
            if t["kind"] != "scalar":
                continue
            for kind, text, spec in SCALAR_LITERALS:
                if spec is not None:
                    continue
                c = _clone(case)
                name = _fresh_var(c["doc"]["ops"][oi], ("dv", "defv"))
                c["doc"]["ops"][oi]["vars"].append([name, tname, text])
                c["vars"][name] = [OMIT]
                yield "custom-scalar-literal:%s:variable-default:%s" % (t.get("impl", "code"), kind), c
        break


# =============================================================================================
# three (four) fields under one response name, exactly ONE pair of which conflicts


def _neutral_conflict_triples(sm, parent, s):
    """for a composite field `s` below `parent` whose type has two leaf fields a != b (same declared
    type not required: the names differ): N = s{a}, A = s{x: a}, B = s{x: b} -- only A/B conflict"""
    fd = _fdef(sm, parent, s)
    if fd is None or s[5] is None:
        return None
    tname = S.named_of(S.parse_type(fd["type"]))
    leaves = _leaf_fields(sm, tname) if S.kind_of(sm, tname) in ("object", "interface") else []
    if len(leaves) < 2:
        return None
    a, b = leaves[0], leaves[1]

    def mk(children):
        n = copy.deepcopy(s)
        n[5] = children
        return n

    return mk([O.F(a)]), mk([O.F(a, alias="x")]), mk([O.F(b, alias="x")])


def _exclusive_triples(sm, tname):
    """below abstract type `tname`: N = ... on X { x: fa }, A = ... on Y { x: fb }, B = ... on Y { x: fc }
    with X != Y objects, fb != fc, all three of one declared type -- only A/B conflict"""
    poss = S.possible_types(sm, tname)
    for y in poss:
        fy = _leaf_fields(sm, y)
        for i1, fb in enumerate(fy):
            for fc in fy[i1 + 1 :]:
                tb = S.fields_of(sm, y)[fb]["type"]
                if S.fields_of(sm, y)[fc]["type"] != tb:
                    continue
                for x in poss:
                    if x == y:
                        continue
                    for fa in _leaf_fields(sm, x):
                        if S.fields_of(sm, x)[fa]["type"] == tb:
                            return O.I(x, [O.F(fa, alias="x")]), O.I(y, [O.F(fb, alias="x")]), O.I(y, [O.F(fc, alias="x")])
    return None


def _arrangements(n_neutral):
    """orders of [A, B] + n neutrals, as index tuples into [A, B, N1, N2..]; all permutations"""
    import itertools

    return list(itertools.permutations(range(2 + n_neutral)))


@operator("conflict-among-several", "OverlappingFieldsCanBeMergedChecker")
def conflict_among_several(sm, case):
    def comppred(s, p):
        return s[0] == "f" and p is not None and _neutral_conflict_triples(sm, p, s) is not None

    for count, sizetag in ((1, "three"), (2, "four")):
        for c0, lst0, i0, parent, s0 in _positions(sm, case, comppred):
            n, a, b = _neutral_conflict_triples(sm, parent, s0)
            items = [a, b] + [copy.deepcopy(n) for _ in range(count)]
            for perm in _arrangements(count):
                if count == 2 and perm.index(2) > perm.index(3):
                    continue  # the two neutrals are interchangeable
                postag = "".join("AB"[k] if k < 2 else "n" for k in perm)
                for place in ("direct", "inline", "spreads"):
                    c = _clone(c0)
                    l2 = _same_container(sm, c0, c, lst0)
                    nodes = [copy.deepcopy(items[k]) for k in perm]
                    if place == "inline":
                        nodes = [O.I(None if j % 2 else parent, [x]) for j, x in enumerate(nodes)]
                    elif place == "spreads":
                        used = {f[0] for f in c["doc"]["frags"]}
                        wrapped = []
                        for j, x in enumerate(nodes):
                            name = O._fresh(used, ["Part%d" % j, "P%d" % j, "Partq%d" % j])
                            used.add(name)
                            c["doc"]["frags"].append([name, parent, [], [x]])
                            wrapped.append(O.SP(name))
                        nodes = wrapped
                    l2[i0 : i0 + 1] = nodes
                    yield "conflict-among-several:%s:merged-parents:%s:%s" % (sizetag, place, postag), c
            break  # one composite position per document

    def abspred(s, p):
        fd = _fdef(sm, p, s) if s[0] == "f" else None
        if fd is None or s[5] is None:
            return False
        t = S.named_of(S.parse_type(fd["type"]))
        return S.kind_of(sm, t) in ("interface", "union") and _exclusive_triples(sm, t) is not None

    for c0, lst0, i0, parent, s0 in _positions(sm, case, abspred):
        t = S.named_of(S.parse_type(_fdef(sm, parent, s0)["type"]))
        n, a, b = _exclusive_triples(sm, t)
        items = [a, b, n]
        for perm in _arrangements(1):
            postag = "".join("AB"[k] if k < 2 else "n" for k in perm)
            for place in ("direct", "spreads"):
                c = _clone(c0)
                l2 = _same_container(sm, c0, c, lst0)
                s = l2[i0]
                nodes = [copy.deepcopy(items[k]) for k in perm]
                if place == "spreads":
                    used = {f[0] for f in c["doc"]["frags"]}
                    wrapped = []
                    for j, x in enumerate(nodes):
                        name = O._fresh(used, ["Ex%d" % j, "E%d" % j, "Exq%d" % j])
                        used.add(name)
                        c["doc"]["frags"].append([name, x[1], [], x[3]])
                        wrapped.append(O.SP(name))
                    nodes = wrapped
                s[5].extend(nodes)
                yield "conflict-among-several:three:exclusive-objects:%s:%s" % (place, postag), c
        break


# =============================================================================================
# several operations sharing fragments; only a later one carries the violation

PER_OPERATION_RULES = (
    "UniqueVariableNamesChecker",
    "NoUndefinedVariablesChecker",
    "NoUnusedVariablesChecker",
    "VariablesInAllowedPositionChecker",
    "KnownFragmentNamesChecker",
    "NoUnusedFragmentsChecker",
    "PossibleFragmentSpreadsChecker",
    "NoFragmentCyclesChecker",
    "SingleFieldSubscriptionsChecker",
    "UniqueDirectivesPerLocationChecker",
    "KnownDirectivesChecker",
    "OverlappingFieldsCanBeMergedChecker",
)


def with_earlier_operations(sm, seed, mutant, n_earlier):
    """document = n_earlier valid operations (copies of the seed's operation, which spread the seed's
    fragments, plus root-level spreads of the root-typed fragments the mutant added) followed by the
    mutant's operation.  None when the construction does not apply."""
    sdoc, mdoc = seed["doc"], mutant["doc"]
    if len(sdoc["ops"]) != 1 or len(mdoc["ops"]) != 1 or mdoc.get("extra"):
        return None
    kind = sdoc["ops"][0].get("kind", "query")
    root = sm.get(kind)
    doc = copy.deepcopy(mdoc)
    target = doc["ops"][0]
    target["name"] = target["name"] or "Target"
    seed_frags = {f[0] for f in sdoc["frags"]}
    reached = _spread_closure(doc, target["sels"])  # only fragments the violating operation uses are shared
    added = [f for f in mdoc["frags"] if f[0] not in seed_frags and f[1] == root and f[0] in reached]
    earlier = []
    for k in range(n_earlier):
        op = copy.deepcopy(sdoc["ops"][0])
        op["name"] = "Earlier%d" % (k + 1)
        if kind == "subscription":
            single = [f for f in mdoc["frags"] if f[1] == root and f[0] in reached and len(f[3]) == 1 and f[3][0][0] == "f"]
            if single:
                op["sels"] = [O.SP(single[0][0])]
                op["vars"] = []
        else:
            for f in added:
                op["sels"].append(O.SP(f[0]))
        earlier.append(op)
    doc["ops"] = earlier + [target]
    out = {"doc": doc, "vars": dict(mutant.get("vars", {})), "muts": list(mutant.get("muts", [])) + ["earlier-operations:%d" % n_earlier]}
    return out
