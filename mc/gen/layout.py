# -*- coding: utf-8 -*-
"""
Layouts: token list -> source text, with the offsets of every token, hence the expected span of
every node of an expected tree (gen/trees.py).

A layout assigns to each of the len(tokens)+1 gaps (before the first token, between neighbours,
after the last) one separator of SEPS -- every kind of Ignored the lexical grammar knows: nothing,
white space, comma, the line terminators, a comment, the byte order mark.  The empty separator is
only offered where the lexical grammar keeps the two neighbours apart by itself (`needs_sep`).
"""
import itertools

SEPS = ["", " ", ",", "\n", "\r\n", "#c\n", "\ufeff", "#c\r"]  # a comment ended by a bare CR is last (added later)

_NAME_START = "_ABCDEFGHIJKLMNOPQRSTUVWXYZabcdefghijklmnopqrstuvwxyz"
_DIGITS = "0123456789"


def needs_sep(a, b):
    """would the lexemes of tokens a, b read differently when written without a separator?"""
    (ca, ta), (cb, tb) = a, b
    if ca in ("Name", "Int", "Float"):
        # longest match would merge them / the number look-ahead restriction forbids the follower
        if tb[0] in _NAME_START or tb[0] in _DIGITS:
            return True
        if ca != "Name" and tb[0] == ".":
            return True
    if ta == '""' and tb[0] == '"':
        return True  # `""` followed by `"` opens a block string
    return False


def default_gaps(tokens):
    n = len(tokens)
    return [""] + [" "] * (n - 1) + [""]


def legal(tokens, g, sep):
    if sep != "" or g == 0 or g == len(tokens):
        return True
    return not needs_sep(tokens[g - 1], tokens[g])


def render(tokens, gaps):
    """-> (text, offsets) with offsets[i] = (start, end) of token i"""
    assert len(gaps) == len(tokens) + 1
    parts = []
    offs = []
    pos = 0
    for i, (_, t) in enumerate(tokens):
        parts.append(gaps[i])
        pos += len(gaps[i])
        offs.append((pos, pos + len(t)))
        parts.append(t)
        pos += len(t)
    parts.append(gaps[-1])
    return "".join(parts), offs


def single_deviations(tokens):
    """every layout that differs from the default in exactly one gap"""
    base = default_gaps(tokens)
    for g in range(len(base)):
        for s in SEPS:
            if s != base[g] and legal(tokens, g, s):
                gaps = list(base)
                gaps[g] = s
                yield gaps


def pair_deviations(tokens):
    base = default_gaps(tokens)
    n = len(base)
    for g in range(n):
        for h in range(g + 1, n):
            for s in SEPS:
                if s == base[g] or not legal(tokens, g, s):
                    continue
                for t in SEPS:
                    if t == base[h] or not legal(tokens, h, t):
                        continue
                    gaps = list(base)
                    gaps[g], gaps[h] = s, t
                    yield gaps


def rotations(tokens):
    """len(SEPS) layouts in which gap g takes separator (g + r); every gap sees every separator"""
    n = len(tokens) + 1
    for r in range(len(SEPS)):
        gaps = []
        for g in range(n):
            s = SEPS[(g + r) % len(SEPS)]
            if not legal(tokens, g, s):
                s = " "
            gaps.append(s)
        yield gaps


def all_assignments(tokens):
    n = len(tokens) + 1
    choices = [[s for s in SEPS if legal(tokens, g, s)] for g in range(n)]
    for combo in itertools.product(*choices):
        yield list(combo)


def with_locs(tree, offs, text_len, no_location=False, shift=0):
    """expected to_dict(): copy of the expected tree with `loc` on every node, `_tok` removed"""
    out = {}
    for k, v in tree.items():
        if k == "_tok":
            continue
        if isinstance(v, dict):
            out[k] = with_locs(v, offs, text_len, no_location, shift)
        elif isinstance(v, list):
            out[k] = [with_locs(e, offs, text_len, no_location, shift) if isinstance(e, dict) else e for e in v]
        else:
            out[k] = v
    if no_location:
        out["loc"] = None
    elif tree["__kind__"] == "Document":
        # the document runs from the start-of-file token to the end-of-file token (py_gql.lang.token
        # SOF / EOF are the first and last tokens of every token stream): the whole text
        out["loc"] = (0 + shift, text_len + shift)
    else:
        i, j = tree["_tok"]
        out["loc"] = (offs[i][0] + shift, offs[j][1] + shift)
    return out


def selftest():
    toks = [("P", "{"), ("Name", "a"), ("Name", "b"), ("Int", "1"), ("Ellip", "..."), ("String", '""'), ("String", '"x"'), ("P", "}")]
    assert [needs_sep(toks[i], toks[i + 1]) for i in range(len(toks) - 1)] == [False, True, True, True, False, True, False]
    text, offs = render(toks, default_gaps(toks))
    assert text == '{ a b 1 ... "" "x" }' and offs[1] == (2, 3) and offs[-1] == (19, 20)
    for gaps in list(single_deviations(toks)) + list(rotations(toks)):
        t, o = render(toks, gaps)
        for (c, lex), (s, e) in zip(toks, o):
            assert t[s:e] == lex
