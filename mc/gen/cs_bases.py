# -*- coding: utf-8 -*-
"""
cs_bases -- the base schema models shared by the code-schema checks (C13, C14, C20).

Every base is valid GraphQL by construction (cross-checked by the checks: the real validator must
accept all of them under every construction route and type order).  They are written so that every
kind of element, every position kind and every wrapper shape occurs at least once, and so that each
type kind also occurs as an *orphan* (not referenced by anything) which can be removed or change
kind without invalidating the rest.

Enums carry internal (Python) values different from their names -- integers, and a permutation of the
names -- which only the constructor route can express (through SDL the value is the name).

No recursive input objects: building those from SDL overflows the stack on the pinned tree (a C11
matter) and would only hide what these checks look for.  No input-object-typed defaults either:
build_schema fills nested field defaults into them, so that editing one input field legitimately
changes the effective default of every position typed with that input object -- through SDL only.
"""
import copy

from mc.ref.cs_model import A, F, T, V

DEP = "No longer supported"


def _node_fields():
    return [F("id", "ID!"), F("peer", "Node", [A("kind", "Kind", "A")])]


def kitchen():
    return {
        "types": [
            T("interface", "Node", fields=_node_fields(), desc="node iface"),
            T(
                "object",
                "Query",
                interfaces=["Node"],
                fields=_node_fields()
                + [
                    F("obj", "Obj", desc="an object"),
                    F("any", "Any"),
                    F("nums", "[Int!]!", [A("first", "Int!", 10), A("flt", "Filter")]),
                    F("kind", "Kind", [A("of", "[Kind!]", ["A", "B"])], dep="r"),
                    F("sc", "Sc", [A("s", "Sc", desc="scalar arg"), A("note", "String", "a b")]),
                ],
            ),
            T(
                "object",
                "Obj",
                interfaces=["Node"],
                fields=_node_fields() + [F("name", "String", dep=DEP), F("items", "[[Obj!]]")],
                desc="object type",
            ),
            T("object", "Other", fields=[F("val", "Float")]),
            T("union", "Any", members=["Obj", "Other"], desc="a union"),
            T("enum", "Kind", values=[V("A", value=1), V("B", dep="old", value=2), V("C", desc="third", value=3)], desc="an enum"),
            T(
                "input",
                "Filter",
                fields=[A("min", "Int", 0), A("tags", "[String!]", ["x y", "z"]), A("sub", "Sub"), A("req", "Int!", 1, desc="defaulted")],
                desc="an input",
            ),
            T("input", "Sub", fields=[A("k", "Kind", "A"), A("flag", "Boolean!")]),
            T("scalar", "Sc", desc="a scalar"),
            T("object", "Mut", fields=[F("set", "Int", [A("v", "Int!"), A("f", "Filter")])]),
            # orphans, one per kind
            T("object", "Lone", fields=[F("x", "Int")]),
            T("interface", "LoneI", fields=[F("x", "Int")]),
            T("union", "LoneU", members=["Lone"]),
            T("enum", "LoneE", values=[V("X", value="Y"), V("Y", value="X")]),  # internal values: a permutation of the names
            T("input", "LoneIn", fields=[A("z", "Int")]),
            T("scalar", "LoneS"),
        ],
        "directives": [
            {
                "name": "dir",
                "desc": "a directive",
                "locations": ["FIELD", "QUERY", "FRAGMENT_SPREAD"],
                "args": [A("a", "Int", 1), A("b", "[Filter!]"), A("c", "Kind!", "A")],
            },
            {"name": "mark", "locations": ["FIELD_DEFINITION", "OBJECT"], "args": []},
        ],
        "roots": {"query": "Query", "mutation": "Mut", "subscription": None},
    }


def minimal():
    return {"types": [T("object", "Query", fields=[F("a", "Int")])], "directives": [], "roots": {"query": "Query"}}


def roots3():
    return {
        "types": [
            T("object", "Query", fields=[F("a", "Int"), F("q2", "Query2")]),
            T("object", "Query2", fields=[F("b", "Int")]),
            T("object", "Mutation", fields=[F("m", "Int")]),
            T("object", "Subscription", fields=[F("s", "Int")]),
        ],
        "directives": [],
        "roots": {"query": "Query", "mutation": "Mutation", "subscription": "Subscription"},
    }


def members():
    """several members / locations / interfaces per container: the sets the differ iterates."""
    return {
        "types": [
            T("interface", "Ia", fields=[F("a", "Int")]),
            T("interface", "Ib", fields=[F("a", "Int")]),
            T("interface", "Ic", fields=[F("a", "Int")]),
            T("object", "Query", fields=[F("a", "Int"), F("u", "U"), F("w", "W")]),
            T("object", "Alpha", interfaces=["Ia", "Ib"], fields=[F("a", "Int")]),
            T("object", "Beta", interfaces=["Ia"], fields=[F("a", "Int")]),
            T("object", "Gamma", fields=[F("a", "Int")]),
            T("object", "Delta", fields=[F("a", "Int")]),
            T("union", "U", members=["Alpha", "Beta", "Gamma"]),
            T("union", "W", members=["Delta"]),
            T("enum", "En", values=[V("P", value=10), V("Q", value=20), V("R", value=30)]),
        ],
        "directives": [
            {"name": "loc", "locations": ["FIELD", "QUERY", "MUTATION"], "args": []},
            {"name": "one", "locations": ["FIELD"], "args": [A("x", "Int"), A("y", "Int")]},
        ],
        "roots": {"query": "Query"},
    }


def wrapper_base(w_out="T", w_obj="T", w_arg="T", w_in="T", w_dir="T"):
    """small schema whose five interesting positions carry the given wrapper shapes."""
    ap = lambda w, n: w.replace("T", n)  # noqa: E731
    return {
        "types": [
            T("interface", "Node", fields=[F("id", "ID")]),
            T("object", "Obj", interfaces=["Node"], fields=[F("id", "ID")]),
            T(
                "object",
                "Query",
                fields=[F("f", ap(w_out, "Int"), [A("a", ap(w_arg, "Int"))]), F("g", ap(w_obj, "Obj")), F("h", "Int", [A("i", "In")])],
            ),
            T("input", "In", fields=[A("a", ap(w_in, "Int")), A("o", "Int")]),
        ],
        "directives": [{"name": "dw", "locations": ["FIELD"], "args": [A("a", ap(w_dir, "Int"))]}],
        "roots": {"query": "Query"},
    }


WRAPPER_POSITIONS = {
    # position kind -> (wrapper_base keyword, position descriptor, direction)
    "output": ("w_out", ["field", "Query", "f"], "output"),
    "output-object": ("w_obj", ["field", "Query", "g"], "output"),
    "argument": ("w_arg", ["arg", "Query", "f", "a"], "input"),
    "input-field": ("w_in", ["input-field", "In", "a"], "input"),
    "directive-argument": ("w_dir", ["directive-arg", "dw", "a"], "input"),
}


BASES = {"kitchen": kitchen, "minimal": minimal, "roots3": roots3, "members": members}


def get(base):
    """base id -> fresh model.  Ids: a key of BASES, 'wrap:<position kind>:<wrapper>' or
    'wrap2:<position kind>:<wrapper>:<position kind>:<wrapper>'."""
    if base.startswith("wrap2:"):
        _, pa, wa, pb, wb = base.split(":")
        return wrapper_base(**{WRAPPER_POSITIONS[pa][0]: wa, WRAPPER_POSITIONS[pb][0]: wb})
    if base.startswith("wrap:"):
        _, pk, w = base.split(":")
        return wrapper_base(**{WRAPPER_POSITIONS[pk][0]: w})
    return copy.deepcopy(BASES[base]())
