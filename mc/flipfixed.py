# developer tool: mark finding entries fixed.  usage: flipfixed.py <findings.json> <commit> <id> [<id>...]
# an id ending in '*' matches by prefix.
import json, sys
path, commit, ids = sys.argv[1], sys.argv[2], sys.argv[3:]
data = json.load(open(path))
n = 0
for e in data["findings"]:
    if any(e["id"] == i or (i.endswith("*") and e["id"].startswith(i[:-1])) for i in ids):
        if e["status"] == "fixed":
            continue
        e["status"] = "fixed"
        e["commit"] = commit
        t = e["title"]
        if not t.startswith("fixed:"):
            e["title"] = "fixed: property=%s %s %s" % (e["property"], commit, t)
        if not e.get("replay"):
            print("WARNING: %s has no replay witnesses" % e["id"])
        n += 1
json.dump(data, open(path, "w"), indent=1)
print("flipped", n, "entries in", path)
