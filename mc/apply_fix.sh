#!/bin/sh
# developer tool: apply one proposed fix to /repo as its own "fix:" commit after the unedited test suite passes.
# usage: apply_fix.sh proposed_fixes/<ID>-<n>.diff   (commit message from the .msg file next to it)
D="$(readlink -f "$1")"; M="${D%.diff}.msg"
[ -f "$M" ] || { echo "no message file $M"; exit 2; }
head -1 "$M" | grep -q '^fix: ' || { echo "message must start with 'fix: '"; exit 2; }
cd /repo || exit 2
[ -z "$(git status --porcelain)" ] || { echo "/repo not clean"; exit 2; }
git apply --check "$D" 2>/dev/null || { git apply --check -3 "$D" >/dev/null 2>&1 && echo "needs 3way" ; echo "DOES NOT APPLY: $D"; exit 3; }
git apply "$D"
if git status --porcelain | grep -v '^ M src/' | grep -q .; then echo "touches files outside src/:"; git status --porcelain; git checkout -q -- .; git clean -fdq; exit 4; fi
T=$(PYTHONDONTWRITEBYTECODE=1 /venv/bin/python -m pytest -q -p no:cacheprovider -x 2>&1 | tail -1)
case "$T" in
  *"1895 passed"*) git commit -q -a -F "$M" && echo "COMMITTED $(git log -1 --format=%h) $(head -1 "$M")";;
  *) echo "TESTS FAIL: $T"; git checkout -q -- .; exit 5;;
esac
