# developer tool (never run by checks): append an entry to known_findings.json from a replay file
# usage: addfinding.py <replay.json> <entry-id> open|fixed "<title>" [--commit SHA] [--class-scope] [--analysis TEXT]
import argparse, json, os
V = os.path.dirname(os.path.dirname(os.path.abspath(__file__)))
ap = argparse.ArgumentParser()
ap.add_argument("replay"); ap.add_argument("id"); ap.add_argument("status"); ap.add_argument("title")
ap.add_argument("--commit"); ap.add_argument("--class-scope", action="store_true"); ap.add_argument("--analysis", default="")
ap.add_argument("--file", default="known_findings.json")
ap.add_argument("--more", nargs="*", default=[], help="more replay files whose witnesses are listed under the same entry")
a = ap.parse_args()
P = os.path.join(V, a.file)
os.makedirs(os.path.dirname(P), exist_ok=True)
data = json.load(open(P)) if os.path.exists(P) else {"findings": []}
r = json.load(open(a.replay))
wits = [r["witness"]] + [json.load(open(m))["witness"] for m in a.more]
ent = {"id": a.id, "property": r["property"], "status": a.status, "class": r["class"], "title": a.title,
       "replay": wits[:3], "analysis": a.analysis or str(r.get("detail", ""))[:600]}
if not a.class_scope and a.status == "open":
    ent["witnesses"] = wits
if a.commit:
    ent["commit"] = a.commit
data["findings"] = [e for e in data["findings"] if e["id"] != a.id] + [ent]
json.dump(data, open(P, "w"), indent=1)
print("added", a.id, "class", r["class"], "witnesses", len(wits))
