# -*- coding: utf-8 -*-
"""
C13 -- schema validation accepts valid schemas and rejects each rule violation; the verdict does not
depend on the order of the supplied types and is recomputed after resolvers are reassigned.

E3 part.  Valid models (mc.gen.cs_bases, all 14 wrapper shapes at 5 position kinds, covariant
implementation variants) are built through the constructors and through SDL under every
permutation (<= 5 types) / every transposition (> 5 types) of the type list and must validate.
Labelled violations (mc.gen.cs_violations: one operator per rule the property lists, applied at
every position of the base model, bare and wrapped) are injected one at a time (quick) and two at a
time (thorough); validation must raise SchemaValidationError whose .errors contain, for each
injected violation, a message naming the injected element, for every type order.  Resolver
signatures: every parameter list assembled from a positional prefix, one slot per argument and a
tail, at every resolver site, judged by an independent oracle (inspect.Signature.bind over every
call shape the executor can produce); ONE function object assigned to two or three fields with different
argument sets (same and different types), under every relative field order and every type order, each
field judged on its own; field-level, type-level default and schema-wide default resolvers set together,
judged by the precedence the executor uses.  The base model contains every container element also WITHOUT
children of the other kinds (argument-less directives first and last, unimplemented interface, one-value
enum, one-member union, one-field object and input object).  Bad names cover the ASCII cases (`__x`, `1x`, `a-b`, empty), non-ASCII letters /
digits in first and later position (Latin-1, full-width digit, superscript, Greek, astral) and a
trailing line terminator.

E2 part (model checking).  Breadth-first search over all sequences of <= N operations of the
documented resolver-assignment API (register_resolver / allow_override, "*", register_default_resolver,
schema.default_resolver = ..., merge_resolvers, register_subscription, the decorators) and validate(),
each history replayed on a fresh schema; states are deduplicated on the canonical resolver state +
memo; invariants in every state: schema.validate() agrees with a fresh
py_gql.schema.validation.validate_schema(schema), which bypasses the memo; and that fresh verdict names
exactly the fields whose effective resolver fails the binding oracle.
"""
import itertools
import re

from mc.gen import cs_bases, cs_violations as X
from mc.ref import cs_model as M

READY = True
LEVEL = "model_checking"
TECHNIQUE = "bounded-exhaustive injection of labelled rule violations x type orders x construction routes; explicit-state BFS over resolver-assignment histories with a memo-bypassing validator as invariant"
LEVEL_TEXT = (
    "Histories of the resolver-assignment API up to the depth bound are explored exhaustively on the real Schema object "
    "(explicit-state BFS, every explored trace is an implementation execution) with the invariant 'memoised verdict == fresh "
    "verdict' evaluated in every state; valid models, labelled violations at every position and resolver signatures are "
    "enumerated exhaustively inside their bounds and compared with by-construction labels / an independent binding oracle."
)
LEVEL_NOTE = (
    "Trusted base: the violation operators really break the rule they are labelled with (each is a direct edit of the plain-data "
    "model), inspect.Signature.bind as model of Python's calling convention, the state canonicalisation (all operations of the menu "
    "read and write only the resolver registries, field/type resolver attributes and the memo)."
)
DESIGN_REF = "DESIGN.md section 6, C13"
RULE = (
    "case = chunk of models / violations / resolver signatures, or one BFS; evaluation = one validate() or validate_schema() run whose "
    "verdict is compared; non-trivial = distinct (model, violations) the validator rejected with >= 1 error or a valid model with >= 2 "
    "types, distinct (site, signature) with a resolver attached, distinct canonical history state"
)
ASSUMPTIONS = [
    "a violation counts as reported when one SchemaError message contains all of: the (quoted) name of the injected element and its owner (see cs_violations.expect)",
    "through SDL only what build_schema either accepts or rejects with SchemaValidationError is judged; syntax errors and other early exceptions are counted and skipped (C01/C11 matters)",
    "enum values duplicated in one enum are rejected by the EnumType constructor and are not part of the property's list",
    "direct attribute assignment field.resolver = f is not a documented way of assigning resolvers and is not in the history menu; ResolverMap.default_resolver = f is (CHANGES.md 0.6.0)",
    "resolver compatibility oracle: the executor calls resolver(root, ctx, info, **{python_name: value}) with nullable default-less arguments possibly omitted",
]
BOUNDS = {
    "quick": {"violations_injected": 1, "history_depth": 3, "resolver_args": 2, "type_orders": "all permutations <= 5 types, identity + reverse + all transpositions beyond", "wrapper_list_levels": 2},
    "thorough": {"violations_injected": 2, "history_depth": 4, "resolver_args": 2, "type_orders": "singles as quick; pairs: identity, reversed, rotated", "wrapper_list_levels": 2},
}
TIME_CAP = {"quick": 150, "thorough": 1500}

CHUNK = 12
BAD = "sig:root, ctx"
BAD2 = "sig:root, ctx, info, surplus"
SHARED = "sig:root, ctx, info#shared"  # one function object: fits Query.plain, not Query.req / Query.two
OK = M.OK


def selftest():
    sm = X.vbase()
    assert M.canon(sm) == M.canon(M.norm(sm))
    assert X.binds("root, ctx, info", []) and not X.binds("root, ctx", [])
    assert X.binds("root, ctx, info, **kw", [M.A("a", "Int")])
    assert not X.binds("root, ctx, info, a", [M.A("a", "Int")])  # nullable without default may be omitted
    assert X.binds("root, ctx, info, a", [M.A("a", "Int!")]) and X.binds("root, ctx, info, a", [M.A("a", "Int", 1)])
    assert not X.binds("root, ctx, info, a, /", [M.A("a", "Int!")])
    assert X.binds("*args, **kw", [M.A("a", "Int")]) and not X.binds("root, ctx, info, *, more", [])
    assert X.loosenings("[Node!]") == ["[Node]", "[[Node!]]", "Node"]
    assert X.tightenings("[Node]") == ["[Node]!", "[Node!]"]


# ------------------------------------------------------------------------------------------
# enumeration


def orders(n):
    if n <= 5:
        return [list(p) for p in itertools.permutations(range(n))]
    ident = list(range(n))
    out = [ident, ident[::-1]]
    for i in range(n):
        for j in range(i + 1, n):
            o = list(ident)
            o[i], o[j] = o[j], o[i]
            out.append(o)
    return out


VALID_IDS = ["minimal", "roots3", "members", "kitchen", "vbase", "rbase"]


def _valid_model(mid):
    if mid == "vbase":
        return X.vbase()
    if mid == "rbase":
        return X.rbase()
    return cs_bases.get(mid)


def cases(tier):
    b = BOUNDS[tier]
    for mid in VALID_IDS:
        yield {"fam": "valid", "model": mid}
    for pk in cs_bases.WRAPPER_POSITIONS:
        for w in M.wrappers(b["wrapper_list_levels"]):
            yield {"fam": "valid", "model": "wrap:%s:%s" % (pk, w)}
    nvar = len(X.valid_variants(X.vbase()))
    for i in range(nvar):
        yield {"fam": "valid-variant", "i": i}
    yield {"fam": "history", "depth": b["history_depth"], "source": "code"}
    yield {"fam": "history", "depth": b["history_depth"], "source": "sdl"}
    vs = X.violations(X.vbase())
    for lo in range(0, len(vs), CHUNK):
        yield {"fam": "violation", "lo": lo, "hi": min(len(vs), lo + CHUNK)}
    rc = X.resolver_cases()
    for lo in range(0, len(rc), 8 * CHUNK):
        yield {"fam": "resolver", "lo": lo, "hi": min(len(rc), lo + 8 * CHUNK)}
    rc2 = X.root_combinations()
    for lo in range(0, len(rc2), 2 * CHUNK):
        yield {"fam": "root-combination", "lo": lo, "hi": min(len(rc2), lo + 2 * CHUNK)}
    pc = X.precedence_cases()
    for lo in range(0, len(pc), 2 * CHUNK):
        yield {"fam": "resolver-precedence", "lo": lo, "hi": min(len(pc), lo + 2 * CHUNK)}
    sc = X.shared_resolver_cases()
    for lo in range(0, len(sc), 2 * CHUNK):
        yield {"fam": "shared-resolver", "lo": lo, "hi": min(len(sc), lo + 2 * CHUNK)}
    if b["violations_injected"] >= 2:
        n = len(vs)
        for i in range(n):
            js = list(range(i + 1, n))
            for k in range(0, len(js), 8 * CHUNK):
                yield {"fam": "violation-pair", "i": i, "js": js[k : k + 8 * CHUNK]}


# ------------------------------------------------------------------------------------------
# running the real validator


def _norm_msg(msg):
    return re.sub(r'"[^"]*"', '"_"', re.sub(r"\([^)]*\)", "(_)", msg))[:120]


def _verdict_code(sm, order, st=None):
    """-> ("valid", []) | ("invalid", [messages]) | ("construct:<Exc>", [text]) | ("crash:<Exc>", [text])"""
    from py_gql.exc import SchemaValidationError

    try:
        schema = M.build_code(sm, order)
    except Exception as e:  # noqa
        return "construct:%s" % type(e).__name__, [str(e)[:200]]
    if st is not None:
        st.n("evaluations")
    try:
        schema.validate()
    except SchemaValidationError as e:
        return "invalid", [str(x) for x in e.errors]
    except Exception as e:  # noqa
        return "crash:%s" % type(e).__name__, [repr(e)[:200]]
    return "valid", []


def _verdict_sdl(sm, order, st=None):
    from py_gql import build_schema
    from py_gql.exc import SchemaValidationError

    try:
        text = M.to_sdl(sm, order)
    except Exception as e:  # noqa
        return "early:emit-%s" % type(e).__name__, []
    if st is not None:
        st.n("evaluations")
    try:
        build_schema(text)
    except SchemaValidationError as e:
        return "invalid", [str(x) for x in e.errors]
    except Exception as e:  # noqa
        return "early:%s" % type(e).__name__, [repr(e)[:200]]
    return "valid", []


def _named(msgs, subs):
    return any(all(s in m for s in subs) for m in msgs)


def eval_valid(sm, tag, st=None):
    out = []
    n = len(sm["types"])
    for route, fn in (("code", _verdict_code), ("sdl", _verdict_sdl)):
        for order in orders(n):
            verdict, msgs = fn(sm, order, st)
            if verdict == "valid":
                continue
            if verdict == "invalid":
                out.append(("false-rejection:%s" % _norm_msg(msgs[0]), "%s route, order %s of valid model %s: %s" % (route, order, tag, msgs[:3])))
            elif verdict.startswith("early:") and route == "sdl":
                out.append(("false-rejection:sdl-%s" % verdict, "build_schema raised %s for valid model %s: %s" % (verdict, tag, msgs)))
            else:
                out.append(("%s:valid-model" % verdict, "%s route, order %s of valid model %s: %s" % (route, order, tag, msgs)))
            break
    return out


def few_orders(n):
    ident = list(range(n))
    return [ident, ident[::-1], ident[n // 2 :] + ident[: n // 2]]


def eval_violations(vlist, st=None, singles_cache=None):
    """inject all of vlist into vbase; -> list of (class, detail)"""
    out = []
    base = X.vbase()
    sm = None
    for seq in ([vlist] if len(vlist) == 1 else [vlist, vlist[::-1]]):
        sm = base
        for v in seq:
            sm = X.apply_violation(sm, v)
            if sm is None:
                break
        if sm is not None:
            break
    if sm is None:
        if st is not None:
            st.n("inapplicable")
        return out
    labels = [X.label(v) for v in vlist]
    desc = "vbase + %s" % (vlist,)
    # an owner type renamed by another injected violation is named by its new (invalid) name
    renames = {v["at"][1]: X.BAD_NAMES[v["bad"]] for v in vlist if v["op"] == "bad-name" and v["target"] == "type"}

    def expected(v):
        subs = X.expect(v)
        if v["op"] == "bad-name" and v["target"] == "type":
            return subs
        out_ = []
        for sub in subs:
            for old_name, new_name in renames.items():
                sub = re.sub(r"(?<![A-Za-z0-9_])%s(?![A-Za-z0-9_])" % re.escape(old_name), lambda m: new_name, sub)
            out_.append(sub)
        return out_

    n = len(sm["types"])
    verdicts = {}
    sdl_expressible = all(not (v["op"] == "bad-name" and v["bad"] != "dunder") for v in vlist)
    for route, fn in (("code", _verdict_code), ("sdl", _verdict_sdl)):
        if route == "sdl" and not sdl_expressible:
            verdicts[(route, 0)] = ("early:not-expressible-in-SDL", [])
            continue
        for oi, order in enumerate(orders(n) if len(vlist) == 1 else few_orders(n)):
            verdicts[(route, oi)] = fn(sm, order, st)
            if route == "sdl" and verdicts[(route, oi)][0].startswith("early:"):
                break
    base_v, base_msgs = verdicts[("code", 0)]
    if base_v.startswith("construct:"):
        if st is not None:
            st.n("rejected_by_constructor:" + base_v)
        return out
    if st is not None and base_v == "invalid":
        st.nt(desc)
        st.outcome(tuple(sorted(_norm_msg(m) for m in base_msgs)))
    for route in ("code", "sdl"):
        v0, m0 = verdicts[(route, 0)]
        if v0.startswith("early:"):
            if st is not None:
                st.n("sdl_route_rejected_early")
            continue
        if v0.startswith("crash:"):
            out.append(("%s:%s" % (v0, "+".join(labels)), "%s route: validate raised %s for %s" % (route, m0, desc)))
            continue
        for k, v in enumerate(vlist):
            if v0 == "invalid" and _named(m0, expected(v)):
                continue
            if len(vlist) == 1:
                cls = ("missed:%s" if v0 == "valid" else "unnamed:%s") % labels[k]
                out.append((cls, "%s route: %s; errors %s; expected one message containing %s for %s" % (route, v0, m0[:4], expected(v), desc)))
            else:
                # only a finding of its own when the violation alone IS reported
                alone = eval_violations([v], None)
                if any(c.startswith(("missed:", "unnamed:", "crash:")) for c, _ in alone):
                    continue
                others = [labels[j] for j in range(len(vlist)) if j != k]
                rel = "same-owner" if any(X.related(v, vlist[j]) for j in range(len(vlist)) if j != k) else "elsewhere"
                cls = "not-all-reported:%s|with:%s|%s" % (labels[k], "+".join(others), rel)
                if others == ["bad-name:type"] and rel == "same-owner":
                    cls = "not-all-reported:inside-type-with-invalid-name"
                if labels[k].startswith("root-") and any(o.startswith("root-") for o in others):
                    cls = "not-all-reported:%s|with-another-root-violation" % labels[k].split(":")[0]
                out.append(
                    (
                        cls,
                        "%s route: errors %s lack a message containing %s for %s" % (route, m0[:5], expected(v), desc),
                    )
                )
        # type order
        ref = (v0, sorted(m0))
        for (r, oi), (vv, mm) in verdicts.items():
            if r != route or oi == 0:
                continue
            if (vv, sorted(mm)) != ref:
                out.append(
                    (
                        "order-dependent:%s" % "+".join(labels),
                        "%s route: order #%d gives %s %s, identity order gives %s %s for %s" % (route, oi, vv, sorted(mm)[:4], v0, sorted(m0)[:4], desc),
                    )
                )
                break
    return out


# ------------------------------------------------------------------------------------------
# resolver signatures


def _bind_failure(params, args):
    import inspect

    ns = {}
    exec("def f(%s): pass" % params, {}, ns)
    return X.bind_failure(inspect.signature(ns["f"]), args)


def eval_resolver(case, st=None):
    site, tname, fname, params = case
    tag = "sig:" + params
    sm = X.rbase()
    fields = []  # (type, field model) the resolver will serve
    if site in ("field", "interface-field"):
        f = [f for f in M.get_type(sm, tname)["fields"] if f["name"] == fname][0]
        f["resolver"] = tag
        fields = [(tname, f)]
    elif site == "type-default":
        M.get_type(sm, tname)["default_resolver"] = tag
        fields = [(tname, f) for f in M.get_type(sm, tname)["fields"]]
    else:
        sm["default_resolver"] = tag
        fields = [(t["name"], f) for t in sm["types"] if t["kind"] in ("object", "interface") for f in t["fields"]]
    failures = []
    for tn, f in fields:
        why = _bind_failure(params, f.get("args") or [])
        if why:
            failures.append((tn, f["name"], why))
    verdict, msgs = _verdict_code(sm, None, st)
    out = []
    desc = "rbase with %s resolver def f(%s) at %s.%s" % (site, params, tname, fname)
    if verdict not in ("valid", "invalid"):
        return [("resolver:%s:%s" % (verdict, site), "%s: %s" % (desc, msgs))]
    rmsgs = [m for m in msgs if "esolver" in m]
    other = [m for m in msgs if "esolver" not in m]
    if other:
        out.append(("false-rejection:%s" % _norm_msg(other[0]), "%s: %s" % (desc, other)))
    if st is not None:
        st.nt(desc)
        st.outcome(("resolver", bool(failures), tuple(sorted(set(_norm_msg(m) for m in rmsgs)))))
    if rmsgs and not failures:
        out.append(
            (
                "resolver:false-rejection:%s" % _norm_msg(rmsgs[0]),
                "%s is rejected (%s) although every call shape binds" % (desc, rmsgs[:2]),
            )
        )
    # every field the executor cannot call the resolver for must be named by a resolver error
    for tn, fn_, why in failures:
        if not any("%s.%s" % (tn, fn_) in m for m in rmsgs):
            out.append(
                (
                    "resolver:missed:%s" % why,
                    "%s: no resolver error names %s.%s although the executor's call resolver(root, ctx, info, **args) fails (%s); errors %s"
                    % (desc, tn, fn_, why, rmsgs[:3]),
                )
            )
            break
    return out


def eval_shared(case, st=None):
    """one function object on several fields: every field must be judged on its own, in every order."""
    sites, params = case
    tag = "sig:" + params
    base = X.rbase()
    expected_bad = []
    for tn, fn_ in sites:
        f = [f for f in M.get_type(base, tn)["fields"] if f["name"] == fn_][0]
        f["resolver"] = tag
        why = _bind_failure(params, f.get("args") or [])
        if why:
            expected_bad.append((tn, fn_, why))
    out = []
    desc = "rbase with ONE resolver def f(%s) on %s" % (params, ", ".join("%s.%s" % (a, b) for a, b in sites))
    if st is not None:
        st.nt(desc)
    for vi, sm in enumerate(X.shared_orders(base, sites)):
        for oi, order in enumerate(orders(len(sm["types"]))):
            verdict, msgs = _verdict_code(sm, order, st)
            if verdict not in ("valid", "invalid"):
                return [("resolver:%s:shared" % verdict, "%s: %s" % (desc, msgs))]
            rmsgs = [m for m in msgs if "esolver" in m]
            for tn, fn_, why in expected_bad:
                if not any("%s.%s" % (tn, fn_) in m for m in rmsgs):
                    out.append(
                        (
                            "resolver:shared:missed:%s" % why,
                            "%s (field order variant %d, type order %s): no resolver error names %s.%s although the call fails (%s); errors %s"
                            % (desc, vi, order, tn, fn_, why, rmsgs[:3]),
                        )
                    )
                    return out
            bad_names = {"%s.%s" % (tn, fn_) for tn, fn_, _ in expected_bad}
            for m in rmsgs:
                if not any(b in m for b in bad_names):
                    out.append(
                        (
                            "resolver:shared:false-rejection:%s" % _norm_msg(m),
                            "%s (field order variant %d, type order %s): %s although that field's calls bind" % (desc, vi, order, m),
                        )
                    )
                    return out
    if st is not None:
        st.outcome(("shared", len(expected_bad), len(sites)))
    return out


def eval_precedence(case, st=None):
    """
    Field resolver, type-level default and schema-wide default set together: every field is judged against
    the resolver the executor will use for it (field, then type default, then schema default) -- a bad
    type default shadowing a good global one is rejected, a good type default shadowing a bad global one
    is accepted for that type's fields.
    """
    fld, typ, glob = case
    sm = X.rbase()
    tag = lambda p, n: None if p is None else "sig:%s#%s" % (p, n)  # noqa: E731
    q = M.get_type(sm, "Query")
    q["default_resolver"] = tag(typ, "type")
    sm["default_resolver"] = tag(glob, "global")
    for f in q["fields"]:
        if f["name"] == "req":
            f["resolver"] = tag(fld, "field")
    expected = []
    for t in sm["types"]:
        if t["kind"] not in ("object", "interface"):
            continue
        for f in t["fields"]:
            eff = (f.get("resolver") or (t.get("default_resolver") if t["kind"] == "object" else None) or sm.get("default_resolver"))
            if not eff:
                continue
            why = _bind_failure(eff[4:].split("#")[0], f.get("args") or [])
            if why:
                expected.append("%s.%s" % (t["name"], f["name"]))
    desc = "rbase with Query.req resolver def f(%s), Query default def f(%s), schema default def f(%s)" % (fld, typ, glob)
    out = []
    for order in orders(len(sm["types"])):
        verdict, msgs = _verdict_code(sm, order, st)
        if verdict not in ("valid", "invalid"):
            return [("resolver:%s:precedence" % verdict, "%s: %s" % (desc, msgs))]
        rmsgs = [m for m in msgs if "esolver" in m]
        paths = set()
        for m in rmsgs:
            paths.update(re.findall(r'on "([A-Za-z_]+\.[A-Za-z_]+)"', m))
            paths.update(re.findall(r'for "([A-Za-z_]+\.[A-Za-z_]+)"', m))
        missed = sorted(set(expected) - paths)
        # introspection types are served by the schema-wide default resolver too and are judged by the library
        # against it; the model only lists the schema's own types
        extra = sorted(p for p in paths - set(expected) if not p.startswith("__"))
        if missed:
            out.append(("resolver:precedence:missed", "%s (type order %s): no resolver error for %s; reported %s" % (desc, order, missed, sorted(paths))))
            break
        if extra:
            out.append(("resolver:precedence:false-rejection", "%s (type order %s): %s rejected although the resolver in effect binds; expected only %s" % (desc, order, extra, expected)))
            break
    if st is not None:
        st.nt(desc)
        st.outcome(("precedence", len(expected)))
    return out


# ------------------------------------------------------------------------------------------
# E2: histories

MENU = [
    ["validate"],
    ["register_resolver", "Query", "req", OK, False],
    ["register_resolver", "Query", "req", BAD, True],
    ["register_resolver", "Query", "req", OK, True],
    ["register_resolver", "Query", "*", BAD, False],
    ["register_default_resolver", "Query", BAD, True],
    ["register_default_resolver", "Query", OK, True],
    ["set_default_resolver", BAD],
    ["set_default_resolver", OK],
    ["set_default_resolver", None],
    ["merge_resolvers", "Query", "plain", BAD2, True],
    ["decorator", "Query.opt", BAD],
    ["register_subscription", "Query", "req", "sub:x"],
    ["register_resolver", "Query", "plain", SHARED, True],
    ["register_resolver", "Query", "req", SHARED, True],
]


def _apply_op(schema, op):
    from py_gql.schema import ResolverMap

    k = op[0]
    try:
        if k == "validate":
            schema.validate()
        elif k == "register_resolver":
            schema.register_resolver(op[1], op[2], M.fn_for(op[3]), allow_override=op[4])
        elif k == "register_default_resolver":
            schema.register_default_resolver(op[1], M.fn_for(op[2]), allow_override=op[3])
        elif k == "set_default_resolver":
            schema.default_resolver = M.fn_for(op[1])
        elif k == "merge_resolvers":
            rm = ResolverMap()
            rm.register_resolver(op[1], op[2], M.fn_for(op[3]))
            schema.merge_resolvers(rm, allow_override=op[4])
        elif k == "decorator":
            schema.resolver(op[1], allow_override=True)(M.fn_for(op[2]))
        elif k == "register_subscription":
            schema.register_subscription(op[1], op[2], M.fn_for(op[3]), allow_override=True)
        else:
            raise ValueError(k)
    except Exception as e:  # noqa -- an operation may legitimately refuse (ValueError, SchemaValidationError)
        return type(e).__name__
    return "ok"


def _state(schema):
    from py_gql.schema import ObjectType

    fields = []
    for name, t in sorted(schema.types.items()):
        if isinstance(t, ObjectType) and not name.startswith("__"):
            fields.append((name, M.tag_of(t.default_resolver), tuple((f.name, M.tag_of(f.resolver), M.tag_of(f.subscription_resolver)) for f in t.fields)))
    reg = tuple(sorted((tn, fn, M.tag_of(r)) for tn, d in schema.resolvers.items() for fn, r in d.items()))
    dreg = tuple(sorted((tn, M.tag_of(r)) for tn, r in schema.default_resolvers.items()))
    return repr((fields, reg, dreg, M.tag_of(schema.default_resolver), schema._is_valid))


def _fresh(source):
    sm = X.rbase()
    return M.build_code(sm) if source == "code" else M.build_sdl(sm)


def _run_history(source, history):
    schema = _fresh(source)
    results = [_apply_op(schema, op) for op in history]
    return schema, results


def _expected_resolver_failures(schema):
    """reference verdict for the resolvers currently in effect: [(Type.field, why)] via the binding oracle."""
    from py_gql.schema import InterfaceType, NonNullType, ObjectType

    out = []
    for name, t in sorted(schema.types.items()):
        if name.startswith("__") or not isinstance(t, (ObjectType, InterfaceType)):
            continue
        for f in t.fields:
            r = f.resolver or (t.default_resolver if isinstance(t, ObjectType) else None) or schema.default_resolver
            tag = M.tag_of(r)
            if not tag or not tag.startswith("sig:"):
                continue
            args = []
            for a in f.arguments:
                d = {"name": a.name, "type": ("X!" if isinstance(a.type, NonNullType) else "X"), "pyname": a.python_name}
                if a.has_default_value:
                    d["default"] = 0
                args.append(d)
            why = _bind_failure(tag[4:].split("#")[0], args)
            if why:
                out.append(("%s.%s" % (name, f.name), why))
    return out


def _check_invariant(schema):
    """-> (memo verdict, fresh verdict)"""
    from py_gql.exc import SchemaValidationError
    from py_gql.schema.validation import validate_schema

    try:
        schema.validate()
        memo = "valid"
    except SchemaValidationError as e:
        memo = "invalid:" + "|".join(sorted(str(x) for x in e.errors))
    except Exception as e:  # noqa
        memo = "crash:%s" % type(e).__name__
    try:
        validate_schema(schema)
        fresh = "valid"
    except SchemaValidationError as e:
        fresh = "invalid:" + "|".join(sorted(str(x) for x in e.errors))
    except Exception as e:  # noqa
        fresh = "crash:%s" % type(e).__name__
    return memo, fresh


def eval_history(source, history, st=None):
    schema, results = _run_history(source, history)
    if st is not None:
        st.n("executions")
    key = _state(schema)  # canonical state, taken before the probe below touches the memo
    memo, fresh = _check_invariant(schema)
    if st is not None:
        st.n("evaluations", 2)
    out = []
    # the fresh verdict itself must be what the resolvers in effect deserve (binding oracle), field by field
    if not fresh.startswith("crash"):
        expected = _expected_resolver_failures(schema)
        missing = [p for p, _ in expected if p not in fresh]
        if missing or (fresh != "valid" and not expected):
            out.append(
                (
                    "history-verdict-wrong:%s" % ("missed" if missing else "false-rejection"),
                    "after %s (results %s) on a %s-built schema a fresh validate_schema says %s; the binding oracle expects errors for %s"
                    % (history, results, source, fresh[:200], [p for p, _ in expected][:6]),
                )
            )
    if memo != fresh:
        # culprit = the operation after which the two verdicts first disagree (shortest failing prefix)
        op = history[-1]
        for k in range(1, len(history)):
            sch, _ = _run_history(source, history[:k])
            m2, f2 = _check_invariant(sch)
            if m2 != f2:
                op = history[k - 1]
                break
        kind = op[0]
        if kind == "set_default_resolver":
            kind += "(%s)" % ("bad" if op[1] == BAD else "ok" if op[1] == OK else "None")
        out.append(
            (
                "stale-verdict:%s" % kind,
                "after %s (results %s) on a %s-built schema: schema.validate() says %s, a fresh validate_schema(schema) says %s" % (history, results, source, memo[:120], fresh[:200]),
            )
        )
    return out, key


def bfs_histories(source, depth, st):
    out = []
    seen = set()
    frontier = [[]]
    schema0 = _fresh(source)
    seen.add(_state(schema0))
    st.n("states")
    for d in range(depth):
        nxt = []
        for hist in frontier:
            if st.out_of_time():
                return out
            for op in MENU:
                h = hist + [op]
                st.n("transitions")
                viols, key = eval_history(source, h, st)
                for cls, detail in viols:
                    out.append((cls, {"fam": "history", "source": source, "history": h}, detail))
                if key in seen:
                    continue
                seen.add(key)
                st.n("states")
                st.nt(("state", source, key))
                nxt.append(h)
        frontier = nxt
        st.mx("history_depth_completed", d + 1)
    return out


# ------------------------------------------------------------------------------------------


def check_case(case, st):
    fam = case["fam"]
    st.n("fam:" + fam)
    out = []
    if fam == "valid":
        sm = _valid_model(case["model"])
        if len(sm["types"]) >= 2:
            st.nt(("valid", case["model"]))
        for cls, detail in eval_valid(sm, case["model"], st):
            out.append((cls, case, detail))
        if case["model"] in ("vbase", "kitchen"):
            st.sample({"valid model": case["model"], "sdl": M.to_sdl(sm)[:300]})
    elif fam == "valid-variant":
        tag, sm = X.valid_variants(X.vbase())[case["i"]]
        st.nt(("valid-variant", tag))
        for cls, detail in eval_valid(sm, tag, st):
            out.append((cls, case, detail))
    elif fam == "violation":
        vs = X.violations(X.vbase())[case["lo"] : case["hi"]]
        for v in vs:
            st.n("label:" + X.label(v).split(":")[0])
            for cls, detail in eval_violations([v], st):
                out.append((cls, {"fam": "violation", "v": [v]}, detail))
        if vs and case["lo"] % (5 * CHUNK) == 0:
            st.sample({"violation": vs[0]})
    elif fam == "violation-pair":
        vs = X.violations(X.vbase())
        a = vs[case["i"]]
        for j in case["js"]:
            if st.out_of_time():
                break
            if not (X.pairable(a) and X.pairable(vs[j])):
                continue
            if not X.independent(a, vs[j]):
                st.n("pairs_skipped_interfering_operators")
                continue
            for cls, detail in eval_violations([a, vs[j]], st):
                out.append((cls, {"fam": "violation", "v": [a, vs[j]]}, detail))
    elif fam == "resolver":
        for rc in X.resolver_cases()[case["lo"] : case["hi"]]:
            for cls, detail in eval_resolver(rc, st):
                out.append((cls, {"fam": "resolver", "case": list(rc)}, detail))
    elif fam == "root-combination":
        for vl in X.root_combinations()[case["lo"] : case["hi"]]:
            for cls, detail in eval_violations(vl, st):
                out.append((cls, {"fam": "violation", "v": vl}, detail))
    elif fam == "resolver-precedence":
        for c in X.precedence_cases()[case["lo"] : case["hi"]]:
            for cls, detail in eval_precedence(c, st):
                out.append((cls, {"fam": "resolver-precedence", "case": c}, detail))
    elif fam == "shared-resolver":
        for sites, params in X.shared_resolver_cases()[case["lo"] : case["hi"]]:
            for cls, detail in eval_shared((sites, params), st):
                out.append((cls, {"fam": "shared-resolver", "sites": sites, "params": params}, detail))
    elif fam == "history":
        out.extend(bfs_histories(case["source"], case["depth"], st))
        st.sample({"history menu": [op[0] for op in MENU], "depth": case["depth"]})
    # at most a handful of witnesses per class and case
    seen, res = {}, []
    for cls, wit, detail in out:
        seen[cls] = seen.get(cls, 0) + 1
        if seen[cls] <= 50:
            res.append((cls, wit, detail))
    return res


def replay(witness):
    fam = witness["fam"]
    if fam in ("valid",):
        return eval_valid(_valid_model(witness["model"]), witness["model"])
    if fam == "valid-variant":
        tag, sm = X.valid_variants(X.vbase())[witness["i"]]
        return eval_valid(sm, tag)
    if fam == "violation":
        return eval_violations(witness["v"])
    if fam == "resolver":
        return eval_resolver(tuple(witness["case"]))
    if fam == "shared-resolver":
        return eval_shared((witness["sites"], witness["params"]))
    if fam == "resolver-precedence":
        return eval_precedence(witness["case"])
    if fam == "history":
        return eval_history(witness["source"], witness["history"])[0]
    raise ValueError(fam)
