# -*- coding: utf-8 -*-
"""
C17 -- subscriptions map each source event to one isolated result, in order.

Engine E1 on the virtual asyncio loop: for every finite event stream (length 0..n), every selection of
a small family under the subscription field, every placement of ResolverError / null-in-non-null on
(event, path), synchronous and asynchronous subscription resolvers, immediate and deferred sources,
EVERY interleaving of source deliveries with the completion of deferred field resolvers (+ early
completions up to the bound) is executed on the real ``subscribe`` / AsyncIORuntime.map_stream.
Oracle: one result per event, in order; result k equals the blocking execution of the same selection
with event k as root (data and error multiset -- so no error of another event leaks in); the stream
ends when the source ends.  Refusal cases must raise the documented exception before the source is
pulled.
"""
import itertools
import json

from mc.explore import HarnessError, explore, run_once

READY = True
LEVEL = "model_checking"
TECHNIQUE = "stateless exhaustive exploration of event-delivery / resolver-completion interleavings of the real subscribe() on a virtual asyncio loop, differential oracle against per-event blocking execution"
LEVEL_TEXT = (
    "All interleavings of source event deliveries and deferred resolver completions (plus early completions up to the bound) "
    "are executed on the real subscription machinery for every bounded stream / selection / failure placement; every result "
    "is compared with an independent blocking execution of the selection on that event."
)
LEVEL_NOTE = "The response stream is consumed sequentially (one __anext__ at a time), as `async for` does. Virtual loop owns scheduling; timers are not used by the library."
DESIGN_REF = "DESIGN.md section 6, C17"
RULE = (
    "case = (selection, resolver styles, stream length 0..n, source mode, subscription resolver kind, failure placement on <=2 (event,path); plus consumers that keep pulling after an event failed as a whole: field error + unexpected exception in one event); "
    "evaluation = one complete consumption of the stream compared event by event; non-trivial = distinct (case, schedule) with >= 2 events"
)
ASSUMPTIONS = ["sequential consumption of the response stream", "events are the root values; the subscription field is resolved from them by its ordinary resolver"]
BOUNDS = {"quick": {"events": 4, "early_bound": 1, "failures": "singles"}, "thorough": {"events": 4, "early_bound": 2, "failures": "singles+pairs"}}
TIME_CAP = {"quick": 120, "thorough": 1500}

SELECTIONS = [
    ("ev { x }", {"Obj.x": "async"}),
    ("ev { x y }", {"Obj.x": "async", "Obj.y": "async"}),
    ("ev { id x o { x } }", {"Obj.x": "async", "Obj.o": "sync"}),
    ("ev { y }", {"Subscription.ev": "async", "Obj.y": "sync"}),
    ("k: ev { x l { x } }", {"Obj.x": "async"}),
    ("tick", {"Subscription.tick": "async"}),
    ("ev { x }", {}),
    ("ev { x } ev { y }", {"Obj.x": "async"}),
    ("... on Subscription { ev { x } } ev { id }", {"Obj.x": "sync"}),
]


def _event(k):
    sub = {"__typename__": "Obj", "id": "s%d" % k, "x": 100 + k, "y": 200 + k, "o": None, "l": []}
    who = {"__typename__": "Obj" if k % 2 == 0 else "Other", "id": "w%d" % k, "x": 7 + k, "y": 8 + k, "z": 9 + k}
    ev = {"__typename__": "Obj", "id": "e%d" % k, "x": 10 * k + 1, "y": 10 * k + 2, "o": sub, "l": [sub], "who": who}
    return {"ev": ev, "tick": k}


def _update_in_place(target, fresh):
    """make ``target`` equal to ``fresh`` while keeping the identity of every nested dict / list"""
    for key in list(target):
        if key not in fresh:
            del target[key]
    for key, val in fresh.items():
        cur = target.get(key)
        if isinstance(val, dict) and isinstance(cur, dict):
            _update_in_place(cur, val)
        else:
            target[key] = val


def cases(tier):
    b = BOUNDS[tier]
    for si, (sel, custom) in enumerate(SELECTIONS):
        for n in range(0, b["events"] + 1):
            for mode in ("deferred", "immediate"):
                for rk in ("sync", "async"):
                    if tier == "quick" and n == b["events"] and (mode, rk) not in (("deferred", "sync"), ("immediate", "async")):
                        continue
                    yield {"kind": "stream", "sel": sel, "custom": custom, "n": n, "mode": mode, "resolver": rk}
                    if si in (0, 2) and "tick" not in sel:
                        yield {"kind": "stream", "sel": sel, "custom": custom, "n": n, "mode": mode, "resolver": rk, "sdl": "single"}
    # variables: defaults and provided values must reach both the subscription field and every event
    for n in range(0, min(b["events"], 3) + 1):
        for variables in ({}, {"s": 2}):
            for rk in ("sync", "async"):
                yield {"kind": "stream", "sel": "tick(step: $s)", "vardefs": "($s: Int = 3)", "variables": variables,
                       "custom": {"Subscription.tick": "async"}, "n": n, "mode": "deferred", "resolver": rk}
    # the source itself fails at event k: the failure must surface, not look like the end of the stream
    for n in (1, 2, 3):
        for k in range(n):
            for mode in ("deferred", "immediate"):
                yield {"kind": "stream", "sel": "ev { x }", "custom": {"Obj.x": "async"}, "n": n, "mode": mode, "resolver": "sync", "raise_at": k}
    # the same event OBJECT re-emitted after in-place mutation (identity-keyed memoisation must not leak between events)
    for n in (2, 3):
        for sel, custom in (("ev { x who { id ... on Obj { x } ... on Other { z } } }", {"Obj.x": "async"}),
                            ("ev { x y }", {}), ("ev { who { __typename id } l { x } }", {"Obj.x": "sync"})):
            for rk in ("sync", "async"):
                yield {"kind": "stream", "sel": sel, "custom": custom, "n": n, "mode": "same-object", "resolver": rk}
    # several subscription operations in one document, selected by name
    for n in (1, 2):
        for opname in ("Second", "First"):
            yield {"kind": "stream", "sel": "ev { x }", "doc": "subscription First { ev { id } } subscription Second { ev { x } } query Other { a }" if opname == "Second" else "subscription First { ev { x } } subscription Second { tick } ",
                   "operation_name": opname, "custom": {"Obj.x": "async"}, "n": n, "mode": "deferred", "resolver": "sync"}
    # a null event is an event like any other; a source object that is falsy is still a source
    for n in range(1, min(b["events"], 3) + 1):
        for k in range(n):
            yield {"kind": "stream", "sel": "ev { x }", "custom": {"Obj.x": "async"}, "n": n, "mode": "immediate", "resolver": "sync", "none_at": k}
        for mode in ("falsy", "falsy-deferred"):
            yield {"kind": "stream", "sel": "ev { x }", "custom": {"Obj.x": "async"}, "n": n, "mode": mode, "resolver": "async"}
    # an event that fails as a whole (unexpected exception) after a field error was recorded; the consumer keeps
    # pulling: the later events' results must carry nothing of the failed event
    for n in (2, 3):
        for custom in ({"Obj.x": "sync", "Obj.y": "sync"}, {"Obj.x": "async", "Obj.y": "async"}):
            for mode in ("deferred", "immediate", "agen", "agen-deferred"):
                yield {"kind": "stream", "sel": "ev { x y }", "custom": custom, "n": n, "mode": mode, "resolver": "sync", "keep_pulling": True}
    # async-generator sources on the ordinary path too
    for n in (0, 1, 3):
        for mode in ("agen", "agen-deferred"):
            yield {"kind": "stream", "sel": "ev { x y }", "custom": {"Obj.x": "async", "Obj.y": "sync"}, "n": n, "mode": mode, "resolver": "sync"}
    for name in ("two-fields", "two-fields-fragment", "typename-only", "no-subscription-resolver", "query-operation", "mutation-operation", "blocking-runtime", "threadpool-runtime"):
        yield {"kind": "refusal", "name": name}


class Source:
    """async iterator over the events; each delivery is an external completion owned by the explorer"""

    def __init__(self, world, loop, n, mode, none_at=None, raise_at=None):
        self.world, self.loop, self.n, self.mode = world, loop, n, mode
        self.k = 0
        self.pulls = 0
        self.none_at = none_at
        self.raise_at = raise_at
        self.shared = None

    def __aiter__(self):
        return self

    async def __anext__(self):
        self.pulls += 1
        k = self.k
        self.k += 1
        if self.mode in ("deferred", "falsy-deferred"):
            await self.loop.defer("src:%d" % k, lambda: None)
        if k >= self.n:
            self.world.ev("source-end")
            raise StopAsyncIteration
        self.world.event_index = k
        self.world.ev("event", k)
        if self.raise_at == k:
            raise SourceFailure("source failed at event %d" % k)
        if self.none_at == k:
            return None
        if self.mode == "same-object":
            # a state object re-emitted after being mutated in place: same identity, new content
            if self.shared is None:
                self.shared = _event(k)
            else:
                _update_in_place(self.shared, _event(k))
            return self.shared
        return _event(k)


class AgenSource:
    """the events come from an ASYNC GENERATOR (supports aclose / athrow, unlike the class-based iterator): the
    object handed to the library is the generator itself; this wrapper only keeps the counters"""

    def __init__(self, world, loop, n, mode):
        self.pulls = 0
        deferred = mode == "agen-deferred"
        outer = self

        async def gen():
            for k in range(n + 1):
                outer.pulls += 1
                if deferred:
                    await loop.defer("src:%d" % k, lambda: None)
                if k >= n:
                    world.ev("source-end")
                    return
                world.event_index = k
                world.ev("event", k)
                yield _event(k)

        self.stream = gen()


class SourceFailure(Exception):
    """an unexpected failure of the event source itself"""


class FalsySource(Source):
    """a queue-like source object: defines __len__ and is empty (falsy) when handed over"""

    def __len__(self):
        return 0


_SCHEMAS = {}


def _schema(custom, rk, sdl="full"):
    from mc.sched import harness as H

    key = (json.dumps(custom, sort_keys=True), rk, sdl)
    s = _SCHEMAS.get(key)
    if s is None:
        from py_gql import build_schema

        text = H.SDLS[sdl]
        if sdl == "single":
            text = text.replace("type Query { o(id: Int): Obj }", "type Query { ev: Obj }")
        s = build_schema(text)
        for coord in sorted(custom):
            t, f = coord.split(".")
            fn = H._mk_async(coord) if custom[coord] == "async" else H._mk_sync(coord)
            s.register_resolver(t, f, fn)
            if t == "Subscription":
                # the reference executes the same selection as a query on the event
                s.register_resolver("Query", f, H._mk_sync("Query." + f))
        if rk == "sync":

            def sub(root, ctx, info, **args):
                ctx.ev("subscribe", root, dict(args))
                return getattr(ctx.source, "stream", ctx.source)

        else:

            async def sub(root, ctx, info, **args):
                ctx.ev("subscribe", root, dict(args))
                await ctx.loop.defer("subscribe", lambda: None)
                return getattr(ctx.source, "stream", ctx.source)

        if rk != "none":
            s.register_subscription("Subscription", "ev", sub)
            if sdl == "full":
                s.register_subscription("Subscription", "tick", sub)
        s.validate()
        _SCHEMAS[key] = s
    return s


def _obs_result(res):
    errs = sorted([str(e.message), ".".join(str(p) for p in (e.path or []))] for e in res.errors)
    return [json.dumps(res.data, default=repr), errs]


def _body(case, overrides, ch):
    from py_gql.execution import subscribe
    from py_gql.execution.runtime import AsyncIORuntime
    from py_gql.lang import parse

    from mc.sched import harness as H
    from mc.sched.vloop import VLoop

    world = H.World(overrides)
    loop = VLoop()
    world.loop = loop
    cls = FalsySource if case["mode"].startswith("falsy") else Source
    world.source = cls(world, loop, case["n"], case["mode"], case.get("none_at"), case.get("raise_at"))
    if case["mode"].startswith("agen"):
        world.source = AgenSource(world, loop, case["n"], case["mode"])
    schema = _schema(case["custom"], case["resolver"], case.get("sdl", "full"))
    dkey = (case["sel"], case.get("vardefs", ""))
    doc = _DOCS.get(dkey)
    if case.get("doc"):
        dkey = case["doc"]
        doc = _DOCS.get(dkey)
    if doc is None:
        doc = _DOCS[dkey] = parse(case.get("doc") or ("subscription %s { %s }" % (case.get("vardefs", ""), case["sel"])))
    rt = AsyncIORuntime(loop=loop, execute_blocking_functions_in_thread=False)

    kept = []

    async def main():
        stream = await subscribe(schema, doc, runtime=rt, context_value=world, variables=case.get("variables"),
                                 initial_value=INITIAL, operation_name=case.get("operation_name"),
                                 instrumentation=H.RecInstr(world, "I0"))
        out = []
        if case.get("keep_pulling"):
            it = stream.__aiter__()
            for _ in range(case["n"] + 3):
                try:
                    res = await it.__anext__()
                except StopAsyncIteration:
                    break
                except Exception as e:  # noqa  the failure of one event; the consumer asks for the next one
                    out.append(["raised", type(e).__name__])
                else:
                    out.append(_obs_result(res))
            return out
        async for res in stream:
            kept.append(res)
            out.append(_obs_result(res))
        return out

    try:
        status, value = loop.drive(main(), ch)
    finally:
        loop.finish()
    subs = [e for e in world.log if e[0] == "subscribe"]
    if case.get("raise_at") is not None:
        # the failure of the source must surface through the response stream, after the earlier results
        return {"status": status, "results": [_obs_result(r) for r in kept], "exc": repr(value) if status == "exc" else None,
                "pulls": world.source.pulls, "trace": loop.trace, "results_at_end": None, "subscribe_calls": None,
                "source_failure": True}, world
    return {"status": status, "results": value if status == "ok" else None, "exc": repr(value) if status == "exc" else None,
            "pulls": world.source.pulls, "trace": loop.trace,
            # results observed again after the stream ended: a yielded result must not change afterwards
            "results_at_end": [_obs_result(r) for r in kept] if status == "ok" and not case.get("keep_pulling") else None,
            "subscribe_calls": [[e[1] is INITIAL, e[2]] for e in subs],
            # field hooks of the instrumentation passed to subscribe(): per event, every start has its end
            "field_hooks": [sorted(e[3] for e in world.log if e[0] == "hook" and e[2] == "field_start"),
                            sorted(e[3] for e in world.log if e[0] == "hook" and e[2] == "field_end")]}, world


_DOCS = {}
INITIAL = {"marker": "initial-value"}


def _expected_sub_args(case):
    if "tick(step: $s)" in case["sel"]:
        return {"step": (case.get("variables") or {}).get("s", 3)}
    if case["sel"].startswith("tick"):
        return {"step": 1}
    return {}


def _reference(case, overrides):
    """per event: blocking execution of the same selection as a query with the event as root"""
    from py_gql import process_graphql_query
    from py_gql.execution import BlockingExecutor
    from py_gql.lang import parse

    from mc.sched import harness as H

    schema = _schema({c: "sync" for c in case["custom"]}, "sync", case.get("sdl", "full"))
    key = ("q:" + case["sel"], case.get("vardefs", ""))
    doc = _DOCS.get(key)
    if doc is None:
        doc = _DOCS[key] = parse("query %s { %s }" % (case.get("vardefs", ""), case["sel"].replace("on Subscription", "on Query")))
    out = []
    for k in range(case["n"]):
        world = H.World(overrides)
        world.event_index = k
        root = None if case.get("none_at") == k else _event(k)
        try:
            res = process_graphql_query(schema, doc, root=root, context=world, executor_cls=BlockingExecutor, validators=[], variables=case.get("variables"))
        except RuntimeError as e:
            if not case.get("keep_pulling"):
                raise
            out.append(["raised", type(e).__name__])
            continue
        out.append(_obs_result(res))
    return out


def _paths(case):
    """custom-resolver paths invoked for one event"""
    from py_gql import process_graphql_query
    from py_gql.execution import BlockingExecutor
    from py_gql.lang import parse

    from mc.sched import harness as H

    schema = _schema({c: "sync" for c in case["custom"]}, "sync", case.get("sdl", "full"))
    world = H.World({})
    process_graphql_query(schema, parse("query %s { %s }" % (case.get("vardefs", ""), case["sel"].replace("on Subscription", "on Query"))), root=_event(0), context=world, executor_cls=BlockingExecutor, validators=[], variables=case.get("variables"))
    out = []
    for e in world.log:
        if e[0] == "invoke" and e[1] not in out:
            out.append(e[1])
    return out


def _failure_sets(case, tier):
    paths = _paths(case)
    if case.get("keep_pulling"):
        for k in range(case["n"]):
            for p1 in paths:
                yield {"%d|%s" % (k, p1): "boom"}
                for p2 in paths:
                    if p1 != p2:
                        yield {"%d|%s" % (k, p1): "err", "%d|%s" % (k, p2): "boom"}
        return
    yield {}
    sites = [(k, p) for k in range(case["n"]) for p in paths]
    for k, p in sites:
        for o in ("err", "null"):
            yield {"%d|%s" % (k, p): o}
    if tier == "thorough":
        for (k1, p1), (k2, p2) in itertools.combinations(sites, 2):
            if k1 != k2:
                yield {"%d|%s" % (k1, p1): "err", "%d|%s" % (k2, p2): "err"}


def _compare(obs, ref, n):
    if obs.get("source_failure"):
        if obs["status"] in ("stuck", "horizon"):
            return "never-ends", "stream did not terminate after the source failed"
        if obs["status"] != "exc" or "SourceFailure" not in (obs["exc"] or ""):
            return "source-failure-swallowed", "the source raised SourceFailure, the stream ended with status %s %s" % (obs["status"], obs["exc"])
        if obs["results"] != ref[: len(obs["results"])] or len(obs["results"]) != obs["pulls"] - 1:
            return "data-differs", "results before the failure %s expected %s" % (obs["results"], ref[: obs["pulls"] - 1])
        return None, None
    if obs["status"] in ("stuck", "horizon"):
        return "never-ends", "stream did not terminate: %s" % obs["trace"][-12:]
    if obs["status"] != "ok":
        return "stream-raises", str(obs["exc"])
    res = obs["results"]
    if len(res) != n:
        return "count", "%d results for %d events" % (len(res), n)
    for k, (got, want) in enumerate(zip(res, ref)):
        if got[0] != want[0]:
            if got[0] in [r[0] for r in ref]:
                return "order", "result %d carries the data of another event: %s expected %s" % (k, got[0], want[0])
            return "data-differs", "event %d: %s expected %s" % (k, got[0], want[0])
        if got[1] != want[1]:
            extra = [e for e in got[1] if e not in want[1]]
            return ("foreign-error" if extra else "missing-error"), "event %d: errors %s expected %s" % (k, got[1], want[1])
    if obs["pulls"] != n + 1:
        return "source-pulls", "source pulled %d times for %d events" % (obs["pulls"], n)
    if obs.get("results_at_end") is not None and obs["results_at_end"] != res:
        return "result-changed-after-yield", "results when yielded %s, after the stream ended %s" % (res, obs["results_at_end"])
    return None, None


def _compare_subscribe(obs, case):
    calls = obs.get("subscribe_calls")
    if obs["status"] != "ok" or calls is None:
        return None, None
    if len(calls) != 1:
        return "subscription-resolver-calls", "subscription resolver called %d times" % len(calls)
    if not calls[0][0]:
        return "initial-value-not-forwarded", "subscription resolver did not receive the initial value as root"
    fh = obs.get("field_hooks")
    if fh is not None and not case.get("keep_pulling") and fh[0] != fh[1]:  # unexpected exceptions abort the event: outside the hook contract
        return "field-hooks-unbalanced", "field_start fired for %s but field_end for %s" % (fh[0], fh[1])
    if calls[0][1] != _expected_sub_args(case):
        return "subscription-arguments", "subscription resolver got %s expected %s" % (calls[0][1], _expected_sub_args(case))
    return None, None


def _refusal(name):
    from py_gql import build_schema
    from py_gql.exc import ExecutionError
    from py_gql.execution import subscribe
    from py_gql.execution.runtime import AsyncIORuntime, BlockingRuntime, ThreadPoolRuntime
    from py_gql.lang import parse

    from mc.explore import Chooser
    from mc.sched import harness as H
    from mc.sched.vloop import VLoop

    world = H.World({})
    loop = VLoop()
    world.loop = loop
    world.source = Source(world, loop, 2, "immediate")
    schema = _schema({}, "sync" if name != "no-subscription-resolver" else "none")
    rt = AsyncIORuntime(loop=loop, execute_blocking_functions_in_thread=False)
    text = "subscription { ev { x } }"
    expect = (RuntimeError,)
    if name == "two-fields":
        text, expect = "subscription { ev { x } tick }", (ExecutionError,)
    elif name == "two-fields-fragment":
        text, expect = "subscription { ...F } fragment F on Subscription { ev { x } tick }", (ExecutionError,)
    elif name == "typename-only":
        text = "subscription { __typename }"
    elif name == "query-operation":
        text = "query { ev { x } }"
    elif name == "mutation-operation":
        text = "mutation { m3 }"
    elif name == "blocking-runtime":
        rt = BlockingRuntime()
    elif name == "threadpool-runtime":
        rt = ThreadPoolRuntime(max_workers=1)
    doc = parse(text)

    async def main():
        r = subscribe(schema, doc, runtime=rt, context_value=world)
        if hasattr(r, "__await__"):
            r = await r
        return r

    try:
        status, value = loop.drive(main(), Chooser())
    finally:
        loop.finish()
        if name == "threadpool-runtime":
            rt._inner.shutdown(wait=False)
    subscribed = any(e[0] == "subscribe" for e in world.log)
    if status != "exc":
        return "refusal-missing:%s" % name, "subscribe returned %r (status %s)" % (value, status)
    if not isinstance(value, expect):
        return "refusal-wrong-exception:%s" % name, "raised %r expected %s" % (value, [e.__name__ for e in expect])
    if world.source.pulls:
        return "refusal-after-consumption:%s" % name, "source pulled %d times before the refusal" % world.source.pulls
    return None, "subscribed=%s" % subscribed


def check_case(case, st):
    out = []
    if case["kind"] == "refusal":
        st.n("evaluations")
        st.n("executions")
        st.n("states")
        st.n("transitions")
        cls, detail = _refusal(case["name"])
        st.outcome(("refusal", case["name"], cls))
        if cls:
            out.append((cls, case, detail))
        return out
    b = BOUNDS[st.tier]
    for ov in _failure_sets(case, st.tier):
        ref = _reference(case, ov)
        body = lambda ch: _body(case, ov, ch)  # noqa
        bad = 0
        for choices, (obs, world) in explore(body, bound=b["early_bound"], st=st, max_execs=(2000 if st.tier == "quick" else 50000)):
            st.n("evaluations")
            if case["n"] >= 2:
                st.nt((case.get("sdl", "full"), case.get("none_at"), json.dumps(case.get("variables")), case["sel"], sorted(case["custom"].items()), case["n"], case["mode"], case["resolver"], sorted(ov.items()), choices))
            cls, detail = _compare(obs, ref, case["n"])
            if not cls:
                cls, detail = _compare_subscribe(obs, case)
            st.outcome((cls, json.dumps(obs["results"])))
            if cls:
                bad += 1
                if bad <= 1:
                    o2 = run_once(body, choices)[1][0]
                    if o2["results"] != obs["results"] or o2["status"] != obs["status"]:
                        raise HarnessError("non-deterministic replay %r" % (choices,))
                    out.append((cls, {"kind": "stream", "case": case, "overrides": ov, "choices": choices}, detail))
            if st.out_of_time():
                return out
    if st.counters.get("cases", 0) % 9 == 1:
        st.sample({"selection": case["sel"], "custom": case["custom"], "events": case["n"], "source": case["mode"], "subscription_resolver": case["resolver"]})
    return out


def replay(w):
    if w["kind"] == "refusal":
        cls, detail = _refusal(w["name"])
        return [(cls, detail)] if cls else []
    case, ov = w["case"], w["overrides"]
    ref = _reference(case, ov)
    obs = run_once(lambda ch: _body(case, ov, ch), w["choices"])[1][0]
    cls, detail = _compare(obs, ref, case["n"])
    if not cls:
        cls, detail = _compare_subscribe(obs, case)
    return [(cls, detail)] if cls else []
