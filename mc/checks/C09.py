# -*- coding: utf-8 -*-
"""
C09 -- top-level mutation fields run strictly one after another in document order.

Engine E1: mutations with 1..4 top-level fields, every field (top-level and nested) served by a
custom resolver that logs invoke/finish events and is deferred where the configuration defers it;
ResolverError / null-in-non-null injected at any one response path; the five configurations; under
asyncio and the thread pool EVERY completion order of the pending results (+ early completions up to
the bound).  Monitor on the event log of every execution: for top-level fields i < j no event of
sub-tree j precedes the last event of sub-tree i; data and errors equal to the blocking reference
(document order of keys, later fields still run after a failing one).
"""
import itertools
import json

from mc.explore import HarnessError

READY = True
LEVEL = "model_checking"
TECHNIQUE = "stateless exhaustive exploration of completion orders of the real executor under a virtual asyncio loop and a controlled thread pool, with an ordering monitor on resolver invoke/finish events"
LEVEL_TEXT = (
    "For each bounded mutation every completion order of the pending resolver results (plus early completions up to the "
    "deviation bound) is executed on the real Executor with the asyncio and thread-pool runtimes; the serial-execution "
    "invariant is evaluated on the event log of every execution, and the result is compared with the blocking executor."
)
LEVEL_NOTE = "Scheduler owns the asyncio ready queue / external completions and the pool job order; callbacks are atomic at this level (thread interleavings inside callbacks are explored under C08)."
DESIGN_REF = "DESIGN.md section 5 and section 6, C09"
RULE = (
    "case = (schema shape {full, single-field root types, one type as both query and mutation root}, sequence of 1..n top-level mutation fields with sub-selections, written plainly or through "
    "fragment spreads / inline fragments, resolver style assignment, <=1 injected failure path); "
    "evaluation = one execution checked by the monitor and compared with the reference; non-trivial = distinct (case, config, schedule) "
    "with >= 2 top-level fields and at least one scheduling choice"
)
ASSUMPTIONS = ["every field of the mutation has a logging custom resolver, so every resolver invocation is visible in the log"]
BOUNDS = {
    "quick": {"top_level_fields": 3, "early_bound": 1, "free_order_upto": 4, "styles": "uniform + alternating"},
    "thorough": {"top_level_fields": 3, "early_bound": 1, "free_order_upto": 5, "styles": "all for <= 2 coordinates", "note": "all permutations of three blocks, every wrapping with the full failure set"},
}
TIME_CAP = {"quick": 240, "thorough": 1500}

# top-level building blocks: (text, coordinates used)
BLOCKS = [
    ("m1 { x }", ["Mutation.m1", "Obj.x"]),
    ("m3", ["Mutation.m3"]),
    ("m2 { x o { x } }", ["Mutation.m2", "Obj.x", "Obj.o"]),
    ("m4 { x y }", ["Mutation.m4", "Obj.x", "Obj.y"]),
    ("m5", ["Mutation.m5"]),
    ("k: m1 { o { x } x }", ["Mutation.m1", "Obj.o", "Obj.x"]),
]
STYLES = ("sync", "async")


SINGLE_BLOCKS = [
    ("p: m1 { x }", ["Mutation.m1", "Obj.x"]),
    ("q: m1(id: 2) { x o { x } }", ["Mutation.m1", "Obj.x", "Obj.o"]),
    ("m1 { y }", ["Mutation.m1", "Obj.y"]),
]


def _wrappings(parts):
    """the same top-level fields written plainly / through fragments (document order of keys unchanged)"""
    plain = " ".join(parts)
    yield "plain", "mutation { %s }" % plain
    if len(parts) >= 2:
        yield "spread-all", "mutation { ...Steps } fragment Steps on Mutation { %s }" % plain
        yield "inline-all", "mutation { ... on Mutation { %s } }" % plain
        yield "inline-tail", "mutation { %s ... { %s } }" % (parts[0], " ".join(parts[1:]))
        yield "inline-head", "mutation { ... on Mutation { %s } %s }" % (parts[0], " ".join(parts[1:]))
        yield "inline-untyped-head", "mutation { ... { %s } %s }" % (parts[0], " ".join(parts[1:]))
        yield "spread-head", "mutation { ...Head %s } fragment Head on Mutation { %s }" % (" ".join(parts[1:]), parts[0])
        # the first key is selected directly and again inside a later fragment (merged): its position must not move
        yield "dup-in-spread", "mutation { %s ...Rest } fragment Rest on Mutation { %s %s }" % (parts[0], " ".join(parts[1:]), parts[0])
        yield "dup-in-inline", "mutation { %s ... on Mutation { %s %s } }" % (parts[0], " ".join(parts[1:]), parts[0])
        # the FIRST occurrence of a key is switched off, a later one is live: the key takes the later position
        head = parts[0]
        cut = head.index(" {") if " {" in head else len(head)
        yield "skipped-first-occurrence", "mutation ($t: Boolean = true) { %s @skip(if: $t)%s %s %s }" % (head[:cut], head[cut:], " ".join(parts[1:]), head)
        # introspection disabled: the meta field is not executed and must not shift the other keys
        yield "typename-disabled", "mutation { __typename %s }" % plain
        yield "typename-disabled-middle", "mutation { %s __typename %s }" % (parts[0], " ".join(parts[1:]))
        # a skipped top-level field between the others: it must not run at all (no side effect)
        yield "skip-between", "mutation ($t: Boolean = true) { %s zz: m3 @skip(if: $t) %s }" % (parts[0], " ".join(parts[1:]))
        # the operation is one of several in the document, selected by name; the decoy lists the fields reversed
        yield "named-operation", "mutation Decoy { %s } mutation Wanted { %s } query Other { a }" % (" ".join(reversed(parts)), plain)


def _assignments(coords, tier, k):
    kk = len(coords)
    if tier == "thorough" and kk <= 2:
        return list(itertools.product(STYLES, repeat=kk))
    assigns = [tuple(["sync"] * kk), tuple(["async"] * kk), tuple(STYLES[i % 2] for i in range(kk)), tuple(STYLES[(i + 1) % 2] for i in range(kk))]
    if k == 3:
        assigns = assigns[1:3]
    return assigns


def cases(tier):
    b = BOUNDS[tier]
    n = b["top_level_fields"]
    for sdl, blocks in (("full", BLOCKS), ("single", SINGLE_BLOCKS)):
        idx = range(len(blocks))
        for k in range(1, n + 1):
            for combo in itertools.permutations(idx, k):
                if tier == "quick" and k == 3 and list(combo) != sorted(combo):
                    continue
                if sdl == "full" and {0, 5} <= set(combo):
                    continue
                coords = []
                for i in combo:
                    for c in blocks[i][1]:
                        if c not in coords:
                            coords.append(c)
                parts = [blocks[i][0] for i in combo]
                keys = [p.split(":")[0].split(" ")[0].split("(")[0] for p in parts]
                for wname, query in _wrappings(parts):
                    if wname != "plain" and tier == "quick" and k == 3 and sdl == "full" and combo != (0, 1, 2):
                        continue
                    assigns = _assignments(coords, tier, k)
                    if wname != "plain":
                        assigns = assigns[1:2] if tier == "quick" else assigns
                    for a in assigns:
                        if wname == "skip-between" and sdl != "full":
                            continue
                        c = {"query": query, "keys": keys, "custom": dict(zip(coords, a)), "sdl": sdl, "wrapping": wname}
                        if wname == "plain" and sdl == "full" and a == assigns[0]:
                            # the top-level fields have no explicit resolver: they are methods of the root value,
                            # called by the default resolver, and still deferred where the runtime defers
                            c2 = dict(c, custom={k_: v_ for k_, v_ in c["custom"].items() if not k_.startswith("Mutation.")}, root="methods", wrapping="root-methods")
                            yield c2
                            if k >= 2:
                                # mixed: ONE top-level field keeps its explicit resolver, the others are root methods
                                # (fields with and without a resolver of their own still run in document order)
                                tops = [k_ for k_ in c["custom"] if k_.startswith("Mutation.")]
                                for keep in (tops[0], tops[-1]):
                                    for style in ("sync", "async"):
                                        cm = {k_: v_ for k_, v_ in c["custom"].items() if not k_.startswith("Mutation.")}
                                        cm[keep] = style
                                        yield dict(c, custom=cm, root="methods", wrapping="root-methods-mixed")
                        if wname == "named-operation":
                            c["operation_name"] = "Wanted"
                        if wname == "skipped-first-occurrence":
                            c["keys"] = keys[1:] + keys[:1]
                        if wname.startswith("typename-disabled"):
                            c["disable_introspection"] = True
                        if wname == "skip-between":
                            c["custom"]["Mutation.m3"] = c["custom"].get("Mutation.m3", "async")
                        yield c


    # the mutation root type is ALSO the query root type: a mutation operation still runs serially
    for combo in itertools.permutations(range(5), 2):
        if tier == "quick" and combo[0] > combo[1] and combo != (1, 0):
            continue
        coords = []
        for i in combo:
            for c in BLOCKS[i][1]:
                if c not in coords:
                    coords.append(c)
        parts = [BLOCKS[i][0] for i in combo]
        keys = [p.split(":")[0].split(" ")[0].split("(")[0] for p in parts]
        for a in _assignments(coords, tier, 2)[1:3]:
            yield {"query": "mutation { %s }" % " ".join(parts), "keys": keys, "custom": dict(zip(coords, a)), "sdl": "shared-root", "wrapping": "shared-root"}


def _key(obs):
    return (obs["status"], obs.get("data"), json.dumps(obs.get("errors")), obs.get("exc"))


def monitor(keys, world):
    """serial-execution invariant on the event log; returns None or a description."""
    pos = {}
    for n, e in enumerate(world.log):
        if e[0] in ("invoke", "finish"):
            top = e[1].split(".")[0]
            pos.setdefault(top, []).append((n, e))
    order = [k for k in keys if k in pos]
    for i in range(len(order)):
        for j in range(i + 1, len(order)):
            last_i = pos[order[i]][-1][0]
            first_j = pos[order[j]][0][0]
            if first_j < last_i:
                return "overlap(%s,%s): %s at #%d before %s at #%d" % (
                    order[i], order[j], pos[order[j]][0][1], first_j, pos[order[i]][-1][1], last_i)
    if "zz" in pos and "zz" not in keys:
        return "skipped-field-ran: %s" % (pos["zz"][0][1],)
    # every invoke has a finish
    inv = [e[1] for e in world.log if e[0] == "invoke"]
    fin = [e[1] for e in world.log if e[0] == "finish"]
    if sorted(inv) != sorted(fin):
        return "unfinished: invoked %s finished %s" % (inv, fin)
    return None


def _overrides(paths, tier, wrapping="plain"):
    yield {}
    if tier == "quick" and wrapping not in ("plain", "root-methods"):
        # re-spellings of the same operation: failures only at the top-level fields
        for p in paths:
            if "." not in p:
                yield {p: "err"}
        return
    for p in paths:
        for o in ("err", "null"):
            yield {p: o}
        if "." not in p:
            yield {p: "err-sub"}  # a user-defined subclass of ResolverError
        if p.split(".")[-1] == "m4":
            # a lazily evaluated list result whose iteration fails after the first item was handed out
            yield {p: "lazy-err"}
            yield {p: "lazy-sized-err"}
    if tier == "thorough":
        tops = [p for p in paths if "." not in p]
        for p, q in itertools.combinations(tops, 2):
            yield {p: "err", q: "err"}


def check_case(case, st):
    from mc.sched import harness as H
    from mc.sched import scenario as S

    b = BOUNDS[st.tier]
    out = []
    base = {"query": case["query"], "custom": case["custom"], "sdl": case.get("sdl", "full"), "operation_name": case.get("operation_name"), "root": case.get("root"), "disable_introspection": case.get("disable_introspection")}
    paths, ndef = S.invoked_paths(base)
    # top-level fields are serialised, so only the results of one sub-tree are ever pending together:
    # every completion order is affordable
    free = True
    for ov in _overrides(paths, st.tier, case.get("wrapping", "plain")):
        scn = dict(base, overrides=ov)
        ref, wref = H.run_config("blocking-opt", scn, None, fast=True)
        m = monitor(case["keys"], wref)
        if m:
            out.append(("blocking-opt/" + m.split(":")[0].split("(")[0], {"scn": scn, "keys": case["keys"], "config": "blocking-opt", "choices": []}, m))
        for cfg in H.CONFIGS[1:] + (("entry-graphql", "entry-blocking") if (not ov and not case.get("disable_introspection")) else ()):
            bad = 0
            for choices, obs, world in S.schedules(cfg, scn, st, free=free, bound=(b["early_bound"] - (1 if ("m4" in case["query"] or (st.tier == "thorough" and len(case["keys"]) >= 3)) else 0)), max_execs=(3000 if st.tier == "quick" else 50000)):
                st.n("evaluations")
                if choices and len(case["keys"]) >= 2:
                    st.nt((case["query"], sorted(case["custom"].items()), sorted(ov.items()), cfg, choices))
                st.outcome(_key(obs))
                cls = None
                m = monitor(case["keys"], world) if obs["status"] == "ok" else None
                if obs["status"] in ("stuck", "horizon"):
                    cls, detail = "%s/stuck" % cfg, "trace=%s" % obs.get("trace")
                elif m:
                    cls, detail = "%s/%s" % (cfg, m.split(":")[0].split("(")[0]), m
                elif _key(obs) != _key(ref):
                    cls = "%s/%s" % (cfg, "key-order-or-data" if obs.get("data") != ref.get("data") else "errors-differ")
                    detail = "expected %s got %s" % (_key(ref), _key(obs))
                if cls:
                    bad += 1
                    if bad <= 2:
                        o2, w2 = S.replay(cfg, scn, choices, free)
                        if _key(o2) != _key(obs) or w2.log != world.log:
                            raise HarnessError("non-deterministic replay %r %s" % (choices, cfg))
                        out.append((cls, {"scn": scn, "keys": case["keys"], "config": cfg, "choices": choices, "free": free}, detail))
                if st.out_of_time():
                    return out
    if st.counters.get("cases", 0) % 23 == 1:
        st.sample({"query": case["query"], "custom": case["custom"], "deferred_invocations": ndef})
    return out


def replay(w):
    from mc.sched import harness as H
    from mc.sched import scenario as S

    scn = w["scn"]
    ref, _ = H.run_config("blocking-opt", scn, None, fast=True)
    obs, world = S.replay(w["config"], scn, w["choices"], w.get("free", True))
    if obs["status"] in ("stuck", "horizon"):
        return [("%s/stuck" % w["config"], str(obs))]
    m = monitor(w["keys"], world) if obs["status"] == "ok" else None
    if m:
        return [("%s/%s" % (w["config"], m.split(":")[0].split("(")[0]), m)]
    if _key(obs) != _key(ref):
        return [("%s/%s" % (w["config"], "key-order-or-data" if obs.get("data") != ref.get("data") else "errors-differ"), "expected %s got %s" % (_key(ref), _key(obs)))]
    return []
