# -*- coding: utf-8 -*-
"""
C04 -- execution yields the specified result for every valid operation; independent of earlier
requests on the same schema object.

E3: fixed schemas (mc.gen.ex_schemas A/B/C) x operations valid by construction (mc.gen.operations:
every base selection tree up to N nodes, every single / pair of validity-preserving deviations) x
variable assignments x resolver worlds (mc.gen.worlds; exhaustive over all outcomes of all resolver
invocations for small operations, <= F departures beyond), each run through the real
``execute(..., executor_cls=BlockingExecutor)`` and compared with the reference executor
(mc.ref.execute, a transliteration of the specification's algorithm with the null semantics the
property states).  The fault-free world of every operation is additionally run through
``graphql_blocking`` (text in, parse + validate + execute), through the generic ``Executor`` class,
and through ``default_resolver`` over a nested dict/object tree.

E2: on ONE Schema object, every sequence of <= L requests from a menu of 9; every response must
equal the response a fresh schema gives to the same request.
"""
import json

from mc.gen import docs as D
from mc.gen import ex_schemas as S
from mc.gen import operations as O
from mc.gen import worlds as W
from mc.ref import execute as R

READY = True
LEVEL = "model_checking"
TECHNIQUE = (
    "bounded-exhaustive enumeration of operations x variable assignments x resolver worlds against a "
    "reference executor; explicit-state search over request histories on one schema object"
)
LEVEL_TEXT = (
    "Every operation shape inside the bound, every accepted variable assignment and every resolver world "
    "(all outcomes for small operations, all <=F-fault worlds beyond) is executed by the real executor and "
    "compared, key order included, with an independent transliteration of the specification's algorithm; "
    "every request history up to the depth bound is replayed on one schema object and compared with a fresh one. "
    "Exhaustive inside the bounds; small-scope argument beyond."
)
LEVEL_NOTE = (
    "Trusts the reference executor (self-tested on hand-computed examples; every disagreement was triaged against "
    "the library's second executor class and the spec text), py_gql.lang.parse (C01/C02) and the schema builder for the four fixed schemas."
)
DESIGN_REF = "DESIGN.md section 6, C04"
RULE = (
    "cases = (schema, base selection tree) | (tree, first deviation) | two-operation documents | request histories; "
    "evaluation = one library execution compared with the reference (or with the fresh-schema response); "
    "non-trivial = distinct (document, variables, world) in which the reference invoked >= 1 resolver and produced data; "
    "states = request histories (no merging: every history is replayed), transitions = last step of each history, "
    "distinct canonical cache states are counted as outcomes"
)
ASSUMPTIONS = [
    "operations are valid by construction and additionally pass validate_ast (rejected ones are counted and left to C06)",
    "variable assignments are accepted ones (rejections are C07's business)",
    "resolver worlds return natural Python values of the declared types (small ints, path-derived strings, enum internal values, a (y, m) tuple for the custom scalar)",
    "error locations are compared as sets: the library must name the first merged field node and only nodes merged under that key",
    "BlockingExecutor is the main target; the generic Executor and graphql_blocking are run on the fault-free world only (the other runtimes belong to C08)",
]
BOUNDS = {
    "quick": {"base_nodes": 4, "dev1_nodes": 2, "dev2_nodes": 1, "exhaustive_invocations": 4, "faults_beyond": 1, "history_depth": 3, "menu": 9, "shared_fragment_parents": "all ordered pairs + 3 triples x 7 extras per parent; type/list-shape faults only"},
    "thorough": {"base_nodes": 5, "dev1_nodes": 3, "dev2_nodes": 2, "exhaustive_invocations": 5, "faults_beyond": 2, "history_depth": 4, "menu": 9, "shared_fragment_parents": "all ordered pairs + 9 triples x 7 extras per parent; all <=1-fault worlds"},
}
TIME_CAP = {"quick": 150, "thorough": 1500}

DATA_DEPTH = 3
ROOTS = [("A", "query"), ("B", "query"), ("C", "query"), ("C", "mutation")]

# ---------------------------------------------------------------------------------------------
# lazily built per-process objects

_SCHEMAS = {}
_PLAIN = {}
_GENS = {}


def schema(name):
    if name not in _SCHEMAS:
        sm = S.SCHEMAS[name]
        _SCHEMAS[name] = S.build(sm, W.make_resolver(sm))
    return _SCHEMAS[name]


def plain_schema(name):
    if name not in _PLAIN:
        sch = S.build(S.SCHEMAS[name])
        for (sname, tname, fname), pyname in W.PYTHON_NAMES.items():
            if sname == name:
                sch.types[tname].field_map[fname].python_name = pyname
        _PLAIN[name] = sch
    return _PLAIN[name]


def gen(name):
    if name not in _GENS:
        _GENS[name] = O.Gen(S.SCHEMAS[name], 3)
    return _GENS[name]


def base_case(name, root, n, idx):
    g = gen(name)
    sm = S.SCHEMAS[name]
    ab = g.sets(sm[root], n, 3)[idx]
    return {"doc": O.mkdoc(O.mkop(g.to_sels(sm[root], ab), kind=root)), "vars": {}, "devs": []}


# ---------------------------------------------------------------------------------------------
# cases


def cases(tier):
    b = BOUNDS[tier]
    for n in range(1, b["base_nodes"] + 1):
        for name, root in ROOTS:
            cnt = len(gen(name).sets(S.SCHEMAS[name][root], n, 3))
            for idx in range(cnt):
                yield {"k": "base", "schema": name, "root": root, "n": n, "idx": idx}
    yield {"k": "multi-op"}
    yield {"k": "operation-name"}
    yield {"k": "containers"}
    yield {"k": "shared-error"}
    yield {"k": "abstract-args"}
    for j, (tc, parents) in enumerate(O.shared_fragment_parent_tuples(S.SCHEMAS["D"], tier)):
        yield {"k": "shared-frag", "tc": tc, "parents": [list(p) for p in parents]}
    for depth in range(1, b["history_depth"] + 1):
        for h in _histories(depth, b["menu"]):
            yield {"k": "history", "h": h}
    for n in range(1, b["dev1_nodes"] + 1):
        for name, root in ROOTS:
            cnt = len(gen(name).sets(S.SCHEMAS[name][root], n, 3))
            for idx in range(cnt):
                yield {"k": "dev1", "schema": name, "root": root, "n": n, "idx": idx}
    for n in range(1, b["dev2_nodes"] + 1):
        for name, root in ROOTS:
            sm = S.SCHEMAS[name]
            cnt = len(gen(name).sets(sm[root], n, 3))
            for idx in range(cnt):
                base = base_case(name, root, n, idx)
                nd = sum(1 for _ in O.deviations(sm, base["doc"]))
                for d1 in range(nd):
                    yield {"k": "dev2", "schema": name, "root": root, "n": n, "idx": idx, "d1": d1}


def _histories(depth, menu):
    import itertools

    return [list(h) for h in itertools.product(range(menu), repeat=depth)]


# ---------------------------------------------------------------------------------------------
# running the library


def _lib_run(mode, name, text, ast, opname, variables, world):
    """-> ("ok", data_json, [(path, locs)], raw_data) | ("raise", exc) | ("request-error", messages)"""
    from py_gql import graphql_blocking
    from py_gql.exc import VariablesCoercionError, ExecutionError
    from py_gql.execution import execute, BlockingExecutor, Executor

    ctx = {"world": world}
    try:
        if mode == "execute-blocking":
            r = execute(schema(name), ast, operation_name=opname, variables=variables, context_value=ctx, executor_cls=BlockingExecutor)
        elif mode == "execute-generic":
            r = execute(schema(name), ast, operation_name=opname, variables=variables, context_value=ctx, executor_cls=Executor)
        elif mode == "graphql_blocking":
            r = graphql_blocking(schema(name), text, operation_name=opname, variables=variables, context=ctx)
            if "data" not in r.response() or (r.data is None and r.errors and all(getattr(e, "path", None) is None for e in r.errors)):
                return ("request-error", [str(e) for e in r.errors])
        elif mode.startswith("default-resolver"):
            sm = S.SCHEMAS[name]
            kind = _op_kind(ast, opname)
            root = W.data_tree(sm, sm[kind], DATA_DEPTH, "", mode.split(":", 1)[1] if ":" in mode else None)
            r = execute(plain_schema(name), ast, operation_name=opname, variables=variables, initial_value=root, executor_cls=BlockingExecutor)
        else:
            raise ValueError(mode)
    except (VariablesCoercionError, ExecutionError) as e:
        return ("request-error", [str(e)])
    except Exception as e:  # noqa
        return ("raise", e)
    try:
        dj = json.dumps(r.data)
    except Exception as e:  # noqa
        return ("raise", e)
    errs = []
    for e in r.errors:
        locs = tuple(sorted({n.loc[0] for n in (e.nodes or []) if getattr(n, "loc", None)}))
        errs.append((tuple(e.path) if e.path is not None else None, locs))
    return ("ok", dj, errs, r.data)


def _op_kind(ast, opname):
    for d in ast.definitions:
        if hasattr(d, "operation") and (opname is None or (d.name and d.name.value == opname)):
            return d.operation
    return "query"


# ---------------------------------------------------------------------------------------------
# oracle


def _walk(data, path):
    cur = data
    for p in path:
        if isinstance(cur, dict):
            if p not in cur:
                return "<missing>"
            cur = cur[p]
        elif isinstance(cur, list):
            if not isinstance(p, int) or p >= len(cur):
                return "<missing>"
            cur = cur[p]
        else:
            return "<missing>"
    return cur


def _prune(data, pathkeys):
    """replace the subtree at every faulted path by a marker (deep copy)."""
    data = json.loads(json.dumps(data))
    for pk in pathkeys:
        parts = pk.rstrip("#").split("/")
        cur = data
        ok = True
        for j, p in enumerate(parts):
            last = j == len(parts) - 1
            if isinstance(cur, list):
                try:
                    p = int(p)
                except ValueError:
                    ok = False
                    break
                if p >= len(cur):
                    ok = False
                    break
            elif isinstance(cur, dict):
                if p not in cur:
                    ok = False
                    break
            else:
                ok = False
                break
            if last:
                cur[p] = "<F>"
            else:
                cur = cur[p]
        del ok
    return data


def _first_diff(a, b, path=()):
    if type(a) != type(b):
        return path
    if isinstance(a, dict):
        ka, kb = list(a), list(b)
        if ka != kb:
            return path
        for k in ka:
            d = _first_diff(a[k], b[k], path + (k,))
            if d is not None:
                return d
        return None
    if isinstance(a, list):
        if len(a) != len(b):
            return path
        for i, (x, y) in enumerate(zip(a, b)):
            d = _first_diff(x, y, path + (i,))
            if d is not None:
                return d
        return None
    return None if a == b else path


def _pk_path(pk):
    return tuple(int(x) if x.isdigit() else x for x in pk.rstrip("#").split("/"))


def _kind(v):
    if v is None:
        return "null"
    if isinstance(v, dict):
        return "object"
    if isinstance(v, list):
        return "list"
    return type(v).__name__


def compare(ref, lib, mode, feat):
    """reference Result vs library run -> list of (class, detail).  Class keys are derived from the
    difference itself (declared type and argument kinds of the field owning the first differing path,
    kind of value on either side), not from the shape of the whole operation."""
    out = []
    if lib[0] == "raise":
        e = lib[1]
        return [("crash:%s/%s" % (type(e).__name__, mode), "[%s] library raised %r" % (feat, e))]
    if lib[0] == "request-error":
        if ref.request_error:
            return []
        return [("request-refused/%s" % mode, "[%s] library refused the request: %s" % (feat, lib[1]))]
    if ref.request_error:
        return [("request-accepted/%s" % mode, "[%s] reference rejects the request (%s), library executed it" % (feat, ref.request_error))]
    _, dj, errs, raw = lib
    rj = ref.dumps()
    if dj != rj:
        a, b = json.loads(dj), json.loads(rj)
        if json.dumps(a, sort_keys=True) == json.dumps(b, sort_keys=True):
            cls = "key-order"
        else:
            cls = "data-differs"
        p = _first_diff(a, b)
        va, vb = _walk(a, p), _walk(b, p)
        out.append((
            "%s/%s/lib=%s,ref=%s" % (cls, R.describe(ref, p), _kind(va), _kind(vb)),
            "[%s %s] at %r: library %s reference %s" % (mode, feat, p, dj, rj),
        ))
    # errors: multiset on path, location sets
    lp = sorted((repr(p), p, locs) for p, locs in errs)
    rp = sorted((repr(p), p, first, alls) for p, first, alls in ref.errors)
    lpaths, rpaths = [x[0] for x in lp], [x[0] for x in rp]
    if lpaths != rpaths:
        extra = [x for x in lp if x[0] not in rpaths]
        missing = [x for x in rp if x[0] not in lpaths]
        if extra:
            cls = "error-multiset/extra/%s" % R.describe(ref, extra[0][1])
        elif missing:
            cls = "error-multiset/missing/%s" % R.describe(ref, missing[0][1])
        else:
            cls = "error-multiset/multiplicity/%s" % R.describe(ref, lp[0][1])
        out.append((cls, "[%s %s] library error paths %s reference %s" % (mode, feat, lpaths, rpaths)))
    else:
        for (_r, p, locs), (_r2, _p2, first, alls) in zip(lp, rp):
            if first is None:
                continue
            if not locs or first not in locs or not set(locs) <= set(alls):
                out.append((
                    "error-location/%s" % R.describe(ref, p),
                    "[%s %s] path %s: library locations %s, field nodes %s (first %s)" % (mode, feat, p, locs, alls, first),
                ))
                break
    # one root cause, one class: a field error the reference does not expect (an extra error whose
    # path holds null in the library's data, whether or not the reference has a value there)
    extra = [x for x in lp if x[0] not in rpaths]
    if len(extra) == 1 and lpaths != rpaths and not [x for x in rp if x[0] not in lpaths]:
        p = tuple(extra[0][1] or ())
        if _walk(raw, p) is None:
            dp = _first_diff(json.loads(dj), json.loads(rj)) if dj != rj else None
            if dp is None or tuple(dp) == p:
                out = [("unexpected-field-error/%s" % R.describe(ref, p), " ; ".join(d for _c, d in out))]
    # every error path points at a null
    for p, _locs in errs:
        if p is None or _walk(raw, p) is not None:
            out.append(("error-path-not-null/%s" % R.describe(ref, p), "[%s %s] error path %r does not point at a null in %s" % (mode, feat, p, dj)))
            break
    return out


def _type_and_list_only(key, alt):
    return key.endswith("#") or alt == "[v,v]"


def features(case):
    heads = sorted({d.split(":")[0] + (":" + d.split(":")[1] if d.startswith("dir:") else "") for d in case.get("devs", [])})
    return "+".join(heads) if heads else "base"


def _witness(name, case, opname, variables, world, mode):
    # "vars" (all choices) lets the replay walk through the earlier assignments on the same parsed
    # document first, exactly as the exploration does: a stale per-document cache needs that history
    return {"schema": name, "doc": case["doc"], "devs": case.get("devs", []), "vars": case.get("vars", {}), "opname": opname, "variables": variables, "world": world, "mode": mode}


def run_document(name, case, st, bounds, opnames=(None,)):
    """all assignments x worlds x modes for one case document -> violations"""
    from py_gql.lang import parse
    from py_gql.validation import validate_ast

    sm = S.SCHEMAS[name]
    doc = case["doc"]
    text, locs = O.render_doc_locs(doc)
    if text != D.render_doc(doc):
        raise AssertionError("renderers disagree on %r" % (doc,))
    feat = features(case)
    out = []
    try:
        ast = parse(text)
        verrs = validate_ast(schema(name), ast).errors
    except Exception as e:  # noqa
        st.n("parse_or_validate_raised")
        st.note("parse/validate raised %s on some generated documents (counted as parse_or_validate_raised; reported by C05)" % type(e).__name__)
        return out
    if verrs:
        st.n("validator_rejects_generated_document")
        st.note("validator rejects some generated documents (counted as validator_rejects_generated_document; reported by C06)")
        return out
    st.n("documents")
    for opname in opnames:
        for variables in O.assignments(case["vars"]):
            ref0 = R.execute(sm, doc, locs, {}, opname, variables)
            if ref0.unsupported:
                st.n("reference_unsupported")
                continue
            exhaustive = ref0.invocations <= bounds["exhaustive_invocations"]
            max_faults = 99 if exhaustive else bounds["faults_beyond"]
            lib0 = None
            seen0 = set()
            alt_filter = None
            if bounds.get("type_and_list_faults_only"):
                # (shared-fragment family, quick) only departures that change which objects exist:
                # the concrete type of an abstract value, a second list item
                alt_filter = _type_and_list_only
            for world, ref in R.enumerate_worlds(sm, doc, locs, opname, variables, max_faults, alt_filter=alt_filter):
                if ref.unsupported:
                    st.n("reference_unsupported")
                    continue
                if st.out_of_time():
                    return out
                st.n("evaluations")
                st.mx("faults", len(world))
                lib = _lib_run("execute-blocking", name, text, ast, opname, variables, world)
                if not world:
                    seen0 = {c for c, _d in compare(ref, lib, "execute-blocking", feat)}
                if ref.invocations and ref.data is not None:
                    st.nt((name, text, sorted(variables.items(), key=repr), sorted(world.items()), opname))
                st.outcome((len(ref.errors), lib[0], bool(ref.data)))
                for cls, detail in compare(ref, lib, "execute-blocking", feat):
                    out.append((cls, _witness(name, case, opname, variables, world, "execute-blocking"), detail + " :: " + text))
                if not world:
                    lib0 = lib
                elif lib[0] == "ok" and lib0 is not None and lib0[0] == "ok":
                    # siblings untouched: outside the faulted positions the data equals the fault-free run
                    if _prune(lib[3], world.keys()) != _prune(lib0[3], world.keys()):
                        out.append((
                            "siblings-disturbed/%s" % R.describe(ref, _pk_path(sorted(world)[0])),
                            _witness(name, case, opname, variables, world, "execute-blocking"),
                            "outside %s the data differs from the fault-free run: %s vs %s :: %s" % (sorted(world), lib[1], lib0[1], text),
                        ))
                if len(out) > 20:
                    return out
            # the other entry points on the fault-free world (only where the main entry point agrees
            # with the reference: a disagreement there is already reported, under its own class)
            if seen0:
                continue
            for mode in ("graphql_blocking", "execute-generic"):
                st.n("evaluations")
                lib = _lib_run(mode, name, text, ast, opname, variables, {})
                for cls, detail in compare(ref0, lib, mode, feat):
                    if cls not in seen0:
                        out.append((cls, _witness(name, case, opname, variables, {}, mode), detail + " :: " + text))
            reft = R.execute(sm, doc, locs, {}, opname, variables, valuekey="field", data_depth=DATA_DEPTH)
            if not reft.unsupported:
                st.n("evaluations")
                lib = _lib_run("default-resolver", name, text, ast, opname, variables, {})
                for cls, detail in compare(reft, lib, "default-resolver", feat):
                    out.append((cls, _witness(name, case, opname, variables, {}, "default-resolver"), detail + " :: " + text))
    return out


def _parsed(name, case):
    from py_gql.lang import parse

    text, locs = O.render_doc_locs(case["doc"])
    return text, locs, parse(text)


def container_docs():
    F, SP = O.F, O.SP
    yield {"doc": O.mkdoc(O.mkop([F("i"), F("n"), F("o", [F("i"), F("s"), F("n"), F("o", [F("s")])]), F("p", [F("s")]), F("lo", [F("s"), F("n")]), F("li"), F("ll")])), "vars": {}, "devs": ["containers"]}
    yield {"doc": O.mkdoc(O.mkop([F("i", alias="x"), F("o", [SP("Fr")]), F("lo", [SP("Fr"), F("s", alias="yy")])]), [["Fr", "Obj", [], [F("s"), F("i")]]]), "vars": {}, "devs": ["containers"]}


def run_containers(st):
    """default_resolver over every container kind of parent values (root, nested objects, list items):
    the data must equal the reference's, which does not depend on the kind"""
    out = []
    sm = S.SCHEMAS["A"]
    for case in container_docs():
        text, locs, ast = _parsed("A", case)
        ref = R.execute(sm, case["doc"], locs, {}, None, {}, valuekey="field", data_depth=DATA_DEPTH)
        for kind in W.CONTAINER_KINDS:
            mode = "default-resolver:" + kind
            st.n("evaluations")
            st.nt(("containers", text, kind))
            lib = _lib_run(mode, "A", text, ast, None, {}, {})
            for cls, detail in compare(ref, lib, mode, "containers"):
                out.append((cls + "/container=" + kind, _witness("A", case, None, {}, {}, mode), detail + " :: " + text))
    return out


METHOD_NAME_PRESENCE = ["present", "missing", "none"]


def _method_bag(kind, presence, pathkey):
    """(container of kind `kind`, expected JSON) for one Bag whose fields are named like dict methods"""
    sm = S.SCHEMAS["M"]
    fields, expected = {}, {}
    for j, (fn, f) in enumerate(S.fields_of(sm, "Bag").items()):
        t = S.parse_type(f["type"])
        named = S.named_of(t)
        pk = "%s/%s" % (pathkey, fn)
        # `plain` is always present; the method-named fields follow the presence mode (rotating so
        # that every field meets every mode in the "mixed" mode)
        mode = presence if presence != "mixed" else METHOD_NAME_PRESENCE[j % 3]
        if fn == "plain":
            mode = "present"
        if mode == "present":
            py = W.py_value(sm, named, pk)
            js = W.json_value(sm, named, pk)
            if t[0] == "list":
                py, js = [py], [js]
            fields[fn] = py
            expected[fn] = js
        else:
            if mode == "none":
                fields[fn] = None
            expected[fn] = None
    return W._wrap_container(kind, "Bag", fields), expected


def run_method_names(st):
    """fields named like methods of the parent container (items, keys, values, get, copy, update, pop):
    present -> the value, missing or None -> null, never an exception; every container kind"""
    from collections import OrderedDict

    out = []
    F = O.F
    names = list(S.fields_of(S.SCHEMAS["M"], "Bag"))
    case = {"doc": O.mkdoc(O.mkop([F("bag", [F(n) for n in names]), F("bags", [F(n) for n in reversed(names)])])), "vars": {}, "devs": ["method-names"]}
    text, locs, ast = _parsed("M", case)
    from py_gql.execution import BlockingExecutor, execute

    for kind in W.CONTAINER_KINDS:
        for presence in METHOD_NAME_PRESENCE + ["mixed"]:
            bag, exp_bag = _method_bag(kind, presence, "bag")
            item, exp_item = _method_bag(kind, presence, "bags/0")
            root = {"bag": bag, "bags": [item]}
            ref = R.Result()
            ref.data = OrderedDict([("bag", OrderedDict((n, exp_bag[n]) for n in names)), ("bags", [OrderedDict((n, exp_item[n]) for n in reversed(names))])])
            st.n("evaluations")
            st.nt(("method-names", kind, presence))
            try:
                r = execute(plain_schema("M"), ast, initial_value=root, executor_cls=BlockingExecutor)
                lib = ("ok", json.dumps(r.data), [(tuple(e.path) if e.path is not None else None, ()) for e in r.errors], r.data)
            except Exception as e:  # noqa
                lib = ("raise", e)
            for cls, detail in compare(ref, lib, "default-resolver:" + kind, "method-names"):
                out.append((cls + "/method-names/container=%s/%s" % (kind, presence), {"k": "method-names", "kind": kind, "presence": presence}, detail + " :: " + text))
    return out


SHARED_ERROR_WORLDS = [
    {"i": "errS", "n": "errS"},
    {"i": "errS", "x": "errS"},
    {"i": "errS", "n": "err", "x": "errS"},
    {"i": "errS", "n": "null", "x": "errS"},
    {"i": "errS", "n": "errS", "x": "errS"},
    {"i": "errS", "o/i": "errS", "y": "errS"},
    {"i": "errS", "n": "err", "x": "errS", "o/s": "err", "y": "errS"},
    {"o/i": "errS", "o/s": "null", "o/n": "errS"},
]


def run_shared_error(st):
    """all faulted fields of one request raise the SAME ResolverError instance (2 and 3 fields, adjacent
    and with a differently failing field in between); oracle as usual"""
    out = []
    sm = S.SCHEMAS["A"]
    F = O.F
    case = {"doc": O.mkdoc(O.mkop([F("i"), F("n"), F("i", alias="x"), F("o", [F("i"), F("s"), F("n")]), F("n", alias="y")])), "vars": {}, "devs": ["shared-error"]}
    text, locs, ast = _parsed("A", case)
    for world in SHARED_ERROR_WORLDS:
        ref = R.execute(sm, case["doc"], locs, world, None, {})
        for mode in ("execute-blocking", "execute-generic", "graphql_blocking"):
            st.n("evaluations")
            st.nt(("shared-error", mode, sorted(world.items())))
            lib = _lib_run(mode, "A", text, ast, None, {}, world)
            for cls, detail in compare(ref, lib, mode, "shared-error"):
                out.append((cls + "/shared-instance", _witness("A", case, None, {}, world, mode), detail + " :: " + text))
    return out


def replay_document(w):
    from py_gql.lang import parse

    name = w["schema"]
    sm = S.SCHEMAS[name]
    doc = w["doc"]
    text, locs = O.render_doc_locs(doc)
    ast = parse(text)
    feat = features(w)
    mode = w["mode"]
    if mode.startswith("default-resolver"):
        ref = R.execute(sm, doc, locs, {}, w["opname"], w["variables"], valuekey="field", data_depth=DATA_DEPTH)
    else:
        ref = R.execute(sm, doc, locs, w["world"], w["opname"], w["variables"])
    # earlier assignments of the same document on the same parsed AST (fault-free world), in the
    # order of the exploration
    for variables in O.assignments(w.get("vars") or {}):
        if variables == w["variables"]:
            break
        _lib_run(mode, name, text, ast, w["opname"], variables, {})
    lib = _lib_run(mode, name, text, ast, w["opname"], w["variables"], w["world"])
    got = compare(ref, lib, mode, feat)
    if "containers" in w.get("devs", []) and ":" in mode:
        got = [(cls + "/container=" + mode.split(":", 1)[1], d) for cls, d in got]
    if "shared-error" in w.get("devs", []):
        got = [(cls + "/shared-instance", d) for cls, d in got]
    if w["world"] and lib[0] == "ok":
        lib0 = _lib_run(mode, name, text, ast, w["opname"], w["variables"], {})
        if lib0[0] == "ok" and _prune(lib[3], w["world"].keys()) != _prune(lib0[3], w["world"].keys()):
            got.append(("siblings-disturbed/%s" % R.describe(ref, _pk_path(sorted(w["world"])[0])), "differs from the fault-free run outside %s" % sorted(w["world"])))
    return got


# ---------------------------------------------------------------------------------------------
# documents with two operations


def multi_op_cases():
    smb = S.SCHEMAS["C"]
    del smb
    frag = ["Shared", "Q", [], [O.F("c")]]
    ops = [
        O.mkop([O.F("c"), O.SP("Shared"), O.F("fl")], name="A"),
        O.mkop([O.F("d"), O.F("echo", args={"i": "$v"})], name="Bee", vars_=[["v", "Int", "3"]]),
    ]
    yield "C", {"doc": O.mkdoc(ops, [frag]), "vars": {}, "devs": ["multi-op"]}, ("A", "Bee")
    ops2 = [
        O.mkop([O.F("inc", args={"by": "2"}), O.F("set", [O.F("v")], args={"v": "1"}), O.F("inc", alias="again")], kind="mutation", name="Mut"),
        O.mkop([O.F("c")], name="Q1"),
    ]
    yield "C", {"doc": O.mkdoc(ops2), "vars": {}, "devs": ["multi-op"]}, ("Mut", "Q1")


# ---------------------------------------------------------------------------------------------
# E2: request histories on one schema object


_SHARED_Q = "query ($f: Boolean!, $n: Int!) { pets { ... on Cat { lives } n name @include(if: $f) } x: echo(r: $n) n li ...Fr @skip(if: $f) } fragment Fr on Q { c }"


def _menu():
    from py_gql.utilities import introspection_query

    return [
        {"q": "{ pet { ... on Dog { barks } name } pets { ... on Walker { legs } } }", "world": {"pets": "[v,v]", "pets/1#": "Cat"}},
        {"q": "{ t { ... on Pet { name } ... on Walker { legs } __typename } w { ... on Pet { n } } }", "world": {"t#": "Fish"}},
        {"q": introspection_query(), "world": {}},
        {"q": "{ nope pet { lives } }", "world": {}},
        {"q": "mutation { inc(by: 2) set(v: 1) { v c } }", "world": {"set/c": "null"}},
        {"q": "query ($l: [Int!]!, $n: Int!, $c: [Color]) { echo(l: $l, r: $n) lc x: echo(e: GREEN, o: {b: [\"x\"]}) y: echo(e: RED) @include(if: true) }", "variables": {"l": [1, 2], "n": 5, "c": ["RED", None]}, "world": {}},
        {"q": "query ($l: [Int!]!, $n: Int!) { echo(l: $l, r: $n) }", "variables": {"l": [1, None], "n": None}, "world": {}},
        # one pre-parsed Document object shared by two menu entries that differ in their variables only
        {"q": _SHARED_Q, "variables": {"f": True, "n": 1}, "world": {"pets": "[v,v]", "pets/0#": "Cat", "pets/1/n": "null", "n": "err", "li": "[v,null]"}, "preparsed": "P"},
        {"q": _SHARED_Q, "variables": {"f": False, "n": 2}, "world": {"pets": "[v,v]", "pets/1#": "Cat"}, "preparsed": "P"},
    ]


_MENU = None
_FRESH = {}
_SHARED_AST = {}


def _menu_request(schema_obj, i):
    from py_gql import graphql_blocking, process_graphql_query
    from py_gql.execution import BlockingExecutor
    from py_gql.lang import parse

    global _MENU
    if _MENU is None:
        _MENU = _menu()
    m = _MENU[i]
    ctx = {"world": m["world"]}
    try:
        if m.get("preparsed"):
            key = m["preparsed"]
            if key not in _SHARED_AST:
                _SHARED_AST[key] = parse(m["q"])
            r = process_graphql_query(schema_obj, _SHARED_AST[key], variables=m.get("variables"), context=ctx, executor_cls=BlockingExecutor)
        else:
            r = graphql_blocking(schema_obj, m["q"], variables=m.get("variables"), context=ctx)
        return json.dumps(r.response())
    except Exception as e:  # noqa
        return "RAISED %s: %s" % (type(e).__name__, e)


def _canon_state(schema_obj):
    pt = sorted(getattr(t, "name", repr(t)) for t in schema_obj._possible_types)
    lt = sorted(type(k).__name__ for k in schema_obj._literal_types_cache)
    kinds = {}
    for k in lt:
        kinds[k] = kinds.get(k, 0) + 1
    return {"possible_types": pt, "literal_types": kinds, "is_valid": schema_obj._is_valid}


def _fresh_response(i):
    if i not in _FRESH:
        sm = S.SCHEMAS["H"]
        _FRESH[i] = _menu_request(S.build(sm, W.make_resolver(sm)), i)
    return _FRESH[i]


def run_history(h, st=None):
    sm = S.SCHEMAS["H"]
    sch = S.build(sm, W.make_resolver(sm))
    out = []
    for step, i in enumerate(h):
        got = _menu_request(sch, i)
        if st is not None:
            st.n("executions")
            st.n("evaluations")
        want = _fresh_response(i)
        if got != want:
            out.append((
                "history-dependent/request=%d" % i,
                "history %s: response to menu request %d at step %d differs from a fresh schema's: %s vs %s" % (h, i, step, got[:300], want[:300]),
            ))
            break
    if st is not None:
        st.n("states")
        st.n("transitions")
        c = _canon_state(sch)
        st.outcome(("state", json.dumps(c, sort_keys=True)))
        st.nt(("history", tuple(h)))
        st.mx("history_depth", len(h))
        if "RAISED" in want:
            st.note("menu request %d raises on a fresh schema: %s" % (h[-1], want[:200]))
    return out


# ---------------------------------------------------------------------------------------------


def selftest():
    R.selftest()
    # both renderers agree and offsets point at the field nodes
    doc = O.mkdoc(O.mkop([O.F("o", [O.F("i", alias="x")]), O.I(None, [O.SP("Fr")])], name="Q", vars_=[["v", "Int", "1"]]), [["Fr", "Query", [], [O.F("n")]]])
    text, locs = O.render_doc_locs(doc)
    assert text == D.render_doc(doc)
    x = doc["ops"][0]["sels"][0][5][0]
    assert text[locs[id(x)] :].startswith("x: i"), text
    n = doc["frags"][0][3][0]
    assert text[locs[id(n)] :].startswith("n }"), text


def check_case(case, st):
    before = st.counters.get("evaluations", 0)
    try:
        return _check_case(case, st)
    finally:
        st.n("evaluations:" + case["k"] + (":n=%d" % case["n"] if "n" in case else ""), st.counters.get("evaluations", 0) - before)


def _check_case(case, st):
    k = case["k"]
    bounds = BOUNDS[case["t"]]
    st.n("kind:" + k)
    if k == "history":
        return [(cls, case, detail) for cls, detail in run_history(case["h"], st)]
    if k == "multi-op":
        out = []
        for name, c, opnames in multi_op_cases():
            out.extend(run_document(name, c, st, bounds, opnames))
        return out
    if k == "containers":
        return run_containers(st) + run_method_names(st)
    if k == "shared-error":
        return run_shared_error(st)
    if k == "operation-name":
        out = []
        for tag, c, names in O.operation_name_docs():
            out.extend(run_document("A", c, st, bounds, tuple(names)))
        return out
    if k == "abstract-args":
        out = []
        ab = dict(bounds, type_and_list_faults_only=True, exhaustive_invocations=0, faults_beyond=3)
        for tag, c in O.abstract_argument_docs():
            out.extend(run_document("D", c, st, ab))
        return out
    if k == "shared-frag":
        out = []
        sf_bounds = dict(bounds, type_and_list_faults_only=(case["t"] == "quick"), exhaustive_invocations=0, faults_beyond=1)
        for tag, c in O.shared_fragment_docs(S.SCHEMAS["D"], case["tc"], [tuple(p) for p in case["parents"]]):
            if st.counters.get("documents", 0) % 1499 == 1:
                st.sample({"schema": "D", "doc": O.render(c["doc"])})
            out.extend(run_document("D", c, st, sf_bounds))
            if len(out) > 40 or st.out_of_time():
                break
        return out
    name = case["schema"]
    sm = S.SCHEMAS[name]
    base = base_case(name, case["root"], case["n"], case["idx"])
    if k == "base":
        if st.counters.get("cases", 0) % 499 == 1:
            st.sample({"schema": name, "doc": O.render(base["doc"])})
        return run_document(name, base, st, bounds)
    out = []
    if k == "dev1":
        for dev in O.deviations(sm, base["doc"]):
            c = O.apply(sm, base, dev)
            if st.counters.get("documents", 0) % 997 == 1:
                st.sample({"schema": name, "doc": O.render(c["doc"]), "vars": c["vars"]})
            out.extend(run_document(name, c, st, bounds))
            if len(out) > 40 or st.out_of_time():
                break
        return out
    if k == "dev2":
        devs = list(O.deviations(sm, base["doc"]))
        d1 = devs[case["d1"]]
        c1 = O.apply(sm, base, d1)
        for dev in O.deviations(sm, c1["doc"], min_pos=d1[1]):
            if dev[0].startswith("arg:") and _key_shared(sm, c1["doc"], dev[1]):
                continue
            if case["t"] == "quick" and d1[0].startswith("dir:") and dev[0].startswith("dir:") and not ("var" in d1[0] and "var" in dev[0]):
                # quick: of the pairs of two directive deviations only those steered by two variables
                # (literal x literal / literal x variable pairs are left to the thorough tier)
                continue
            c2 = O.apply(sm, c1, dev)
            if st.counters.get("documents", 0) % 1999 == 1:
                st.sample({"schema": name, "doc": O.render(c2["doc"]), "vars": c2["vars"]})
            out.extend(run_document(name, c2, st, bounds))
            if len(out) > 40 or st.out_of_time():
                break
        return out
    raise ValueError(k)


def _key_shared(sm, doc, pos):
    """another field node with the same response key exists: changing arguments of one copy only
    would make the document invalid."""
    nodes = O.typed_nodes(sm, doc)
    lst, i, _ = nodes[pos]
    s = lst[i]
    key = O.response_key(s)
    return sum(1 for l2, j, _p in nodes if l2[j][0] == "f" and O.response_key(l2[j]) == key) > 1


_orig_cases = cases


def cases(tier):  # noqa: F811  (every case carries its tier: check_case needs the bounds)
    for c in _orig_cases(tier):
        c["t"] = tier
        yield c


def replay(witness):
    if witness.get("k") == "method-names":
        from mc.runner import Stats

        want = "/method-names/container=%s/%s" % (witness["kind"], witness["presence"])
        return [(cls, d) for cls, _w, d in run_method_names(Stats()) if cls.endswith(want)]
    if witness.get("k") == "history":
        return run_history(witness["h"], None)
    return replay_document(witness)
