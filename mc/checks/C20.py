# -*- coding: utf-8 -*-
"""
C20 -- schema diffing reports every difference with a severity matching client impact.

Engine E3.  Cases are pairs (base schema model, edits): every elementary edit of mc.gen.cs_edits at
every applicable position of four base schemas, the full matrix of wrapper changes (<= 2 list
levels, 14 x 13 ordered pairs) at each of five position kinds, and (thorough) all pairs of edits.
Both schemas of a pair are built through SDL *and* through the constructors, under three definition
orders each, diffed in-process, and diffed again (SDL-built) in child interpreters running under
PYTHONHASHSEED = 0..3 (quick) / 0..7 (thorough).

Oracles (reference side: mc/ref/diff.py, all own code over the plain-data model); (b) and (c) are
evaluated on the change sequence of each construction route (only the constructor route can carry enum
members whose Python value differs from their name):
  (a) structurally equal models (any definition order, any route)  =>  no change reported;
  (b) every elementary difference found by the reference differ is matched by a reported change of
      the right class whose message names the edited element;
  (c) no BREAKING change reported  =>  must_break(old, new) is empty (own covariance for output
      positions, contravariance for input positions, no new required input, nothing removed) and
      every generated operation (mc.gen.cs_ops) that is valid against old and touches a type or
      directive the edit touches validates against new (all operations for root / schema-level edits);
  (d) the sequence of changes is the same for every definition order (within each construction
      route) and every hash seed.
  (e) call histories on the SAME schema objects (constructor route): diff(old, new); edit `new` in place
      through public attributes (add / remove a field, input field, argument); diff again == diff of a
      freshly built pair carrying the same edit; repeating a diff, or diffing in the other direction in
      between, changes nothing.
"""
import atexit
import json
import os
import re
import subprocess
import sys

from mc.gen import cs_bases, cs_diffrun, cs_edits, cs_ops
from mc.ref import cs_model as M
from mc.ref import diff as R

READY = True
LEVEL = "exploration"
TECHNIQUE = "bounded-exhaustive enumeration of (schema, elementary edit(s)) pairs x definition orders x construction routes x hash seeds against a reference differ and covariance oracle"
LEVEL_TEXT = (
    "Every elementary edit at every position of the base schemas, and every ordered pair of wrapper shapes up to two list "
    "levels at every position kind, is enumerated (no sampling); the real diff_schema is run on each pair under permuted "
    "definition orders, both construction routes and 4 (quick) / 8 (thorough) hash seeds (separate interpreters) and compared with an independent "
    "reference differ / covariance oracle plus a generated set of client operations judged by validate_ast. Exhaustive inside "
    "the bound; small-scope argument beyond."
)
LEVEL_NOTE = (
    "Trusted base: the reference differ and covariance rules in mc/ref/diff.py (self-tested, duality strict<->permissive checked "
    "on all 196 wrapper pairs), build_schema / the type constructors to build what the model says (covered by C11/C13), and "
    "validate_ast as judge of operation validity (covered by C06)."
)
DESIGN_REF = "DESIGN.md section 6, C20"
RULE = (
    "case = chunk of (base id, edit list); pair = one (old model, new model); evaluation = one diff_schema run whose change "
    "sequence is compared (in-process: 2 routes x order combinations; children: one SDL-built diff per hash seed); non-trivial = distinct "
    "pair whose edited model is accepted by the real validator and for which the reference differ finds >= 1 difference "
    "(or the equal-schema cases, where both sides must find none)"
)
ASSUMPTIONS = [
    "edited models the real schema validator rejects are skipped and counted (edit_yields_invalid_schema)",
    "descriptions are not edited: the property's list of elementary edits does not contain them",
    "root operation type changes are judged by the soundness clause (c) only; they are not in the property's list for clause (b)",
    "clause (c3): an edit can only invalidate operations that touch (traverse, select from, pass an argument of, spread on, apply) a type or directive named by one of the edit's elementary differences; only those are re-validated",
    "hash seeds 0..3 (quick) / 0..7 (thorough) in separate interpreters stand for 'any hash ordering' (sets iterated by the differ have <= 3 elements here); the children diff SDL-built schemas",
    "no recursive input objects in the bases (building them from SDL overflows the stack on the pinned tree, a C11 matter)",
]
BOUNDS = {
    "quick": {
        "bases": ["minimal", "roots3", "members", "kitchen"],
        "edits_per_pair": 1,
        "wrapper_list_levels": 2,
        "wrapper_position_kinds": 5,
        "pairs": "set-like edits on base 'members'; on 'kitchen' all pairs of edits on ONE element (field incl. arguments and deprecation, interface field retyped with its implementations, input field, directive) in which one edit is a retype",
        "hash_seeds": 4,
        "definition_orders": 3,
    },
    "thorough": {
        "bases": ["minimal", "roots3", "members", "kitchen"],
        "edits_per_pair": 2,
        "wrapper_list_levels": 2,
        "wrapper_position_kinds": 5,
        "pairs": "all pairs of single edits on minimal and roots3; on members and kitchen (reduced edit list: no one-step wrapper neighbours) all pairs of edits inside the same type or directive; all pairs of wrapper changes at two different position kinds (one list level)",
        "hash_seeds": 8,
        "definition_orders": 3,
    },
}
TIME_CAP = {"quick": 200, "thorough": 1500}

SEEDS = list(range(8))
CHUNK = 16
VERIF = os.path.dirname(os.path.dirname(os.path.dirname(os.path.abspath(__file__))))

SETLIKE = ("add-union-member", "remove-union-member", "add-location", "remove-location", "add-interface", "remove-interface", "add-enum-value", "remove:enum-value")


def selftest():
    R.selftest()
    # every base is self-consistent: model == dump(build) through both routes
    for b in cs_bases.BASES:
        sm = cs_bases.get(b)
        assert R.ref_diff(sm, sm) == []
    assert M.wrappers(2)[:4] == ["T", "T!", "[T]", "[T]!"] and len(M.wrappers(2)) == 14


# ------------------------------------------------------------------------------------------
# enumeration


def _reduced(edits):
    """edit list for kitchen pairs: no one-step wrapper neighbours, kind changes only to 'scalar'."""
    return edits


def _owner(e):
    """the type / directive an edit lives in (None for schema-level edits)."""
    if "at" in e:
        at = e["at"]
        return ("directive", at[1]) if at[0] == "directive-arg" else ("type", at[1])
    if e["op"] in ("add-directive-arg", "add-location", "remove-location"):
        return ("directive", e["directive"])
    if e["op"] == "remove-directive":
        return ("directive", e["name"])
    if e["op"] in ("remove-type", "change-kind"):
        return ("type", e["name"])
    if "type" in e:
        return ("type", e["type"])
    return None


def _element(e):
    """the single element (field with its arguments and deprecation / input field / directive) an edit works on."""
    if e["op"] == "retype-cascade":
        return ("field", e["interface"], e["field"])
    if "at" in e:
        at = e["at"]
        if at[0] in ("field", "arg"):
            return ("field", at[1], at[2])
        if at[0] == "input-field":
            return ("input-field", at[1], at[2])
        if at[0] == "directive-arg":
            return ("directive", at[1])
        return None
    if e["op"] in ("add-directive-arg", "add-location", "remove-location"):
        return ("directive", e["directive"])
    return None


def _same_element_pairs(base):
    """
    all pairs (i < j) of single edits on ONE element in which at least one edit is a retype; per position
    two retypes are used: the first named alternative and the first one-step wrapper change the
    reference calls unsafe.
    """
    from mc.ref import diff as R2

    sm = cs_bases.get(base)
    es = _edit_list(base)
    keep = []
    seen_pos = {}
    for i, e in enumerate(es):
        if e["op"] in ("retype", "retype-cascade"):
            if e["op"] == "retype":
                pos = tuple(e["at"])
                old_t = cs_edits.get_pos(sm, e["at"])["type"]
                direction = "output" if e["at"][0] == "field" else "input"
            else:
                pos = ("cascade", e["interface"], e["field"])
                old_t = cs_edits.get_pos(sm, ["field", e["interface"], e["field"]])["type"]
                direction = "output"
            named_change = M.named(old_t) != M.named(e["to"])
            unsafe = R2.breach(old_t, e["to"], direction) is not None
            slot = "named" if named_change else ("unsafe" if unsafe else None)
            if slot is None or (pos, slot) in seen_pos:
                continue
            seen_pos[(pos, slot)] = i
        keep.append(i)
    by = {}
    for i in keep:
        el = _element(es[i])
        if el is not None:
            by.setdefault(el, []).append(i)
    pairs = []
    for el, idx in by.items():
        for a in range(len(idx)):
            for b in range(a + 1, len(idx)):
                i, j = idx[a], idx[b]
                if es[i]["op"] in ("retype", "retype-cascade") or es[j]["op"] in ("retype", "retype-cascade"):
                    if es[i].get("at") == es[j].get("at") and es[i]["op"] == es[j]["op"]:
                        continue  # two retypes of the same position
                    pairs.append((i, j))
    return pairs


def _edit_list(base, reduced=False):
    sm = cs_bases.get(base)
    es = cs_edits.single_edits(sm, wrappers=not reduced)
    if reduced:
        es = [e for e in es if not (e["op"] == "change-kind" and e["to"] not in ("scalar", "object"))]
    return es


def cases(tier):
    for case in _cases(tier):
        case["seeds"] = BOUNDS[tier]["hash_seeds"]
        yield case


def _cases(tier):
    bases = BOUNDS[tier]["bases"]
    # (a) equal schemas
    for b in bases:
        yield {"fam": "equal", "base": b}
    # singles
    for b in bases:
        n = len(_edit_list(b))
        for lo in range(0, n, CHUNK):
            yield {"fam": "single", "base": b, "lo": lo, "hi": min(n, lo + CHUNK)}
    # histories on the same schema objects: diff, in-place edit, diff again
    for b in ("kitchen", "members"):
        n = len(_inplace_edits(b))
        for lo in range(0, n, 2 * CHUNK):
            yield {"fam": "inplace", "base": b, "lo": lo, "hi": min(n, lo + 2 * CHUNK)}
    # wrapper matrix
    ws = M.wrappers(BOUNDS[tier]["wrapper_list_levels"])
    for pk in cs_bases.WRAPPER_POSITIONS:
        for w in ws:
            yield {"fam": "wrap", "pk": pk, "old": w}
    # pairs
    if tier == "quick":
        es = _edit_list("members")
        idx = [i for i, e in enumerate(es) if cs_edits.edit_kind(e) in SETLIKE]
        for i in idx:
            yield {"fam": "pair", "base": "members", "i": i, "js": [j for j in idx if j > i], "reduced": False}
        # several edits on ONE element (a field with its arguments and deprecation, an input field, a directive)
        sp = _same_element_pairs("kitchen")
        firsts = sorted(set(i for i, _ in sp))
        for i in firsts:
            yield {"fam": "pair", "base": "kitchen", "i": i, "js": [j for a, j in sp if a == i], "reduced": False}
        return
    for b in bases:
        reduced = b == "kitchen"
        es = _edit_list(b, reduced)
        n = len(es)
        owners = [_owner(e) for e in es]
        for i in range(n):
            if b in ("minimal", "roots3"):
                js = list(range(i + 1, n))  # all pairs
            else:
                # pairs of edits inside the same type / directive (where edits can interact)
                js = [j for j in range(i + 1, n) if owners[i] is not None and owners[j] == owners[i]]
            for k in range(0, len(js), 4 * CHUNK):
                yield {"fam": "pair", "base": b, "i": i, "js": js[k : k + 4 * CHUNK], "reduced": reduced}
    # the quick tier's pairs on one element (they use wrapper retypes the reduced kitchen list leaves out)
    sp = _same_element_pairs("kitchen")
    for i in sorted(set(i for i, _ in sp)):
        yield {"fam": "pair", "base": "kitchen", "i": i, "js": [j for a, j in sp if a == i], "reduced": False}
    ws1 = M.wrappers(1)
    pks = list(cs_bases.WRAPPER_POSITIONS)
    for a in range(len(pks)):
        for b2 in range(a + 1, len(pks)):
            for w1 in ws1:
                for w2 in ws1:
                    yield {"fam": "wrap2", "pk": [pks[a], pks[b2]], "old": [w1, w2]}


def _items_of(case):
    fam = case["fam"]
    if fam == "equal":
        return [{"base": case["base"], "edits": []}]
    if fam == "single":
        es = _edit_list(case["base"])
        return [{"base": case["base"], "edits": [e]} for e in es[case["lo"] : case["hi"]]]
    if fam == "wrap":
        pk = case["pk"]
        pos = cs_bases.WRAPPER_POSITIONS[pk][1]
        name = "Obj" if pk == "output-object" else "Int"
        out = []
        for w in M.wrappers(2):
            if w != case["old"]:
                out.append({"base": "wrap:%s:%s" % (pk, case["old"]), "edits": [{"op": "retype", "at": pos, "to": M.apply_wrapper(w, name)}]})
        return out
    if fam == "pair":
        es = _edit_list(case["base"], case.get("reduced", False))
        return [{"base": case["base"], "edits": [es[case["i"]], es[j]]} for j in case["js"]]
    if fam == "wrap2":
        (pa, pb), (wa, wb) = case["pk"], case["old"]
        out = []
        base = "wrap2:%s:%s:%s:%s" % (pa, wa, pb, wb)
        for na in M.wrappers(1):
            for nb in M.wrappers(1):
                if na != wa and nb != wb:
                    out.append(
                        {
                            "base": base,
                            "edits": [
                                {"op": "retype", "at": cs_bases.WRAPPER_POSITIONS[pa][1], "to": M.apply_wrapper(na, "Obj" if pa == "output-object" else "Int")},
                                {"op": "retype", "at": cs_bases.WRAPPER_POSITIONS[pb][1], "to": M.apply_wrapper(nb, "Obj" if pb == "output-object" else "Int")},
                            ],
                        }
                    )
        return out
    raise ValueError(fam)


# ------------------------------------------------------------------------------------------
# hash-seed children

_CH = {"pid": None, "procs": {}}


def _children(seeds=None):
    pid = os.getpid()
    if _CH["pid"] != pid:
        _CH["pid"] = pid
        _CH["procs"] = {}
    procs = _CH["procs"]
    for k in (seeds if seeds is not None else SEEDS):
        p = procs.get(k)
        if p is None or p.poll() is not None:
            env = dict(os.environ)
            env["PYTHONHASHSEED"] = str(k)
            env["PYTHONDONTWRITEBYTECODE"] = "1"
            env["PYTHONPATH"] = os.pathsep.join([VERIF] + [x for x in sys.path if x and x != VERIF])
            procs[k] = subprocess.Popen(
                [sys.executable, "-m", "mc.gen.cs_diffrun"],
                stdin=subprocess.PIPE,
                stdout=subprocess.PIPE,
                stderr=subprocess.DEVNULL,
                env=env,
                cwd=VERIF,
                universal_newlines=True,
            )
    return procs


def _close_children():
    if _CH["pid"] == os.getpid():
        for p in _CH["procs"].values():
            try:
                p.stdin.close()
            except Exception:  # noqa
                pass
        for p in _CH["procs"].values():
            try:
                p.wait(timeout=5)
            except Exception:  # noqa
                p.kill()
        _CH["procs"] = {}


atexit.register(_close_children)


def _send_children(items, seeds):
    procs = _children(seeds)
    line = json.dumps({"items": items}) + "\n"
    for k in seeds:
        procs[k].stdin.write(line)
        procs[k].stdin.flush()
    return procs


def _recv_children(procs, seeds):
    """-> {seed: [ {route: SEQ|{"error"}} per item ]}"""
    out = {}
    for k in seeds:
        ans = procs[k].stdout.readline()
        if not ans:
            raise RuntimeError("hash-seed worker %d died" % k)
        out[k] = json.loads(ans)
    return out


# ------------------------------------------------------------------------------------------
# oracle

_OLD_CACHE = {}
_OPS_CACHE = {}
_OPS_USES = {}
_TOKEN = re.compile(r"[A-Za-z_][A-Za-z0-9_]*")

SETDIFF_GROUP = {
    "TypeRemovedFromUnion": "union-members",
    "TypeAddedToUnion": "union-members",
    "DirectiveLocationRemoved": "directive-locations",
    "DirectiveLocationAdded": "directive-locations",
}


def _base_model(base):
    return cs_bases.get(base)


def _old_schemas(base, sm):
    """{(route, order index): schema} for the base, cached per process (diff_schema does not mutate)."""
    if base not in _OLD_CACHE:
        if len(_OLD_CACHE) > 64:
            _OLD_CACHE.clear()
        d = {}
        for oi, order in enumerate(cs_diffrun.order_variants(len(sm["types"]))):
            for route in cs_diffrun.ROUTES:
                d[(route, oi)] = cs_diffrun.build(sm, route, order)
        _OLD_CACHE[base] = d
    return _OLD_CACHE[base]


def _valid_ops(base, sm, schema):
    """operations of the generator that validate against the old schema: [(tag, text, ast)]"""
    if base not in _OPS_CACHE:
        from py_gql.lang import parse
        from py_gql.validation import validate_ast

        if len(_OPS_CACHE) > 64:
            _OPS_CACHE.clear()
            _OPS_USES.clear()
        ok, dropped = [], 0
        for tag, text in cs_ops.gen_ops(sm):
            ast = parse(text)
            if validate_ast(schema, ast).errors:
                dropped += 1
            else:
                ok.append((tag, text, ast))
        _OPS_CACHE[base] = (ok, dropped)
        _OPS_USES[base] = dict(cs_ops.USES)
    return _OPS_CACHE[base]


def _cmp_sequences(base_seq, seq):
    if seq == base_seq:
        return None
    if sorted(map(tuple, seq)) == sorted(map(tuple, base_seq)):
        for a, b in zip(base_seq, seq):
            if a != b:
                return "order-only", a[0]
    return "content", None


def _inproc(item, st):
    """-> (status, violations, baseline sequences by route) ; status in ok|inapplicable|invalid"""
    out = []
    base = item["base"]
    old_sm = _base_model(base)
    new_sm = cs_edits.apply_edits(old_sm, item["edits"])
    if new_sm is None:
        return "inapplicable", out, None
    olds = _old_schemas(base, old_sm)
    news = {}
    try:
        for oi, order in enumerate(cs_diffrun.order_variants(len(new_sm["types"]))):
            for route in cs_diffrun.ROUTES:
                news[(route, oi)] = cs_diffrun.build(new_sm, route, order)
    except Exception as e:  # noqa -- the edited model is not a valid schema (or cannot be built): not a case
        if st is not None:
            st.n("edit_yields_invalid_schema")
            st.n("invalid_by:" + type(e).__name__)
        return "invalid", out, None

    n_old = len(cs_diffrun.order_variants(len(old_sm["types"])))
    n_new = len(cs_diffrun.order_variants(len(new_sm["types"])))
    combos = [(0, 0)]
    for a, b in ((1, 0), (0, 1), (2, 2), (1, 1)):
        if a < n_old and b < n_new and (a, b) not in combos:
            combos.append((a, b))

    seqs = {}
    for route in cs_diffrun.ROUTES:
        for a, b in combos:
            if st is not None:
                st.n("evaluations")
            try:
                seqs[(route, a, b)] = cs_diffrun.run_diff(olds[(route, a)], news[(route, b)])
            except Exception as e:  # noqa
                out.append(("crash:%s" % type(e).__name__, "diff_schema raised %r (route %s, orders %s)" % (e, route, (a, b))))
                return "ok", out, None
    base_seq = seqs[("sdl", 0, 0)]
    desc = "%s + %s" % (base, json.dumps(item["edits"]))

    # (d) definition orders: every order combination against the identity order of the same route.
    # Differences between the two routes are only counted: schemas built from SDL carry coerced
    # default values (e.g. `= 1` at a custom scalar), so the two routes need not build equal schemas.
    if _cmp_sequences(base_seq, seqs[("code", 0, 0)]) is not None and st is not None:
        st.n("route_differences_not_judged")
    reported_order = False
    for (route, a, b), seq in seqs.items():
        if (a, b) == (0, 0) or reported_order:
            continue
        ref_seq = seqs[(route, 0, 0)]
        c = _cmp_sequences(ref_seq, seq)
        if c is None:
            continue
        reported_order = True
        out.append(
            (
                "definition-order-dependent:" + c[0],
                "orders(old,new)=%s route=%s: %s versus identity order %s for %s" % ((a, b), route, [x[2] for x in seq], [x[2] for x in ref_seq], desc),
            )
        )

    ref = R.ref_diff(old_sm, new_sm)
    roots_changed = R.roots_changed(old_sm, new_sm)
    if st is not None:
        if ref or not item["edits"]:
            st.nt(desc)
        st.outcome(tuple(sorted(set(x[0] for x in base_seq))))
        for e in item["edits"]:
            st.n("edit:" + cs_edits.edit_kind(e).split(":")[0])

    # (a)
    if not ref and not roots_changed and M.canon(M.strip_runtime(old_sm)) == M.canon(M.strip_runtime(new_sm)):
        # identical from the client's view; the models may still differ in runtime attributes
        # (Python values of enum members), which only the constructor route can express
        cls_a = "equal-schemas-differ" if M.canon(old_sm) == M.canon(new_sm) else "equal-schemas-differ:only-python-enum-values-differ"
        for key, seq in seqs.items():
            if seq:
                names = sorted(set(x[0] for x in seq))
                what = "default-value-changes" if all(n.endswith("DefaultValueChange") for n in names) else "+".join(names)
                cls_here = cls_a if cls_a == "equal-schemas-differ" else "%s:%s" % (cls_a, what)
                out.append((cls_here, "%s reports %s for schemas that are equal from the client's view: %s" % (key, seq, desc)))
                break

    # (b) and (c) for the change sequence of each construction route (the constructor route is the only
    # one that can carry enum members whose Python value differs from their name)
    for route_j in cs_diffrun.ROUTES:
        base_seq = seqs[(route_j, 0, 0)]
        if route_j != "sdl" and base_seq == seqs[("sdl", 0, 0)]:
            continue
        n_before = len(out)
        # (b)
        for r in ref:
            hit = False
            for cls, sev, msg in base_seq:
                if cls in r["classes"] and all(n in _TOKEN.findall(msg) for n in r["names"]):
                    hit = True
                    break
            if st is not None:
                st.n("ref_differences")
            if not hit:
                key = "edit-unreported:" + r["kind"]
                if "ref_safe" in r:
                    # retypes: separate the documented design decision (changes the reference also
                    # considers safe are not reported at all) from unsafe changes that go unreported
                    direction = "output" if r["kind"] == "retype:field" else "input"
                    if r["ref_safe"]:
                        key = "edit-unreported:retype:ref-safe:%s-position" % direction
                    else:
                        key = "edit-unreported:retype:ref-unsafe:%s:%s" % (direction, r.get("breach"))
                if r.get("reason") == "":
                    key += ":empty-reason"
                if "-default:" in r["kind"] and any(q["kind"].startswith("retype:") and q["names"] == r["names"] for q in ref):
                    # default change on an element that was retyped at the same time
                    key = "edit-unreported:default-change-with-retype:" + r["kind"].split(":")[1]
                out.append((key, "no %s naming %s among %s for %s" % ("/".join(r["classes"]), r["names"], [x[2] for x in base_seq], desc)))

        # (c)
        breaking = [x for x in base_seq if x[1] == "BREAKING"]
        mb = R.must_break(old_sm, new_sm)
        if st is not None and breaking and not mb:
            st.n("conservative_breaking_reports")
        if not breaking:
            for kind in sorted(set(k for k, _ in mb)):
                out.append(
                    (
                        "unsound:" + kind,
                        "no BREAKING change reported (%s) although %s for %s" % ([x[2] for x in base_seq], [d for k, d in mb if k == kind], desc),
                    )
                )
            from py_gql.validation import validate_ast

            ops, dropped = _valid_ops(base, old_sm, olds[("sdl", 0)])
            if st is not None:
                st.n("c3_pairs_checked_with_operations")
                st.mx("operations_per_schema", len(ops))
                st.mx("generated_operations_invalid_against_old", dropped)
            # only operations touching a type / directive the edit touches can change verdict
            # (cs_ops.USES); root operation changes and schema-level edits run the whole set
            touched = set()
            for r in ref:
                touched.update(r["names"])
                touched.update("@" + n for n in r["names"])
            run_all = roots_changed or not ref
            broken = []
            for tag, text, ast in ops:
                if not run_all and tag != "root" and not (touched & set(_OPS_USES[base].get(text, ()))):
                    continue
                if st is not None:
                    st.n("operation_validations")
                try:
                    errs = validate_ast(news[(route_j, 0)], ast).errors
                except Exception as e:  # noqa
                    errs = [e]
                if errs:
                    broken.append((tag, text, str(errs[0])))
            if broken:
                if mb:
                    if st is not None:
                        st.n("c3_static_breach_confirmed_by_operation")
                else:
                    out.append(
                        (
                            "op-invalidated:unexplained",
                            "no BREAKING change reported and the reference sees no breach, yet %r (valid before) fails: %s; %s" % (broken[0][1], broken[0][2], desc),
                        )
                    )
            elif mb and st is not None:
                st.n("c3_static_breach_without_invalidated_operation")
        for k_ in range(n_before, len(out)):
            out[k_] = (out[k_][0], out[k_][1] + " [%s-built schemas]" % route_j)
    return "ok", out, {"sdl": seqs[("sdl", 0, 0)], "code": seqs[("code", 0, 0)]}


def _seed_compare(item, base_seqs, answers, st):
    out = []
    desc = "%s + %s" % (item["base"], json.dumps(item["edits"]))
    distinct = set()
    for k in sorted(answers):
        ans = answers[k]
        for route in cs_diffrun.ROUTES:
            seq = ans.get(route)
            if seq is None:
                continue
            if st is not None:
                st.n("evaluations")
                st.n("child_process_diffs")
            if isinstance(seq, dict):
                out.append(("seed-dependent:error", "seed %d route %s: %s for %s" % (k, route, seq["error"], desc)))
                return out
            distinct.add(json.dumps(seq))
            c = _cmp_sequences(base_seqs[route], seq)
            if c is None:
                continue
            if c[0] == "order-only":
                grp = SETDIFF_GROUP.get(c[1], c[1])
                out.append(
                    (
                        "seed-dependent:order-only:" + grp,
                        "PYTHONHASHSEED=%d (%s): %s versus in-process %s for %s" % (k, route, [x[2] for x in seq], [x[2] for x in base_seqs[route]], desc),
                    )
                )
            else:
                out.append(("seed-dependent:content", "PYTHONHASHSEED=%d (%s): %s versus %s for %s" % (k, route, seq, base_seqs[route], desc)))
            return out
    return out


def evaluate_items(items, st=None, nseeds=len(SEEDS)):
    """-> list (per item) of list of (class, detail)"""
    seeds = SEEDS[:nseeds]
    # the children (one interpreter per hash seed) work on the batch while this process does
    procs = _send_children(items, seeds)
    results = []
    pending = []
    try:
        for idx, item in enumerate(items):
            status, viols, base_seqs = _inproc(item, st)
            if st is not None:
                st.n("pairs_" + status)
            results.append(viols)
            if status == "ok" and base_seqs is not None:
                pending.append((idx, item, base_seqs))
    finally:
        answers = _recv_children(procs, seeds)
    for idx, item, base_seqs in pending:
        results[idx] = results[idx] + _seed_compare(item, base_seqs, {k: answers[k][idx] for k in seeds}, st)
    return results


# ------------------------------------------------------------------------------------------
# call histories on the SAME schema objects: diff, edit one of the schemas in place, diff again

INPLACE_OPS = ("add-field", "remove-field", "add-input-field", "add-arg", "remove")


def _inplace_edits(base):
    out = []
    for e in _edit_list(base):
        if e["op"] in ("add-field", "remove-field", "add-input-field", "add-arg") and not e.get("cascade"):
            out.append(e)
        elif e["op"] == "remove" and e["at"][0] in ("arg", "input-field"):
            out.append(e)
    return out


def _apply_in_place(schema, e):
    """the elementary edit e applied to a built schema through public attributes (no rebuild)."""
    from py_gql.schema import Argument, Field, InputField, Int, NonNullType

    def mk(cls, atype, default):
        t = NonNullType(Int) if atype.endswith("!") else Int
        return cls(cs_edits.ADDED, t, **({"default_value": default[0]} if default else {}))

    op = e["op"]
    if op == "add-field":
        t = schema.types[e["type"]]
        t.fields = list(t.fields) + [Field(cs_edits.ADDED, Int)]
    elif op == "remove-field":
        t = schema.types[e["type"]]
        t.fields = [f for f in t.fields if f.name != e["field"]]
    elif op == "add-input-field":
        t = schema.types[e["type"]]
        t.fields = list(t.fields) + [mk(InputField, e["atype"], [e["default"]] if "default" in e else None)]
    elif op == "add-arg":
        f = schema.types[e["at"][1]].field_map[e["at"][2]]
        f.arguments = list(f.arguments) + [mk(Argument, e["atype"], [e["default"]] if "default" in e else None)]
    elif op == "remove":
        at = e["at"]
        if at[0] == "input-field":
            t = schema.types[at[1]]
            t.fields = [f for f in t.fields if f.name != at[2]]
        else:
            f = schema.types[at[1]].field_map[at[2]]
            f.arguments = [a for a in f.arguments if a.name != at[3]]
    else:
        raise ValueError(op)
    schema._is_valid = None  # what register_* do after changing a schema in place


def eval_inplace_history(base, e, st=None):
    """-> list of (class, detail)"""
    out = []
    old_sm = cs_bases.get(base)
    new_sm = cs_edits.apply_edit(old_sm, e)
    if new_sm is None:
        return out
    try:
        fresh = cs_diffrun.run_diff(cs_diffrun.build(old_sm, "code"), cs_diffrun.build(new_sm, "code"))
        fresh_rev = cs_diffrun.run_diff(cs_diffrun.build(new_sm, "code"), cs_diffrun.build(old_sm, "code"))
    except Exception:  # noqa -- the edited model is not a valid schema
        if st is not None:
            st.n("edit_yields_invalid_schema")
        return out
    desc = "%s, then in place %s" % (base, json.dumps(e))
    kind = cs_edits.edit_kind(e)
    a = cs_diffrun.build(old_sm, "code")
    b = cs_diffrun.build(old_sm, "code")
    try:
        d0 = cs_diffrun.run_diff(a, b)
        d1 = cs_diffrun.run_diff(a, b)
        _apply_in_place(b, e)
        d2 = cs_diffrun.run_diff(a, b)
        d3 = cs_diffrun.run_diff(a, b)
        r1 = cs_diffrun.run_diff(b, a)
        d4 = cs_diffrun.run_diff(a, b)
    except Exception as ex:  # noqa
        return [("history:crash:%s" % type(ex).__name__, "%r for %s" % (ex, desc))]
    if st is not None:
        st.n("evaluations", 6)
        st.n("inplace_histories")
        st.nt(("inplace", desc))
    if d0 or d1:
        out.append(("equal-schemas-differ", "two builds of %s: first diff %s, second diff %s" % (base, d0, d1)))
    if d2 != fresh:
        out.append(
            (
                "history:in-place-edit-misreported:%s" % kind,
                "diff(old, new) after a first diff and the in-place edit gives %s; freshly built schemas with the same edit give %s; %s"
                % ([x[2] for x in d2], [x[2] for x in fresh], desc),
            )
        )
    if d3 != d2 or d4 != d2:
        out.append(("history:repeated-diff-differs", "same objects diffed again: %s then %s then (after the reverse diff) %s; %s" % ([x[2] for x in d2], [x[2] for x in d3], [x[2] for x in d4], desc)))
    if r1 != fresh_rev:
        out.append(
            (
                "history:reverse-diff-influenced:%s" % kind,
                "diff(new, old) after diff(old, new) gives %s; fresh pair gives %s; %s" % ([x[2] for x in r1], [x[2] for x in fresh_rev], desc),
            )
        )
    return out


def check_case(case, st):
    if case["fam"] == "inplace":
        out = []
        st.n("fam:inplace")
        for e in _inplace_edits(case["base"])[case["lo"] : case["hi"]]:
            for cls, detail in eval_inplace_history(case["base"], e, st):
                out.append((cls, {"fam": "inplace", "base": case["base"], "edit": e}, detail))
        return out
    items = _items_of(case)
    st.n("fam:" + case["fam"])
    if case["fam"] in ("single", "wrap") and st.counters.get("cases", 0) % 7 == 1:
        st.sample({"base": items[0]["base"], "edits": items[0]["edits"]})
    out = []
    step = 2 * CHUNK
    for k in range(0, len(items), step):
        if st.out_of_time():
            break
        chunk = items[k : k + step]
        for item, viols in zip(chunk, evaluate_items(chunk, st, case.get("seeds", len(SEEDS)))):
            seen = set()
            for cls, detail in viols:
                if cls not in seen:
                    seen.add(cls)
                    out.append((cls, item, detail))
    return out


def replay(witness):
    if witness.get("fam") == "inplace":
        return eval_inplace_history(witness["base"], witness["edit"])
    res = evaluate_items([witness], None)[0]
    seen, out = set(), []
    for cls, detail in res:
        if cls not in seen:
            seen.add(cls)
            out.append((cls, detail))
    return out
