# -*- coding: utf-8 -*-
"""
C16 -- instrumentation and middlewares see every field exactly once, properly nested.

Engine E1: for every request outcome (syntax error, validation error, unknown / ambiguous operation,
variable coercion error, success, partial failures, pre-parsed document), every configuration and --
under the asyncio and thread-pool runtimes -- EVERY completion order of the pending resolver results
(+ early completions up to the bound), with stacks of 1-3 recording instrumentations (flat and nested
MultiInstrumentation, ApolloTracer as a member) and 0-3 recording middlewares, a monitor is evaluated
on the event log of each execution.
"""
import json

from mc.explore import HarnessError

READY = True
LEVEL = "model_checking"
TECHNIQUE = "stateless exhaustive exploration of completion orders of the real executor (virtual asyncio loop, controlled pool) with a trace monitor for hook pairing/nesting, per-field exactly-once and middleware nesting"
LEVEL_TEXT = (
    "Every completion order (plus early completions up to the bound) of each bounded request is executed on the real "
    "process_graphql_query / Executor under every runtime; the hook/middleware event log of each execution is checked "
    "against the bracket language of the property by a monitor."
)
LEVEL_NOTE = "Schedulers as for C08 (task-granular). Hooks are observed through recording Instrumentation subclasses and function middlewares; timestamps of tracers are not compared."
DESIGN_REF = "DESIGN.md section 6, C16"
RULE = (
    "case = (request outcome, instrumentation stack 1..3 flat/nested/with ApolloTracer, middleware stack 0..3); per case every "
    "configuration and every completion order; evaluation = one execution checked by the monitor; non-trivial = distinct "
    "(case, config, schedule) in which at least one field was resolved"
)
ASSUMPTIONS = [
    "unexpected (non-ResolverError) resolver exceptions are outside this property (they abort the request; see C08)",
    "documented middleware nesting = apply_middlewares doctest: the last listed middleware is outermost",
]
BOUNDS = {"quick": {"early_bound": 1, "free_order_upto": 4, "stacks": "instr 1,2,3n x mw 0,2 (+tracer)", "subscriptions": "3 selections x 1..3 events x deferred/immediate source, every failure set"}, "thorough": {"early_bound": 2, "free_order_upto": 5, "stacks": "instr 1,2,3,3n x mw 0,1,2,3 (+tracer)", "subscriptions": "3 selections x 1..3 events x deferred/immediate source, every failure set"}}
TIME_CAP = {"quick": 120, "thorough": 1500}

REQUESTS = [
    # name, scenario fields, expected stages
    ("syntax-error", {"query": "{ a "}, ["query", "parsing"]),
    ("syntax-error-lex", {"query": "{ a(x: \"\\u12\") }"}, ["query", "parsing"]),
    ("validation-error", {"query": "{ nope }"}, ["query", "parsing", "validation"]),
    ("unknown-operation", {"query": "query A { a } query B { b }", "operation_name": "C"}, ["query", "parsing", "validation"]),
    ("ambiguous-operation", {"query": "query A { a } query B { b }"}, ["query", "parsing", "validation"]),
    ("variables-error", {"query": "query ($v: Int!) { s(v: $v) }", "variables": {}}, ["query", "parsing", "validation"]),
    ("variables-error-type", {"query": "query ($v: Int) { s(v: $v) }", "variables": {"v": "x"}}, ["query", "parsing", "validation"]),
    ("success-flat", {"query": "{ a b c }", "custom": {"Query.a": "async", "Query.b": "sync"}}, ["query", "parsing", "validation", "execution"]),
    ("success-nested", {"query": "{ o { x y } a }", "custom": {"Query.o": "async", "Obj.x": "async", "Query.a": "sync"}}, ["query", "parsing", "validation", "execution"]),
    ("success-default-only", {"query": "{ a o { x } __typename }", "custom": {}}, ["query", "parsing", "validation", "execution"]),
    ("success-list", {"query": "{ l { x } }", "custom": {"Obj.x": "async"}}, ["query", "parsing", "validation", "execution"]),
    ("success-args", {"query": "query ($v: Int = 2) { s(v: $v) t: s }", "custom": {"Query.s": "sync"}}, ["query", "parsing", "validation", "execution"]),
    ("partial-leaf", {"query": "{ a b o { x } }", "custom": {"Query.a": "async", "Query.b": "sync", "Obj.x": "async"}, "overrides": {"b": "err"}}, ["query", "parsing", "validation", "execution"]),
    ("partial-nested", {"query": "{ o { x y } a }", "custom": {"Query.o": "sync", "Obj.x": "async", "Obj.y": "sync"}, "overrides": {"o.x": "err"}}, ["query", "parsing", "validation", "execution"]),
    ("partial-list-item", {"query": "{ l { x } }", "custom": {"Obj.x": "sync"}, "overrides": {"l.1.x": "err"}}, ["query", "parsing", "validation", "execution"]),
    ("partial-nonnull", {"query": "{ c n { y } }", "custom": {"Query.c": "async", "Obj.y": "async"}, "overrides": {"n.y": "null"}}, ["query", "parsing", "validation", "execution"]),
    ("partial-parent", {"query": "{ o { x } a }", "custom": {"Query.o": "async", "Obj.x": "sync"}, "overrides": {"o": "err"}}, ["query", "parsing", "validation", "execution"]),
    ("partial-lazy-list", {"query": "{ l { x } b }", "custom": {"Query.l": "async", "Obj.x": "sync", "Query.b": "sync"}, "overrides": {"l": "lazy-err"}}, ["query", "parsing", "validation", "execution"]),
    ("partial-resolve-type", {"query": "{ i { id } a }", "custom": {"Query.i": "sync", "Query.a": "async"}, "overrides": {"i": "type-err"}}, ["query", "parsing", "validation", "execution"]),
    ("success-shared-resolver", {"query": "{ a b o { x y } l { x } }", "custom": {"Query.a": "shared", "Query.b": "shared", "Obj.x": "shared", "Obj.y": "shared-async"}}, ["query", "parsing", "validation", "execution"]),
    ("success-shared-async", {"query": "{ a p: a b }", "custom": {"Query.a": "shared-async", "Query.b": "shared-async"}}, ["query", "parsing", "validation", "execution"]),
    ("success-abstract", {"query": "{ i { id ... on Obj { x } } u { ... on Obj { y } ... on Other { z } } }", "custom": {"Query.i": "async", "Obj.x": "sync", "Other.z": "async"}}, ["query", "parsing", "validation", "execution"]),
    ("success-deep-list", {"query": "{ l { x l { x } } w }", "custom": {"Obj.x": "async", "Obj.l": "sync", "Query.w": "nested"}}, ["query", "parsing", "validation", "execution"]),
    ("success-fragments", {"query": "{ ...F a } fragment F on Query { b o { ...G } } fragment G on Obj { x y }", "custom": {"Query.b": "async", "Obj.y": "async"}}, ["query", "parsing", "validation", "execution"]),
    ("partial-two-errors", {"query": "{ a b c o { x y } }", "custom": {"Query.a": "async", "Query.c": "sync", "Obj.x": "async", "Obj.y": "sync"}, "overrides": {"a": "err", "o.y": "null"}}, ["query", "parsing", "validation", "execution"]),
    ("partial-argument-coercion", {"query": "query ($q: Int = 1) { r(q: $q) a }", "variables": {"q": None}, "custom": {"Query.r": "sync", "Query.a": "async"}}, ["query", "parsing", "validation", "execution"]),
    ("partial-null-values", {"query": "{ a o { x } b l { x } }", "custom": {"Query.a": "async", "Query.o": "sync", "Query.b": "sync", "Obj.x": "async"}, "overrides": {"a": "null", "o": "null", "l.0.x": "null"}}, ["query", "parsing", "validation", "execution"]),
    ("partial-error-subclass", {"query": "{ a b }", "custom": {"Query.a": "async", "Query.b": "sync"}, "overrides": {"a": "err-sub", "b": "err-sub"}}, ["query", "parsing", "validation", "execution"]),
    ("success-schema-default-resolver", {"query": "{ a o { x y } l { x } }", "custom": {"Query.a": "async"}, "sdl": "full+schema-default"}, ["query", "parsing", "validation", "execution"]),
    ("success-type-default-resolver", {"query": "{ o { x y o { x } } b }", "custom": {"Query.b": "sync"}, "sdl": "full+type-default"}, ["query", "parsing", "validation", "execution"]),
    ("partial-schema-default-resolver", {"query": "{ a b o { x } }", "custom": {}, "sdl": "full+schema-default", "overrides": {"b": "err", "o.x": "err"}}, ["query", "parsing", "validation", "execution"]),
    ("mutation-list", {"query": "mutation { m4 { x } m3 }", "custom": {"Mutation.m4": "async", "Obj.x": "async", "Mutation.m3": "sync"}}, ["query", "parsing", "validation", "execution"]),
    ("mutation", {"query": "mutation { m3 m1 { x } }", "custom": {"Mutation.m3": "async", "Mutation.m1": "sync", "Obj.x": "async"}}, ["query", "parsing", "validation", "execution"]),
    ("mutation-partial", {"query": "mutation { m3 m5 }", "custom": {"Mutation.m3": "async", "Mutation.m5": "async"}, "overrides": {"m3": "err"}}, ["query", "parsing", "validation", "execution"]),
    ("preparsed", {"query": "{ a b }", "custom": {"Query.a": "sync"}, "preparsed": True}, ["query", "validation", "execution"]),
    ("preparsed-invalid", {"query": "{ nope }", "preparsed": True}, ["query", "validation"]),
    # a valid subscription operation sent through the query entry points is refused: whatever started must end
    ("subscription-refused", {"query": "subscription { ev { x } }"}, ["query", "parsing", "validation"]),
    ("subscription-refused-named", {"query": "query A { a } subscription S { ev { x } }", "operation_name": "S"}, ["query", "parsing", "validation"]),
    ("subscription-refused-preparsed", {"query": "subscription { tick }", "preparsed": True}, ["query", "validation"]),
]


def _stacks(tier):
    if tier == "thorough":
        ins = [(1, False), (2, False), (3, False), (3, True), (4, "middle")]
        mws = [0, 1, 2, 3]
    else:
        ins = [(1, False), (2, False), (3, True), (4, "middle")]
        mws = [0, 2]
    for k, nested in ins:
        for m in mws:
            yield {"instr": k, "instr_nested": nested, "mw": m}
    yield {"instr": 2, "instr_nested": False, "mw": 1, "tracer": True}


SUBSCRIPTIONS = [
    ("ev { x }", {"Obj.x": "async"}),
    ("ev { x y l { x } }", {"Obj.x": "sync", "Obj.y": "async"}),
    ("tick", {"Subscription.tick": "async"}),
]


def cases(tier):
    for name, scn, stages in REQUESTS:
        for stk in _stacks(tier):
            s = dict(scn)
            s.update(stk)
            yield {"name": name, "scn": s, "stages": stages}
    # subscriptions: the instrumentation passed to subscribe() observes every event's fields (stream machinery of C17)
    for sel, custom in SUBSCRIPTIONS:
        for n in (1, 2, 3):
            for mode in ("deferred", "immediate"):
                yield {"name": "subscription", "kind": "subscription",
                       "c17": {"kind": "stream", "sel": sel, "custom": custom, "n": n, "mode": mode, "resolver": "sync"}}


def _check_subscription(case, st):
    """field hooks of the instrumentation given to subscribe(): within every event, each field_start is followed
    by exactly one field_end of the same path, under every delivery / completion schedule"""
    from mc.checks import C17
    from mc.explore import explore, run_once

    c17 = case["c17"]
    out = []
    for ov in C17._failure_sets(c17, "quick"):
        body = lambda ch: C17._body(c17, ov, ch)  # noqa
        bad = 0
        for choices, (obs, world) in explore(body, bound=BOUNDS[st.tier]["early_bound"], st=st, max_execs=4000):
            st.n("evaluations")
            prob = _subscription_hooks(world.log)
            if c17["n"] >= 2:
                st.nt(("subscription", c17["sel"], c17["n"], c17["mode"], sorted(ov.items()), choices))
            st.outcome(("subscription", c17["sel"], c17["n"], prob and prob[0]))
            if prob:
                bad += 1
                if bad <= 1:
                    w2 = run_once(body, choices)[1][1]
                    if _subscription_hooks(w2.log) != prob:
                        raise HarnessError("non-deterministic replay %r" % (choices,))
                    out.append(("subscription/" + prob[0], {"case": case, "overrides": ov, "choices": choices}, prob[1]))
    return out


def _subscription_hooks(log):
    open_ = {}
    for e in log:
        if e[0] != "hook" or e[2] not in ("field_start", "field_end"):
            continue
        k = (e[1], e[3])
        if e[2] == "field_start":
            if open_.get(k):
                return ("field-start-twice", "field_start for %s fired again before its field_end" % e[3])
            open_[k] = 1
        else:
            if not open_.get(k):
                return ("field-end-without-start", "field_end for %s without an open field_start" % e[3])
            open_[k] = 0
    left = sorted(k[1] for k, v in open_.items() if v)
    if left:
        return ("field-end-missing", "field_start without field_end for %s" % left)
    return None


START = ("query_start", "parsing_start", "validation_start", "execution_start", "field_start")


def _field_paths(data, prefix=()):
    """response paths of all resolved fields, from the ordered data tree."""
    out = []
    if isinstance(data, dict):
        for k, v in data.items():
            p = prefix + (k,)
            out.append(".".join(str(x) for x in p))
            out.extend(_field_values(v, p))
    return out


def _field_values(v, p):
    if isinstance(v, dict):
        return _field_paths(v, p)
    if isinstance(v, list):
        out = []
        for i, x in enumerate(v):
            out.extend(_field_values(x, p + (i,)))
        return out
    return []


def monitor(world, obs, scn, stages):
    """returns list of (kind, description)"""
    probs = []
    k = max(scn.get("instr", 0), 1)
    m = scn.get("mw", 0)
    log = world.log
    tags = ["I%d" % i for i in range(k)]
    # ---- 1. grouping: at every hook occurrence all members fire, starts in order, ends in reverse
    groups = []
    i = 0
    hooks = [(n, e) for n, e in enumerate(log) if e[0] == "hook"]
    j = 0
    while j < len(hooks):
        n, e = hooks[j]
        name, path = e[2], (e[3] if len(e) > 3 else None)
        grp = [e[1]]
        jj = j + 1
        while jj < len(hooks) and len(grp) < k and hooks[jj][1][2] == name and (hooks[jj][1][3] if len(hooks[jj][1]) > 3 else None) == path and hooks[jj][0] == hooks[jj - 1][0] + 1:
            grp.append(hooks[jj][1][1])
            jj += 1
        want = tags if name in START else tags[::-1]
        if grp != want:
            probs.append(("multi-order", "%s%s fired for %s, expected %s" % (name, (" " + path) if path else "", grp, want)))
        groups.append((n, name, path))
        j = jj
    # ---- 2. stage bracket language (on the groups)
    stack = []
    seen = {}
    for n, name, path in groups:
        stage, _, kind = name.rpartition("_")
        if stage == "field":
            # field hooks after the execution stage closed are only tolerated when something failed (items of a
            # failed list still running); in a request where every resolver succeeds, the execution stage must
            # enclose every field hook, otherwise its end hook fired before execution had finished
            if "execution" not in stack and not (scn.get("overrides") or {}):
                probs.append(("field-hook-outside-execution", "%s %s with open stages %s" % (name, path, stack)))
            continue
        if kind == "start":
            seen[stage] = seen.get(stage, 0) + 1
            if seen[stage] > 1:
                probs.append(("hook-twice", "%s started twice" % stage))
            stack.append(stage)
        else:
            if not stack or stack[-1] != stage:
                if stage in stack:
                    probs.append(("end-before-inner-end:%s" % stage, "%s_end while %s still open (log: %s)" % (stage, stack[stack.index(stage) + 1:], [g[1] for g in groups if not g[1].startswith("field")])))
                    stack.remove(stage)
                else:
                    probs.append(("end-without-start:%s" % stage, "%s_end with open stages %s" % (stage, stack)))
            else:
                stack.pop()
    if stack:
        probs.append(("unbalanced:%s" % stack[-1], "stages never ended: %s" % stack))
    got_stages = [s for s in ("query", "parsing", "validation", "execution") if s in seen]
    if got_stages != [s for s in ("query", "parsing", "validation", "execution") if s in stages]:
        probs.append(("stage-set", "stages started %s expected %s" % (got_stages, stages)))
    # ---- 3. per-field exactly once, ordering w.r.t. resolver events
    if obs["status"] == "ok" and obs.get("data") not in (None, "null") and "execution" in stages:
        data = json.loads(obs["data"])
        expected = sorted(_field_paths(data))
        starts = sorted(g[2] for g in groups if g[1] == "field_start")
        ends = sorted(g[2] for g in groups if g[1] == "field_end")
        # every field that was resolved: exactly one start and one end.  A field can be resolved and its
        # value discarded later (an item of a list whose iteration then fails), so the set derived from the
        # final data is a lower bound, not the exact set.
        dup = sorted({p for p in starts if starts.count(p) > 1})
        if dup:
            probs.append(("field-start-count", "field_start fired more than once for %s" % dup))
        missing = [p for p in expected if p not in starts]
        if missing:
            probs.append(("field-start-count", "no field_start for resolved fields %s (got %s)" % (missing, starts)))
        # items of a lazily evaluated list whose iteration failed: their resolution may have been started
        # (hook fired, coroutine created) and abandoned before the resolver was ever invoked -- such a field
        # was not "resolved", so no end hook is demanded for it
        lazy_roots = [p for p, o in (scn.get("overrides") or {}).items() if o == "lazy-err"]
        invoked = {e[1] for e in log if e[0] == "invoke"}
        abandoned = [q for q in starts if q not in invoked and q not in ends and any(q.startswith(p + ".") for p in lazy_roots)]
        if abandoned:
            starts = [q for q in starts if q not in abandoned]
        if ends != starts:
            probs.append(("field-end-count", "field_end paths %s but field_start paths %s" % (ends, starts)))
        expected = starts
        first_start = {}
        last_end = {}
        for n, name, path in groups:
            if name == "field_start":
                first_start.setdefault(path, n)
            elif name == "field_end":
                last_end[path] = n
        for n, e in enumerate(log):
            if e[0] == "invoke":
                if e[1] not in first_start or first_start[e[1]] > n:
                    probs.append(("resolver-before-field-start", "invoke %s at #%d, field_start at %s" % (e[1], n, first_start.get(e[1]))))
            elif e[0] == "finish":
                if e[1] not in last_end or last_end[e[1]] < n:
                    probs.append(("field-end-before-return", "finish %s at #%d, field_end at %s" % (e[1], n, last_end.get(e[1]))))
        # ---- 4. middlewares: each resolved field passes every middleware exactly once, last listed outermost
        if m:
            before = {}
            after = {}
            for e in log:
                if e[0] == "mw-before":
                    before.setdefault(e[2], []).append(e[1])
                elif e[0] == "mw-after":
                    after.setdefault(e[2], []).append(e[1])
            mtags = ["M%d" % i for i in range(m)]
            # a field whose ARGUMENTS could not be coerced never reaches its resolver: no resolver call, hence no
            # middleware call, is demanded for it
            uncalled = {e[1] for e in (obs.get("errors") or []) if len(e) > 2 and e[2] == "CoercionError"}
            for p in expected:
                if p in uncalled and p not in before:
                    continue
                if before.get(p) != mtags[::-1]:
                    probs.append(("middleware-before", "field %s entered middlewares %s expected %s" % (p, before.get(p), mtags[::-1])))
                a = after.get(p)
                if a is not None and a != mtags[: len(a)] and a != mtags:
                    probs.append(("middleware-after", "field %s left middlewares %s expected prefix of %s" % (p, a, mtags)))
            extra = sorted(set(before) - set(expected) - set(abandoned))
            if extra:
                probs.append(("middleware-extra", "middlewares ran for unresolved fields %s" % extra))
        # ---- 5. tracer payload
        if world.tracer is not None:
            try:
                pl = world.tracer.payload()
                res = (pl.get("execution") or {}).get("resolvers") or []
                tp = sorted(".".join(str(x) for x in r["path"]) for r in res)
                if tp != sorted(expected + abandoned):
                    probs.append(("tracer-resolvers", "tracer resolver paths %s expected %s" % (tp, sorted(expected + abandoned))))
                nulls = [r["path"] for r in res if r["duration"] is None and ".".join(str(x) for x in r["path"]) not in abandoned]
                if nulls:
                    probs.append(("tracer-null-duration", "%s" % nulls))
            except Exception as e:  # noqa
                probs.append(("tracer-raises:%s" % type(e).__name__, repr(e)))
    return probs


STAGE_KINDS = ("multi-order", "hook-twice", "end-before-inner-end", "end-without-start", "unbalanced", "stage-set")


def _cls(name, cfg, kind):
    """stage-level kinds do not depend on the runtime; field-level ones are keyed by configuration"""
    if kind.split(":")[0] in STAGE_KINDS:
        return kind
    return "%s/%s" % (cfg, kind)


def _key(obs):
    return (obs["status"], obs.get("data"), json.dumps(obs.get("errors")), obs.get("exc"))


def check_case(case, st):
    from mc.sched import harness as H
    from mc.sched import scenario as S

    if case.get("kind") == "subscription":
        return _check_subscription(case, st)
    b = BOUNDS[st.tier]
    scn = case["scn"]
    out = []
    try:
        ndef = S.invoked_paths(scn, fast=False)[1]
    except Exception:  # noqa  (requests that do not reach execution)
        ndef = 0
    # all completion orders are free while few results are in flight; beyond that an out-of-order completion
    # costs one deviation like an early one
    free = ndef <= b["free_order_upto"]
    for cfg in H.CONFIGS + ("entry-blocking", "entry-graphql"):
        bad = 0
        for choices, obs, world in S.schedules(cfg, scn, st, free=free, bound=b["early_bound"], max_execs=(4000 if st.tier == "quick" else 30000), fast=False):
            st.n("evaluations")
            if obs["status"] == "exc":
                out.append(("%s/request-raises" % cfg, {"case": case, "config": cfg, "choices": choices, "free": free}, obs.get("exc")))
                break
            if obs["status"] in ("stuck", "horizon"):
                out.append(("%s/stuck" % cfg, {"case": case, "config": cfg, "choices": choices, "free": free}, str(obs.get("trace"))))
                break
            probs = monitor(world, obs, scn, case["stages"])
            if any(e[0] == "hook" and e[2] == "field_start" for e in world.log):
                st.nt((case["name"], scn.get("instr"), scn.get("instr_nested"), scn.get("mw"), scn.get("tracer"), cfg, choices))
            st.outcome((case["name"], cfg, tuple(sorted({p[0] for p in probs}))))
            if probs:
                bad += 1
                if bad <= 1:
                    o2, w2 = S.replay(cfg, scn, choices, free, fast=False)
                    if w2.log != world.log:
                        raise HarnessError("non-deterministic replay %r %s %s" % (choices, cfg, case["name"]))
                    for kind in sorted({p[0] for p in probs}):
                        d = [p[1] for p in probs if p[0] == kind][0]
                        out.append((_cls(case["name"], cfg, kind), {"case": case, "config": cfg, "choices": choices, "free": free}, d))
            if st.out_of_time():
                return out
    if st.counters.get("cases", 0) % 11 == 1:
        st.sample({"request": case["name"], "scn": scn})
    return out


def replay(w):
    from mc.sched import scenario as S

    case = w["case"]
    if case.get("kind") == "subscription":
        from mc.checks import C17
        from mc.explore import run_once

        world = run_once(lambda ch: C17._body(case["c17"], w["overrides"], ch), w["choices"])[1][1]
        prob = _subscription_hooks(world.log)
        return [("subscription/" + prob[0], prob[1])] if prob else []
    obs, world = S.replay(w["config"], case["scn"], w["choices"], w.get("free", True), fast=False)
    if obs["status"] == "exc":
        return [("%s/request-raises" % w["config"], obs.get("exc"))]
    if obs["status"] in ("stuck", "horizon"):
        return [("%s/stuck" % w["config"], "")]
    probs = monitor(world, obs, case["scn"], case["stages"])
    return [(_cls(case["name"], w["config"], k), d) for k, d in probs]
