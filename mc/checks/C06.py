# -*- coding: utf-8 -*-
"""
C06 -- validation verdicts match the specification and ignore irrelevant order.

E3 over
  (V) documents valid by construction (mc.gen.operations: base trees, single deviations, the hand
      seeds with several operations and nested fragments), expected verdict: no error;
  (L) LABELLED single violations (mc.gen.mutations, one or more operators per specification rule,
      each applied at every position where it applies), expected verdict: some error, and the rule
      the mutant was built to break reports an error when run alone (attribution);
and, for every document of (V) and (L), its metamorphic class: all permutations of the definitions
(<= 4 definitions, adjacent transpositions beyond), all permutations of the selections / arguments /
variable definitions of one node at a time, consistent renaming of aliases, fragments and variables
(reversed lexicographic order; single-letter <-> multi-letter), trivia re-spellings.  The verdict
(empty / non-empty error list) must be the same across the class.
"""
import copy
import itertools
import re

from mc.gen import ex_schemas as S
from mc.gen import ex_families as X
from mc.gen import ex_varmatrix as V
from mc.gen import mutations as M
from mc.gen import operations as O

READY = True
LEVEL = "exploration"
TECHNIQUE = "bounded-exhaustive enumeration of valid-by-construction and labelled-invalid documents with metamorphic closure (definition / selection / argument / variable order, renamings, trivia) against by-construction verdicts"
LEVEL_TEXT = (
    "Every document of the bound is validated by the real validator together with every member of its metamorphic class; "
    "verdicts are compared with the verdict the construction implies and with each other, and labelled violations are attributed "
    "to their rule by running that rule alone. Exhaustive inside the bound; small-scope argument beyond."
)
LEVEL_NOTE = "Trusts the construction of the documents (each disagreement was triaged by hand against the June-2018 validation section) and py_gql.lang.parse."
DESIGN_REF = "DESIGN.md section 6, C06"
RULE = (
    "cases = one document each (valid-by-construction or labelled single violation); evaluation = one validate_ast call (base document or one "
    "metamorphic variant); non-trivial = distinct texts validated; outcomes = (expected verdict, observed verdict, transformation)"
)
ASSUMPTIONS = [
    "a document on which validate_ast raises is left to C05 (counted, not reported here)",
    "variable wrapper matrix: the expected verdict is the specification's IsVariableUsageAllowed / AreTypesCompatible transliterated in mc.gen.ex_varmatrix (self-tested on the spec's examples)",
    "the verdict compared across a metamorphic class is empty / non-empty, not the error texts",
    "directives on variable definitions (py_gql's documented extension of the June-2018 grammar) are treated like any other directive location for the KnownDirectives label",
    "documents with type-system definitions are parsed with allow_type_system=True",
]
BOUNDS = {
    "quick": {"valid_base_nodes": 3, "valid_dev_nodes": 1, "hand_seeds_deviated": [2, 3, 4], "labelled_seed_nodes": 1, "def_perm_max": 3, "list_perm_max": 2, "four_field_conflicts": False, "earlier_operations": [2], "trivia": ["comments"]},
    "thorough": {"valid_base_nodes": 4, "valid_dev_nodes": 2, "hand_seeds_deviated": [0, 1, 2, 3, 4, 5, 6], "labelled_seed_nodes": 2, "def_perm_max": 4, "list_perm_max": 4, "four_field_conflicts": True, "earlier_operations": [1, 2], "trivia": ["newlines", "commas", "comments", "tabs-bom"]},
}
TIME_CAP = {"quick": 150, "thorough": 1500}

ROOTS = [("A", "query"), ("B", "query"), ("C", "query"), ("C", "mutation")]
_SCHEMAS = {}
_GENS = {}


def schema(name):
    if name not in _SCHEMAS:
        _SCHEMAS[name] = S.build(S.SCHEMAS[name])
    return _SCHEMAS[name]


def gen(name):
    if name not in _GENS:
        _GENS[name] = O.Gen(S.SCHEMAS[name], 3)
    return _GENS[name]


def _base(name, root, n, idx):
    g = gen(name)
    sm = S.SCHEMAS[name]
    ab = g.sets(sm[root], n, 3)[idx]
    return {"doc": O.mkdoc(O.mkop(g.to_sels(sm[root], ab), kind=root)), "vars": {}}


def _labelled_seeds(max_nodes):
    return M.hand_seeds() + list(M.generated_seeds(max_nodes))


# ---------------------------------------------------------------------------------------------
# cases


def cases(tier):
    b = BOUNDS[tier]
    hs = M.hand_seeds()
    for i in range(len(hs)):
        yield {"k": "valid-hand", "t": tier, "i": i}
    for n in range(1, b["valid_base_nodes"] + 1):
        for name, root in ROOTS:
            cnt = len(gen(name).sets(S.SCHEMAS[name][root], n, 3))
            for idx in range(cnt):
                yield {"k": "valid-base", "t": tier, "schema": name, "root": root, "n": n, "idx": idx}
    for fam in X.FAMILIES:
        n = sum(1 for _ in X.FAMILIES[fam]())
        for j in range(0, n, 24):
            yield {"k": "family", "t": tier, "family": fam, "from": j, "to": min(n, j + 24)}
    for placement in V.PLACEMENTS:
        n = sum(1 for _ in V.matrix(placement))
        for j in range(0, n, 64):
            yield {"k": "var-matrix", "t": tier, "placement": placement, "from": j, "to": min(n, j + 64)}
    seeds = _labelled_seeds(b["labelled_seed_nodes"])
    for i in range(len(seeds)):
        name, case = seeds[i]
        nm = sum(1 for _ in M.all_mutants(S.SCHEMAS[name], case, labelled_only=True))
        for j in range(0, nm, 8):
            yield {"k": "labelled", "t": tier, "seed": i, "from": j, "to": min(nm, j + 8)}
    for n in range(1, b["valid_dev_nodes"] + 1):
        for name, root in ROOTS:
            cnt = len(gen(name).sets(S.SCHEMAS[name][root], n, 3))
            for idx in range(cnt):
                yield {"k": "valid-dev", "t": tier, "schema": name, "root": root, "n": n, "idx": idx}
    for i in b["hand_seeds_deviated"]:
        name, c = hs[i]
        nd = sum(1 for _ in O.deviations(S.SCHEMAS[name], c["doc"]))
        for j in range(0, nd, 6):
            yield {"k": "valid-hand-dev", "t": tier, "i": i, "from": j, "to": min(nd, j + 6)}


# ---------------------------------------------------------------------------------------------
# metamorphic variants: (transformation tag, text)


def _lists(doc):
    """every selection list of the document in DFS order"""
    out = []

    def rec(lst):
        out.append(lst)
        for s in lst:
            ch = O.children_of(s)
            if ch is not None:
                rec(ch)

    for op in doc["ops"]:
        rec(op["sels"])
    for fr in doc["frags"]:
        rec(fr[3])
    return out


def _nodes_with_args(doc):
    out = []
    for lst in _lists(doc):
        for s in lst:
            if s[0] == "f" and len(s[4]) >= 2:
                out.append(s)
    return out


def _perms(n, maxfull, rotations=True):
    if n <= maxfull:
        return [p for p in itertools.permutations(range(n)) if list(p) != list(range(n))]
    out = []
    for i in range(n - 1):
        p = list(range(n))
        p[i], p[i + 1] = p[i + 1], p[i]
        out.append(tuple(p))
    # beyond the full-permutation bound: adjacent transpositions, the reversal and the two rotations
    extra = [tuple(reversed(range(n)))]
    if rotations:
        extra += [tuple(range(1, n)) + (0,), (n - 1,) + tuple(range(n - 1))]
    for p in extra:
        if p not in out and list(p) != list(range(n)):
            out.append(p)
    return out


_VAR = re.compile(r"\$([A-Za-z_][A-Za-z_0-9]*)")


def _rename(doc, amap, fmap, vmap, omap=None):
    doc = copy.deepcopy(doc)
    for op in doc["ops"]:
        if omap and (op.get("name") or "") in omap:
            op["name"] = omap[op.get("name") or ""]

    def vtext(t):
        return _VAR.sub(lambda m: "$" + vmap.get(m.group(1), m.group(1)), t) if t is not None else None

    def dirs(ds):
        for d in ds:
            d[1] = {k: vtext(v) for k, v in d[1].items()}

    def rec(lst):
        for s in lst:
            if s[0] == "f":
                if s[2]:
                    s[2] = amap.get(s[2], s[2])
                s[4] = {k: vtext(v) for k, v in s[4].items()}
                dirs(s[3])
                if s[5] is not None:
                    rec(s[5])
            elif s[0] == "i":
                dirs(s[2])
                rec(s[3])
            else:
                s[1] = fmap.get(s[1], s[1])
                dirs(s[2])

    for op in doc["ops"]:
        for v in op["vars"]:
            v[0] = vmap.get(v[0], v[0])
            v[2] = vtext(v[2])
        dirs(op["dirs"])
        rec(op["sels"])
    for fr in doc["frags"]:
        fr[0] = fmap.get(fr[0], fr[0])
        dirs(fr[2])
        rec(fr[3])
    return doc


def _names(doc):
    aliases, frags, vars_ = set(), set(), set()
    for lst in _lists(doc):
        for s in lst:
            if s[0] == "f" and s[2]:
                aliases.add(s[2])
            elif s[0] == "s":
                frags.add(s[1])
    for fr in doc["frags"]:
        frags.add(fr[0])
    text = O.render(doc)
    for m in _VAR.finditer(text):
        vars_.add(m.group(1))
    return sorted(aliases), sorted(frags), sorted(vars_)


def _reverse_map(names):
    return dict(zip(names, reversed(names)))


def _length_flip(names, reserved, upper):
    """single-letter names become multi-letter and vice versa, consistently and injectively"""
    out = {}
    used = set(reserved) | set(names)
    pool = [c for c in ("ABCDEFGHJKLMNPRSTUVWXYZ" if upper else "abeghjkmpqruwxyz")]
    for n in names:
        if len(n) == 1:
            cand = n * 4
            while cand in used:
                cand += n
        else:
            cand = None
            for c in pool:
                if c not in used:
                    cand = c
                    break
            if cand is None:
                cand = n
        used.add(cand)
        out[n] = cand
    return out


def _respell(text, sep):
    """replace every single space outside string literals by `sep`"""
    out = []
    in_str = False
    i = 0
    while i < len(text):
        ch = text[i]
        if in_str:
            out.append(ch)
            if ch == "\\":
                out.append(text[i + 1])
                i += 1
            elif ch == '"':
                in_str = False
        elif ch == '"':
            in_str = True
            out.append(ch)
        elif ch == " ":
            out.append(sep)
        else:
            out.append(ch)
        i += 1
    return "".join(out)


def _doc_field_names(doc):
    out = []
    for lst in _lists(doc):
        for s_ in lst:
            if s_[0] == "f" and not s_[1].startswith("__") and s_[1] not in out:
                out.append(s_[1])
    return out


def _doc_arg_names(doc):
    out = []
    for lst in _lists(doc):
        for s_ in lst:
            if s_[0] == "f":
                for a in s_[4]:
                    if a.strip() not in out:
                        out.append(a.strip())
    return out


def collisions(sm, doc):
    """renamings that make names of DIFFERENT kinds equal where the specification allows it
    (operation = fragment, fragment = field / type, variable = argument / field / fragment,
    alias = a field name used nowhere in the document / a type name); the verdict must not change"""
    aliases, frags, vars_ = _names(doc)
    fieldnames = O._all_field_names(sm)
    aliases = [a for a in aliases if a not in fieldnames]
    text = O.render(doc)
    dfields = _doc_field_names(doc)
    dargs = _doc_arg_names(doc)
    opnames = [op.get("name") for op in doc["ops"]]
    typenames = [n for n in sm["types"] if n not in frags]
    # operation name = fragment name (a lone anonymous operation gets the name)
    if frags:
        for oi, on in enumerate(opnames):
            if on or len(doc["ops"]) == 1:
                for fn in sorted({frags[0], frags[-1]}):
                    if fn not in opnames:
                        if on:
                            # every operation of that name (consistent renaming)
                            yield "collide:operation=fragment", O.render(_rename(doc, {}, {}, {}, {on: fn}))
                        else:
                            d2 = copy.deepcopy(doc)
                            d2["ops"][oi]["name"] = fn
                            yield "collide:operation=fragment", O.render(d2)
    # fragment name = field name of the document / type name
    for fr in frags[:1]:
        for target in dfields[:1] + typenames[:1]:
            if target not in frags and target != "on":
                yield "collide:fragment=%s" % ("field" if target in dfields else "type"), O.render(_rename(doc, {}, {fr: target}, {}))
    # variable name = argument name / field name / fragment name
    for vi, v in enumerate(vars_[:2]):
        for kind, pool in (("argument", dargs), ("field", dfields), ("fragment", frags)) if vi == 0 else (("fragment", frags), ("argument", dargs)):
            if vi == 1 and kind == "argument" and frags:
                continue  # the second variable takes one collision only
            cand = [x for x in pool if x not in vars_]
            if cand:
                yield "collide:variable=%s" % kind, O.render(_rename(doc, {}, {}, {v: cand[0]}))
    # alias = a field name of the schema that occurs nowhere in the document / a type name
    import re as _re

    words = set(_re.findall(r"[A-Za-z_][A-Za-z_0-9]*", text))
    free = sorted(f for f in fieldnames if f not in words)
    for a in aliases[:2]:
        if free:
            yield "collide:alias=unused-field-name", O.render(_rename(doc, {a: free[0]}, {}, {}))
        tn = [t for t in sm["types"] if t not in aliases]
        if tn:
            yield "collide:alias=type-name", O.render(_rename(doc, {a: tn[0]}, {}, {}))
    # operation name = field name / type name
    for oi, on in enumerate(opnames):
        if on and dfields and dfields[0] not in opnames:
            yield "collide:operation=field", O.render(_rename(doc, {}, {}, {}, {on: dfields[0]}))
            break


def _value_slots(doc):
    """every place holding a value text: (getter, setter) pairs over a document"""
    slots = []
    for lst in _lists(doc):
        for s_ in lst:
            if s_[0] == "f":
                for k in list(s_[4]):
                    slots.append((s_[4], k))
            for d in (s_[3] if s_[0] == "f" else s_[2]):
                for k in list(d[1]):
                    slots.append((d[1], k))
    for op in doc["ops"]:
        for v in op["vars"]:
            if v[2] is not None and " @" not in v[2]:
                slots.append((v, 2))
    return slots


def _input_field_orders(doc):
    """all orders of the fields of ONE input-object literal at a time (<= 3 fields: every permutation)"""
    from mc.ref import execute as R

    base = _value_slots(doc)
    for si, (holder, key) in enumerate(base):
        text = holder[key]
        if "{" not in text:
            continue
        try:
            val = R.parse_value(text)
        except Exception:  # noqa
            continue
        for path in R.object_paths(val):
            node = val
            for i in path:
                node = node[1][i][1] if node[0] == "object" else node[1][i]
            for perm in _perms(len(node[1]), 3, rotations=False):
                d2 = copy.deepcopy(doc)
                h2, k2 = _value_slots(d2)[si]
                h2[k2] = R.render_value(R.permute_object(val, path, perm))
                yield "input-field-order", O.render(d2)


def variants(sm, doc, bounds, only=None):
    """(tag, text) for every member of the metamorphic class (excluding the document itself);
    `only`: restrict to transformations whose tag starts with one of these prefixes"""
    for tag, text in _variants(sm, doc, bounds):
        if only is None or tag.startswith(tuple(only)):
            yield tag, text


def _variants(sm, doc, bounds):
    for x in collisions(sm, doc):
        yield x
    ndefs = len(doc["ops"]) + len(doc["frags"])
    if ndefs >= 2:
        for p in _perms(ndefs, bounds["def_perm_max"]):
            yield "definition-order", O.render(doc, order=list(p))
    lists = _lists(doc)
    for j, lst in enumerate(lists):
        if len(lst) >= 2:
            for p in _perms(len(lst), bounds["list_perm_max"], rotations=False):
                d2 = copy.deepcopy(doc)
                l2 = _lists(d2)[j]
                l2[:] = [l2[k] for k in p]
                yield "selection-order", O.render(d2)
    for j, s in enumerate(_nodes_with_args(doc)):
        keys = list(s[4])
        for p in _perms(len(keys), 3):
            d2 = copy.deepcopy(doc)
            s2 = _nodes_with_args(d2)[j]
            s2[4] = {keys[k]: s2[4][keys[k]] for k in p}
            yield "argument-order", O.render(d2)
    for oi, op in enumerate(doc["ops"]):
        if len(op["vars"]) >= 2:
            for p in _perms(len(op["vars"]), 3):
                d2 = copy.deepcopy(doc)
                vs = d2["ops"][oi]["vars"]
                vs[:] = [vs[k] for k in p]
                yield "variable-definition-order", O.render(d2)
    for x in _input_field_orders(doc):
        yield x
    aliases, frags, vars_ = _names(doc)
    fieldnames = O._all_field_names(sm)
    # an alias that coincides with the name of a field of the schema may be the response key of an
    # un-aliased selection of that field: renaming it is not verdict-preserving, so it is left alone
    aliases = [a for a in aliases if a not in fieldnames]
    if len(aliases) >= 2:
        yield "rename-aliases:reversed", O.render(_rename(doc, _reverse_map(aliases), {}, {}))
    if aliases:
        yield "rename-aliases:length", O.render(_rename(doc, _length_flip(aliases, fieldnames, True), {}, {}))
    if len(frags) >= 2:
        yield "rename-fragments:reversed", O.render(_rename(doc, {}, _reverse_map(frags), {}))
    if frags:
        yield "rename-fragments:length", O.render(_rename(doc, {}, _length_flip(frags, (), True), {}))
    if len(vars_) >= 2:
        yield "rename-variables:reversed", O.render(_rename(doc, {}, {}, _reverse_map(vars_)))
    if vars_:
        yield "rename-variables:length", O.render(_rename(doc, {}, {}, _length_flip(vars_, (), False)))
    text = O.render(doc)
    spell = {"newlines": lambda: _respell(text, "\n"), "commas": lambda: _respell(text, ", "), "comments": lambda: _respell(text, " #c\n"), "tabs-bom": lambda: "\ufeff" + _respell(text, "\t") + "\n"}
    for k in bounds.get("trivia", list(spell)):
        yield "trivia:" + k, spell[k]()


# ---------------------------------------------------------------------------------------------
# oracle

_RULES = None


def rule_classes():
    global _RULES
    if _RULES is None:
        from py_gql.validation import SPECIFIED_RULES

        _RULES = {r.__name__: r for r in SPECIFIED_RULES}
    return _RULES


def _validate(name, text, type_system, st=None):
    """-> ("ok", [errors]) | ("raise", exc)"""
    from py_gql.lang import parse
    from py_gql.validation import validate_ast

    if st is not None:
        st.n("evaluations")
        st.nt(text)
    try:
        return ("ok", validate_ast(schema(name), parse(text, allow_type_system=type_system)).errors)
    except Exception as e:  # noqa
        return ("raise", e)


def _rule_alone(name, text, type_system, rule):
    from py_gql.lang import parse
    from py_gql.validation import default_validator

    try:
        return list(default_validator(schema(name), parse(text, allow_type_system=type_system), validators=[rule_classes()[rule]]))
    except Exception:  # noqa
        return None


def _firing(name, text, type_system):
    out = []
    for rn in rule_classes():
        r = _rule_alone(name, text, type_system, rn)
        if r:
            out.append(rn)
    return out


def _wit(name, doc, label, tag, variant=None):
    w = {"schema": name, "doc": doc, "label": label, "tag": tag}
    if variant is not None:
        w["variant"] = variant
    return w


def check_base(name, doc, label, tag, st):
    """-> (verdict or None when validation raised, base errors, [(class, witness, detail)])"""
    ts = bool(doc.get("extra"))
    text = O.render(doc)
    out = []
    base = _validate(name, text, ts, st)
    opk = ":".join((tag or "").split(":")[:3])
    if base[0] == "raise":
        if st is not None:
            st.n("validator_raised")
            st.note("validate_ast raises on some documents (counted as validator_raised; reported by C05)")
        return None, [], out
    verdict = bool(base[1])
    if st is not None:
        st.outcome((label is not None, verdict, "base"))
    if label is None and verdict:
        firing = _firing(name, text, ts)
        out.append(("false-positive:%s" % ("+".join(firing) or "unattributed"), _wit(name, doc, label, tag), "valid by construction, rejected: %s :: %s" % (str(base[1][0])[:200], text)))
    if label is not None:
        if not verdict:
            out.append(("missed:%s/%s" % (label, opk), _wit(name, doc, label, tag), "violates %s (%s), accepted :: %s" % (label, tag, text)))
        else:
            alone = _rule_alone(name, text, ts, label)
            if not alone:
                firing = _firing(name, text, ts)
                out.append(("unattributed:%s/%s/by=%s" % (label, opk, "+".join(firing) or "none"), _wit(name, doc, label, tag), "violates %s (%s); rejected, but that rule alone reports nothing: %s :: %s" % (label, tag, str(base[1][0])[:160], text)))
    return verdict, base[1], out


def check_variant(name, doc, label, tag, verdict, base_errors, ttag, vtext, st):
    ts = bool(doc.get("extra"))
    r = _validate(name, vtext, ts, st)
    if r[0] == "raise":
        if st is not None:
            st.n("variant_raised")
        return None
    v2 = bool(r[1])
    if st is not None:
        st.outcome((label is not None, v2, ttag.split(":")[0]))
    if v2 == verdict:
        return None
    text = O.render(doc)
    firing = _firing(name, vtext if v2 else text, ts)
    cls = "verdict-varies:%s/%s/%s" % (ttag.split(":")[0], "valid" if label is None else "invalid", "+".join(firing) or "none")
    detail = "%s: original %s, variant %s (%s) :: %s  ==>  %s" % (
        ttag, "rejected" if verdict else "accepted", "rejected" if v2 else "accepted", str((r[1] or base_errors)[0])[:160], text, vtext)
    return cls, _wit(name, doc, label, tag, {"tag": ttag, "text": vtext}), detail


def evaluate(name, case, label, tag, st, bounds, only=None):
    """label: None (valid by construction) or the rule class name the document violates.
    -> list of (class, witness, detail)"""
    sm = S.SCHEMAS[name]
    doc = case["doc"]
    verdict, base_errors, out = check_base(name, doc, label, tag, st)
    if verdict is None:
        return out
    seen = {O.render(doc)}
    reported = set()
    for ttag, vtext in variants(sm, doc, bounds, only):
        if vtext in seen:
            continue
        seen.add(vtext)
        if st is not None and st.out_of_time():
            break
        r = check_variant(name, doc, label, tag, verdict, base_errors, ttag, vtext, st)
        if r is not None and r[0] not in reported:
            reported.add(r[0])
            out.append(r)
    return out


def check_case(case, st):
    before = st.counters.get("evaluations", 0)
    try:
        return _check_case(case, st)
    finally:
        st.n("evaluations:" + case["k"], st.counters.get("evaluations", 0) - before)


def _check_case(case, st):
    b = BOUNDS[case["t"]]
    k = case["k"]
    st.n("kind:" + k)
    out = []
    if k == "family":
        # small dedicated families (mc.gen.ex_families): by-construction verdict + a restricted closure
        closure = {
            "shape": ("selection-order", "definition-order", "rename-fragments"),
            "argument-order": ("argument-order", "selection-order"),
            "directive-location": ("definition-order",),
            "merged-parents": ("no-closure",),
            "two-usages": ("argument-order", "selection-order", "input-field-order", "definition-order"),
            "shared-fragment-variable": ("definition-order",),
        }[case["family"]]
        for j, (name, tag, label, c) in enumerate(X.FAMILIES[case["family"]]()):
            if case["from"] <= j < case["to"]:
                out.extend(evaluate(name, c, label, tag, st, b, closure))
        return out
    if k == "var-matrix":
        # variable type x position type over 8 wrappers; expected verdict from the specification's
        # IsVariableUsageAllowed (mc.gen.ex_varmatrix); invalid pairs must be attributed to the rule
        for j, (tag, ok, c) in enumerate(V.matrix(case["placement"])):
            if not (case["from"] <= j < case["to"]):
                continue
            _v, _e, got = check_base("W", c["doc"], None if ok else "VariablesInAllowedPositionChecker", tag, st)
            out.extend(got)
        return out
    if k == "valid-hand":
        name, c = M.hand_seeds()[case["i"]]
        return evaluate(name, c, None, None, st, b)
    if k == "valid-base":
        c = _base(case["schema"], case["root"], case["n"], case["idx"])
        if st.counters.get("cases", 0) % 211 == 1:
            st.sample({"expected": "valid", "doc": O.render(c["doc"])})
        return evaluate(case["schema"], c, None, None, st, b)
    if k in ("valid-dev", "valid-hand-dev"):
        if k == "valid-dev":
            name = case["schema"]
            c = _base(name, case["root"], case["n"], case["idx"])
        else:
            name, c = M.hand_seeds()[case["i"]]
        sm = S.SCHEMAS[name]
        for j, dev in enumerate(O.deviations(sm, c["doc"])):
            if "from" in case and not (case["from"] <= j < case["to"]):
                continue
            if k == "valid-hand-dev" and len(c["doc"]["ops"]) > 1 and (dev[0].startswith("dir:") or dev[0].startswith("arg:")) and "var" in dev[0]:
                continue  # variable-introducing deviations declare on the first operation only
            c2 = O.apply(sm, c, dev)
            out.extend(evaluate(name, c2, None, dev[0], st, b))
            if st.out_of_time():
                break
        return out
    if k == "labelled":
        seeds = _labelled_seeds(b["labelled_seed_nodes"])
        name, seed = seeds[case["seed"]]
        sm = S.SCHEMAS[name]
        multi_done = set()
        for j, (_op, rule, tag, c) in enumerate(M.all_mutants(sm, seed, labelled_only=True)):
            if j < case["from"]:
                # (kinds already covered by an earlier chunk of this seed)
                multi_done.add(":".join(tag.split(":")[:3]))
                continue
            if j >= case["to"]:
                break
            if ":four:" in tag and not b["four_field_conflicts"]:
                continue
            if st.counters.get("evaluations", 0) % 2999 == 1:
                st.sample({"expected": rule, "mutation": tag, "doc": O.render(c["doc"])})
            only = ("definition-order", "selection-order", "rename-fragments", "collide:fragment") if tag.startswith("conflict-among-several") else None
            if tag.startswith("dup-input-field"):
                only = ("input-field-order", "argument-order", "trivia")
            out.extend(evaluate(name, c, rule, tag, st, b, only))
            # the same violation in the 2nd / 3rd operation of a document whose earlier operations
            # are valid and already use the shared fragments (once per operator kind and seed)
            kind3 = ":".join(tag.split(":")[:3])
            if rule in M.PER_OPERATION_RULES and kind3 not in multi_done and not tag.startswith("conflict-among-several"):
                multi_done.add(kind3)
                for n_earlier in b["earlier_operations"]:
                    c2 = M.with_earlier_operations(sm, seed, c, n_earlier)
                    if c2 is not None:
                        st.n("multi_operation_documents")
                        out.extend(evaluate(name, c2, rule, tag + ":earlier-operations:%d" % n_earlier, st, b, ("definition-order", "collide:operation")))
            if st.out_of_time():
                break
        return out
    raise ValueError(k)


def replay(witness):
    name, doc, label, tag = witness["schema"], witness["doc"], witness.get("label"), witness.get("tag")
    verdict, base_errors, got = check_base(name, doc, label, tag, None)
    if "variant" not in witness:
        return [(cls, detail) for cls, _w, detail in got]
    if verdict is None:
        return []
    v = witness["variant"]
    r = check_variant(name, doc, label, tag, verdict, base_errors, v["tag"], v["text"], None)
    return [(r[0], r[2])] if r is not None else []


def selftest():
    V.selftest()
    # every rule of the specification has at least one labelled operator
    missing = set(rule_classes()) - set(M.RULES)
    assert not missing, "rules without a labelled operator: %s" % sorted(missing)
    # renaming and re-spelling keep a document parseable and the variants differ from the original
    from py_gql.lang import parse

    name, c = M.hand_seeds()[0]
    n = 0
    for _t, text in variants(S.SCHEMAS[name], c["doc"], BOUNDS["quick"]):
        parse(text)
        n += 1
    assert n > 20, n
