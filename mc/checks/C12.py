# -*- coding: utf-8 -*-
"""
C12 -- schema -> SDL -> schema is the identity; printing is history-independent.

Two engines.

E3 (round trip).  Every schema model with <= K features switched on (mc/gen/schemas.py) is built three
ways -- from SDL written by our own emitter, through the py_gql.schema constructors, and through the
constructors with code-only facets (enum internal values != names, python_names, a scalar with its own
value type) -- and for every printer option set

    t1 = s.to_string(opts)              # printed in a freshly forked child: first print call of its process
    parse(t1, allow_type_system=True)
    s2 = build_schema(t1);  sm_from_schema(s2) == sm_from_schema(s)  (modulo what opts leaves out)
    t2 = s2.to_string(opts)             # again in a freshly forked child
    t2 == t1

The worker itself never calls the printer: every to_string call of this check happens in a child
forked from a process that has never printed, so E3 verdicts do not depend on which cases a worker ran
before, and history effects are reported by E2 only.

E2 (history exploration, the model-checking part).  State = the history of print calls made in a
process.  From the pristine state every sequence of <= D actions is executed on the real
implementation, one fresh forked child per sequence; an action is (schema i, option set j) from a menu
of 2 schemas x 6 option sets; the same exploration is repeated after a graphql_blocking prelude and
after a transform_schema prelude.  Invariant: the text returned by the k-th call equals the text the
same action returns as the first call of a fresh process.  No state merging (the position of a
module-level generator is not observable), so states == histories.
"""
import json
import os
import sys

from mc.gen import schemas as G
from mc.ref import schema_model as M

READY = True
LEVEL = "model_checking"
TECHNIQUE = "explicit-state exploration of print-call histories (one forked process per history) + bounded-exhaustive round trips of generated schemas against a plain-data schema model"
LEVEL_TEXT = (
    "History clause: every sequence of print calls up to the depth bound is executed on the real printer in its own "
    "forked process and compared with the first-call output (all traces are implementation executions). Round-trip "
    "clause: every schema model inside the feature bound x every option set is printed, re-built and re-printed; "
    "structure is compared through an independent extractor. Exhaustive inside the bounds."
)
LEVEL_NOTE = (
    "Trusts os.fork to give each history a process in which no print call happened (self-tested against a brand-new "
    "interpreter), the extractor mc/ref/schema_model.sm_from_schema (public attributes only) and, for SDL-built inputs, "
    "our own SDL emitter. py_gql.lang.parse is trusted to reject non-GraphQL text (C01)."
)
DESIGN_REF = "DESIGN.md section 6, C12"
RULE = (
    "E3 cases = (feature set with <= K features, route in sdl|code|code+) x option sets (full grid 3 indents x descriptions x "
    "introspection x custom directives {False,True,['foo']} for the smallest sets, a 6-entry menu and a 3-entry menu for larger ones, see bounds); evaluation = one "
    "print/re-build/re-print of one (schema, options); non-trivial = distinct printed text on which both the printer and the "
    "rebuilt extractor ran. E2 cases = (prelude, first action[, second action]); each explores every continuation up to depth D (thorough: one level deeper for histories that stay on one schema); state = "
    "distinct history, transition = one to_string call, execution = one forked child."
)
ASSUMPTIONS = [
    "descriptions have lines <= 60 characters (the property excludes re-wrapped lines)",
    "with include_descriptions=False descriptions are not compared; applied custom directives are not part of the structural comparison (the re-print comparison covers them)",
    "code-only facets (enum internal values, python_name) cannot survive SDL; after a round trip defaults are compared in their external form (enum names, field names)",
    "schemas whose SDL form the builder cannot build at all (C11 findings: recursive input types, Int bounds) are exercised through the code routes only",
    "history preludes: graphql_blocking of `{ a __typename }` and of the introspection query; transform_schema with an identity VisibilitySchemaTransform",
]
BOUNDS = {
    "quick": {"features_full_grid": 1, "features_menu6": 2, "features_menu3": 0, "history_depth": 3, "history_depth_one_schema": 3, "history_actions": 12, "preludes": 3},
    "thorough": {"features_full_grid": 1, "features_menu6": 2, "features_menu3": 3, "history_depth": 3, "history_depth_one_schema": 4, "history_actions": 12, "preludes": 3},
}
TIME_CAP = {"quick": 150, "thorough": 1500}

# ---------------------------------------------------------------------------------------------
# option sets

INDENTS = [4, 2, "\t"]
CUSTOM = [False, True, ["foo"]]


def _opt(indent=4, desc=True, intro=False, custom=False):
    return {"indent": indent, "desc": desc, "intro": intro, "custom": custom}


FULL_GRID = [_opt(i, d, n, c) for c in CUSTOM for n in (False, True) for d in (True, False) for i in INDENTS]
MENU_SMALL = [_opt(), _opt(custom=True), _opt(intro=True, desc=False)]
MENU = [
    _opt(),
    _opt(custom=True),
    _opt(custom=["foo"]),
    _opt(desc=False),
    _opt(indent=2, custom=True),
    _opt(intro=True),
]


def _kwargs(o):
    return dict(
        indent=o["indent"],
        include_descriptions=o["desc"],
        include_introspection=o["intro"],
        include_custom_schema_directives=o["custom"],
    )


def opt_label(o):
    """Projection used in class keys: which non-default facilities are on (indent never matters)."""
    parts = []
    if o["custom"]:
        parts.append("custom")
    if not o["desc"]:
        parts.append("nodesc")
    if o["intro"]:
        parts.append("introspection")
    return "+".join(parts) or "default"


# ---------------------------------------------------------------------------------------------
# forked children


def exc_where(e):
    """name of the innermost py_gql function on the traceback (not for stack overflows)."""
    if isinstance(e, RecursionError):
        return ""
    import traceback

    where = ""
    for fr in traceback.extract_tb(e.__traceback__):
        if "py_gql" in fr.filename.replace("\\", "/"):
            where = fr.name
    return ("@" + where) if where else ""


def in_child(fn):
    """Run fn() in a forked child; return its JSON-able result (or {"child_exc": ...})."""
    r, w = os.pipe()
    sys.stdout.flush()
    sys.stderr.flush()
    pid = os.fork()
    if pid == 0:
        code = 0
        try:
            os.close(r)
            try:
                res = {"ok": fn()}
            except BaseException as e:  # noqa
                res = {"child_exc": type(e).__name__, "msg": str(e)[:300], "where": exc_where(e)}
            data = json.dumps(res).encode("utf-8", "surrogatepass")
            with os.fdopen(w, "wb") as f:
                f.write(data)
        except BaseException:  # noqa
            code = 3
        finally:
            os._exit(code)
    os.close(w)
    chunks = []
    with os.fdopen(r, "rb") as f:
        while True:
            b = f.read(65536)
            if not b:
                break
            chunks.append(b)
    os.waitpid(pid, 0)
    raw = b"".join(chunks)
    if not raw:
        return {"child_exc": "ChildDied", "msg": "no output from forked child"}
    return json.loads(raw.decode("utf-8", "surrogatepass"))


def print_in_child(schema, o):
    """-> ("ok", text) | ("raises", ExcName, msg)"""
    res = in_child(lambda: schema.to_string(**_kwargs(o)))
    if "ok" in res:
        return ("ok", res["ok"])
    return ("raises", res["child_exc"] + res.get("where", ""), res["msg"])


# ---------------------------------------------------------------------------------------------
# building the schemas of a case

ROUTES = ("sdl", "code", "code+")
_LIB_ERRORS = None


def _lib_errors():
    global _LIB_ERRORS
    if _LIB_ERRORS is None:
        from py_gql import exc

        _LIB_ERRORS = (exc.SDLError, exc.SchemaError, exc.GraphQLSyntaxError, exc.InvalidValue)
    return _LIB_ERRORS


def make_schema(features, route, applied_first=False):
    """-> (schema | None, sm used as oracle after a round trip, note)"""
    from py_gql import build_schema

    sm = G.build_sm(features)
    if route == "sdl":
        text = M.sm_to_sdl(sm, applied_first=applied_first)
        try:
            return build_schema(text), sm, None
        except RecursionError:
            return None, sm, "sdl-unbuildable:RecursionError"
        except Exception as e:  # noqa -- C11 territory
            return None, sm, "sdl-unbuildable:%s" % type(e).__name__
    smc = G.with_internals(sm) if route == "code+" else sm
    # applied directives need AST nodes: the code routes cannot carry them
    s = M.sm_to_code(smc)
    s.validate()
    return s, sm, None


def _strip_desc(n):
    import copy

    n = copy.deepcopy(n)

    def rec(x):
        if isinstance(x, dict):
            if "description" in x:
                x["description"] = None
            for v in x.values():
                rec(v)
        elif isinstance(x, list):
            for v in x:
                rec(v)

    rec(n)
    return n


_CTX = {}


def rt_eval(features, route, o, st=None):
    """One round trip. -> list of (class, detail)."""
    from py_gql import build_schema
    from py_gql.lang import parse

    out = []
    key = (tuple(features), route)
    if _CTX.get("key") != key:
        _CTX.clear()
        _CTX["key"] = key
        s, sm, note = make_schema(features, route)
        _CTX["v"] = (s, sm, note, M.sm_from_schema(s) if s is not None else (None, None))
        if s is not None and route != "sdl" and st is not None:
            # the code route must realise the model (otherwise the harness, not the printer, is off)
            want = M.sm_expected(G.with_internals(sm) if route == "code+" else sm)
            d0 = M.sm_diff(want, _CTX["v"][3][0])
            if d0:
                st.n("code_route_differs_from_model:" + d0[0][0])
        if s is not None and route != "sdl":
            # a model the constructors cannot express (e.g. deprecated with an empty reason) is left to the sdl route
            want = M.sm_expected(G.with_internals(sm) if route == "code+" else sm)
            _CTX["skip"] = bool(M.sm_diff(want, _CTX["v"][3][0]))
    s, sm, note, (base, bad) = _CTX["v"]
    if s is None:
        if st is not None:
            st.n(note)
        return out
    if _CTX.get("skip"):
        return out
    if st is not None:
        st.n("evaluations")
    rsfx = "/route=code+" if route == "code+" else ""
    r1 = print_in_child(s, o)
    if r1[0] != "ok":
        return [("print-raises:%s%s" % (r1[1], rsfx), "to_string(%s) raised %s: %s" % (o, r1[1], r1[2]))]
    t1 = r1[1]
    if st is not None:
        st.nt(t1)
        st.outcome(t1)
    try:
        parse(t1, allow_type_system=True)
    except Exception as e:  # noqa
        pos = getattr(e, "position", None)
        import re

        # mechanical facet: is there a block string whose closing quotes directly follow a backslash?
        after = "backslash-before-closing-quotes" if re.search(r'\\"""[ \t]*\n', t1) else "elsewhere"
        return [("text-does-not-parse:%s/%s" % (type(e).__name__, after), "%s on %r" % (str(e)[:200], t1[:600]))]
    try:
        s2 = build_schema(t1)
    except RecursionError:
        return [("rebuild-raises:RecursionError", "build_schema(printed text) overflowed the stack; text %r" % t1[:400])]
    except Exception as e:  # noqa
        return [
            (
                "rebuild-raises:%s%s%s%s" % (type(e).__name__, exc_where(e), "/opts=introspection" if o["intro"] else "", rsfx),
                "%s; text %r" % (str(e)[:200], t1[:400]),
            )
        ]
    got, bad2 = M.sm_from_schema(s2)
    # what the round trip must preserve
    if route == "code+":
        exp = M.sm_expected(sm)  # external form of the same model
    else:
        exp = base
    ignore = ()
    if route != "sdl":
        ignore = ("python_name",)
    if not o["desc"]:
        exp = _strip_desc(exp)
    seen = set()
    for what, path, e, g in M.sm_diff(exp, got, ignore=ignore):
        cls = "roundtrip-differs:" + what
        if what.endswith(".default") or what.endswith(".has_default"):
            cls += M.default_detail(sm, path)
        cls += rsfx
        if cls in seen:
            continue
        seen.add(cls)
        out.append((cls, "%s at %s: before %r after %r; printed: %r" % (what, path, e, g, t1[:500])))
    if bad2:
        out.append(("roundtrip-identity", "rebuilt schema has dangling references: %s" % bad2[:4]))
    r2 = print_in_child(s2, o)
    if r2[0] != "ok":
        out.append(("reprint-raises:%s%s" % (r2[1], rsfx), r2[2]))
    elif r2[1] != t1 and not out:
        # (a structural difference already explains a different second text)
        out.append(("not-fixpoint/%s%s" % (diff_facet(t1, r2[1]), rsfx), "options %s: first %r second %r" % ((opt_label(o),) + _first_diff(t1, r2[1]))))
    return out


def diff_facet(a, b):
    """What kind of text differs between two prints (mechanical; used in class keys)."""
    import collections
    import re

    ca = collections.Counter(re.findall(r"@([A-Za-z_]+)", a))
    cb = collections.Counter(re.findall(r"@([A-Za-z_]+)", b))
    names = sorted({("@" + n) if n in M.BUILTIN_DIRECTIVES else "@custom" for n in set(ca) | set(cb) if ca[n] != cb[n]})
    parts = []
    if names:
        parts.append("applied-directives:" + ",".join(names))
    if len(re.findall(r"(?m)^schema\b", a)) != len(re.findall(r"(?m)^schema\b", b)):
        parts.append("schema-definition")
    if not parts:
        if a.split() == b.split():
            parts.append("whitespace")
        elif _strip_default_literals(a) == _strip_default_literals(b):
            parts.append("default-literal")
        else:
            parts.append("other")
    return "+".join(parts)


def _strip_default_literals(text):
    """Remove every ` = <constant value>` (own scanner: strings, brackets, braces)."""
    out = []
    i, n = 0, len(text)
    while i < n:
        if text.startswith(" = ", i):
            j = i + 3
            depth = 0
            while j < n:
                c = text[j]
                if c == '"':
                    j += 1
                    while j < n and text[j] != '"':
                        j += 2 if text[j] == "\\" else 1
                elif c in "[{":
                    depth += 1
                elif c in "]}":
                    depth -= 1
                elif depth == 0 and (c in ",)\n" or text.startswith(" @", j)):
                    break
                j += 1
            i = j
            continue
        out.append(text[i])
        i += 1
    return "".join(out)


def _first_diff(a, b):
    i = 0
    while i < min(len(a), len(b)) and a[i] == b[i]:
        i += 1
    lo = max(0, a.rfind("\n", 0, i))
    return a[lo : i + 60], b[lo : i + 60]


# ---------------------------------------------------------------------------------------------
# E2: histories

HIST_SCHEMAS = [
    # exactly one directive application in the whole schema (a bare @deprecated)
    {"features": ["dep:all", "dir:def", "desc:one"], "applied_first": False},
    {"features": ["k:input", "dep:enum", "dep:field", "dir:applied"], "applied_first": True},
]
PRELUDES = ["none", "graphql", "transform"]
ACTIONS = [[i, j] for i in range(len(HIST_SCHEMAS)) for j in range(len(MENU))]


_HS = []


def _hist_schemas():
    """Built once per process (building never prints); forked children inherit never-printed copies."""
    if not _HS:
        for h in HIST_SCHEMAS:
            s, _, note = make_schema(h["features"], "sdl", applied_first=h["applied_first"])
            assert s is not None, note
            _HS.append(s)
    return _HS


def _run_prelude(prelude, schemas):
    if prelude == "graphql":
        from py_gql import graphql_blocking
        from py_gql.utilities import introspection_query

        for s in schemas:
            graphql_blocking(s, "{ a __typename }", root={"a": 1}).response()
            graphql_blocking(s, introspection_query()).response()
    elif prelude == "transform":
        from py_gql.schema.transforms import VisibilitySchemaTransform, transform_schema

        for s in schemas:
            transform_schema(s, VisibilitySchemaTransform())


def run_history(prelude, seq):
    """Execute one history in a fresh forked child -> list of outputs (text or ["raises", exc])."""

    schemas = _hist_schemas()

    def body():
        _run_prelude(prelude, schemas)
        outs = []
        for i, j in seq:
            try:
                outs.append(schemas[i].to_string(**_kwargs(MENU[j])))
            except Exception as e:  # noqa
                outs.append(["raises", type(e).__name__, str(e)[:200]])
        return outs

    res = in_child(body)
    if "ok" not in res:
        return None, res
    return res["ok"], None


_REF = {}


def reference(action):
    key = tuple(action)
    if key not in _REF:
        outs, err = run_history("none", [list(action)])
        _REF[key] = outs[0] if outs is not None else ["harness", err]
    return _REF[key]


def _classify_history(prelude, seq, k):
    """Mechanical minimisation: smallest earlier context that makes call k differ."""
    act = seq[k]
    lab = opt_label(MENU[act[1]])
    # a single earlier call, without the prelude
    for j in range(k):
        outs, _ = run_history("none", [seq[j], act])
        if outs is not None and outs[1] != reference(act):
            return "history:%s->%s" % (opt_label(MENU[seq[j][1]]), lab)
    if prelude != "none":
        outs, _ = run_history(prelude, [act])
        if outs is not None and outs[0] != reference(act):
            return "history:after-%s->%s" % (prelude, lab)
        for j in range(k):
            outs, _ = run_history(prelude, [seq[j], act])
            if outs is not None and outs[1] != reference(act):
                return "history:after-%s+%s->%s" % (prelude, opt_label(MENU[seq[j][1]]), lab)
    return "history:%s->%s" % ("+".join(opt_label(MENU[a[1]]) for a in seq[:k]), lab)


def hist_eval(prelude, seq, st=None):
    """Run one history, compare every call with the pristine reference. -> [(class, detail, k)]"""
    outs, err = run_history(prelude, seq)
    if st is not None:
        st.n("executions")
        st.n("states")
        st.n("transitions", len(seq))
        st.n("evaluations", len(seq))
    if outs is None:
        return [("history-harness:%s" % err.get("child_exc"), str(err), 0)]
    res = []
    for k, o in enumerate(outs):
        ref = reference(seq[k])
        if st is not None:
            st.outcome(json.dumps(o))
        if o != ref:
            if isinstance(o, list):
                detail = "call %d raised %s" % (k, o[1:])
            else:
                detail = "call %d (%s on schema %d) after %s: pristine %r, now %r" % ((k, opt_label(MENU[seq[k][1]]), seq[k][0], [opt_label(MENU[a[1]]) for a in seq[:k]]) + _first_diff(ref if isinstance(ref, str) else "", o))
            res.append((None, detail, k))
            break  # later calls of this history are reported by the histories that extend the prefix
    return res


# ---------------------------------------------------------------------------------------------
# cases


def cases(tier):
    b = BOUNDS[tier]
    # E2 first: few cases, each heavy -- spreads over the workers
    for prelude in PRELUDES:
        for a in ACTIONS:
            yield {"kind": "hist", "prelude": prelude, "first": a, "depth": b["history_depth"], "same_schema_from": b["history_depth"]}
    if b["history_depth_one_schema"] > b["history_depth"]:
        # one level deeper, but only histories that stay on one schema
        for prelude in PRELUDES:
            for a in ACTIONS:
                for a2 in ACTIONS:
                    if a2[0] == a[0]:
                        yield {"kind": "hist", "prelude": prelude, "first": a, "second": a2, "depth": b["history_depth_one_schema"], "same_schema_from": 0}
    top = max(b["features_full_grid"], b["features_menu6"], b["features_menu3"])
    for fs in G.feature_sets(top):
        if len(fs) <= b["features_full_grid"]:
            grid, routes = "full", ROUTES
        elif len(fs) <= b["features_menu6"]:
            grid, routes = "menu6", ("sdl", "code+")
        else:
            grid, routes = "menu3", ("sdl-or-code+",)
        for route in routes:
            yield {"kind": "rt", "features": fs, "route": route, "grid": grid}


def _extend(seq, depth, same_schema=False, min_len=1):
    if len(seq) >= min_len:
        yield seq
    if len(seq) < depth:
        for a in ACTIONS:
            if same_schema and a[0] != seq[0][0]:
                continue
            for x in _extend(seq + [a], depth, same_schema, min_len):
                yield x


def check_case(case, st):
    out = []
    if case["kind"] == "hist":
        st.n("tag:history-case")
        found = {}
        if "second" in case:
            # only the histories longer than the all-schema bound (the shorter ones are covered there)
            it = _extend([case["first"], case["second"]], case["depth"], same_schema=True, min_len=case["depth"])
        else:
            it = _extend([case["first"]], case["depth"])
        for seq in it:
            if st.out_of_time():
                break
            for _, detail, k in hist_eval(case["prelude"], seq, st):
                # classify once per (labels of the history) to keep the number of extra forks small
                key = (tuple(opt_label(MENU[a[1]]) for a in seq[: k + 1]), case["prelude"])
                if key not in found:
                    found[key] = _classify_history(case["prelude"], seq, k)
                out.append((found[key], {"kind": "hist", "prelude": case["prelude"], "seq": seq, "k": k}, detail))
        st.mx("history_depth", case["depth"])
        return out
    st.n("tag:roundtrip-case")
    if case["route"] == "sdl-or-code+":
        # largest sets: one route only -- the SDL one, or the code one when the builder rejects the SDL (C11 findings)
        case = dict(case, route="sdl" if make_schema(case["features"], "sdl")[0] is not None else "code+")
    st.n("route:" + case["route"])
    opts = {"full": FULL_GRID, "menu6": MENU, "menu3": MENU_SMALL}[case["grid"]]
    if st.counters.get("cases", 0) % 211 == 1:
        st.sample({"features": case["features"], "route": case["route"], "options": len(opts)})
    for o in opts:
        if st.out_of_time():
            break
        for cls, detail in rt_eval(case["features"], case["route"], o, st):
            out.append((cls, {"kind": "rt", "features": case["features"], "route": case["route"], "opt": o}, detail))
    return out


def replay(witness):
    if witness["kind"] == "hist":
        res = hist_eval(witness["prelude"], witness["seq"], None)
        out = []
        for _, detail, k in res:
            if k == witness.get("k", k):
                out.append((_classify_history(witness["prelude"], witness["seq"], k), detail))
        return out
    return rt_eval(witness["features"], witness["route"], witness["opt"], None)


# ---------------------------------------------------------------------------------------------


def selftest():
    M.selftest()
    G.selftest()
    # forked children are as pristine as a brand-new interpreter
    import subprocess

    code = (
        "import json,sys\n"
        "from mc.checks import C12\n"
        "s=C12._hist_schemas()[1]\n"
        "sys.stdout.write(json.dumps(s.to_string(**C12._kwargs(C12.MENU[1]))))\n"
    )
    fresh = json.loads(subprocess.check_output([sys.executable, "-c", code], env=dict(os.environ)).decode())
    assert reference([1, 1]) == fresh, "forked child differs from a fresh interpreter (custom directives)"
