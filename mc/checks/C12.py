# -*- coding: utf-8 -*-
"""
C12 -- schema -> SDL -> schema is the identity; printing is history-independent.

Two engines.

E3 (round trip).  Every schema model of the feature enumeration (mc/gen/schemas.py: <= K core features, every
string / description content class alone and on every element kind) is built three ways -- from SDL
written by our own emitter, through the py_gql.schema constructors, and through the constructors with
code-only facets (enum internal values != names, python_names, a scalar with its own value type) -- and for
every printer option set

    t1 = s.to_string(opts);  parse(t1, allow_type_system=True)
    s2 = build_schema(t1);   sm_from_schema(s2) == sm_from_schema(s)  (modulo what opts leaves out)
    t2 = s2.to_string(opts); t2 == t1

These prints run in the worker process itself (no fork): history independence is decided by E2; a
history-dependent printer can additionally show up here as round-trip violations.

E2 (history exploration, the model-checking part).  State = the history of print calls made in a
process.  An action prints one schema of a *group* with one option set ("P"), or re-builds a schema of the
group from its printed text and prints that ("R").  Groups: `base` (two unrelated schemas, 6 option sets) and
one group per *homonym aspect*: two schemas with the same type / field / argument / directive names that
differ in exactly one aspect (enum internal values behind equal python defaults, a default value, a
description, a deprecation reason, a wrapper, member order, a directive's locations, root type names).
Every sequence of the stated depth is executed on the real implementation in its own process and the
invariant is checked on every call of it: the text returned by the k-th call equals the text the same
action returns as the first print call of a fresh process.  Only maximal sequences are executed (their
prefixes are checked on the way).  No state merging, so states == distinct histories.

Pristine processes: each worker spawns (not forks) one small *zygote* interpreter that imports py_gql,
builds the group schemas and never prints; per history the zygote forks one grandchild.  quick needs about
2 700 forks of that small process.
"""
import json
import os
import sys

from mc.gen import schemas as G
from mc.ref import schema_model as M

READY = True
LEVEL = "model_checking"
TECHNIQUE = "explicit-state exploration of print-call histories (one forked process per history) + bounded-exhaustive round trips of generated schemas against a plain-data schema model"
LEVEL_TEXT = (
    "History clause: every sequence of print calls up to the depth bound is executed on the real printer in its own "
    "forked process and compared with the first-call output (all traces are implementation executions). Round-trip "
    "clause: every schema model inside the feature bound x every option set is printed, re-built and re-printed; "
    "structure is compared through an independent extractor. Exhaustive inside the bounds."
)
LEVEL_NOTE = (
    "Trusts a freshly spawned interpreter that never prints (the zygote) and os.fork from it to give each history a process "
    "in which no print call happened, the extractor mc/ref/schema_model.sm_from_schema (public attributes only) and, for SDL-built inputs, "
    "our own SDL emitter. py_gql.lang.parse is trusted to reject non-GraphQL text (C01)."
)
DESIGN_REF = "DESIGN.md section 6, C12"
RULE = (
    "E3 cases = (feature set, route in sdl|code|code+) x option sets (full grid 3 indents x descriptions x introspection x "
    "custom directives {False,True,['foo']} for <= 1 feature, a 6-entry menu for 2, a 3-entry menu for 3); evaluation = one "
    "print/re-build/re-print of one (schema, options); non-trivial = distinct printed text on which both the printer and the "
    "rebuilt extractor ran. E2 cases = (group, prelude, plan, first action); each executes every maximal sequence of the plan "
    "(same-schema / cross-schema / all actions / default-option prints and rebuilds) in its own pristine process; state = "
    "distinct history (prefix), transition = one to_string call, execution = one forked grandchild."
)
ASSUMPTIONS = [
    "descriptions have lines <= 60 characters (the property excludes re-wrapped lines)",
    "with include_descriptions=False descriptions are not compared; applied custom directives are not part of the structural comparison (the re-print comparison covers them)",
    "code-only facets (enum internal values, python_name) cannot survive SDL; after a round trip defaults are compared in their external form (enum names, field names)",
    "schemas whose SDL form the builder cannot build at all are exercised through the code routes only",
    "history preludes: graphql_blocking of `{ a __typename }` and of the introspection query; transform_schema with an identity VisibilitySchemaTransform",
    "route code-1 (list-typed defaults given as a single unwrapped value) checks printability and the structural round trip, not the text fixpoint: the rebuilt schema holds the one-item list",
    "round-trip prints happen in the worker process: on a tree whose printer is history-dependent their verdicts may depend on the cases the worker ran before (the history part does not)",
]
BOUNDS = {
    "quick": {
        "features_full_grid": 1, "features_menu6": 2, "features_menu3": 0,
        "base_all_depth": 0, "base_same_schema_depth": 3, "base_cross_depth": 2, "preludes": 3,
        "homonym_aspects": 8, "homonym_all_depth": 2, "homonym_default_depth": 3, "homonym_preludes": 1, "homonym_triples": False,
    },
    "thorough": {
        "features_full_grid": 1, "features_menu6": 2, "features_menu3": 3,
        "base_all_depth": 3, "base_same_schema_depth": 4, "base_cross_depth": 0, "preludes": 3,
        "homonym_aspects": 8, "homonym_all_depth": 3, "homonym_default_depth": 0, "homonym_preludes": 1, "homonym_triples": True,
    },
}
TIME_CAP = {"quick": 150, "thorough": 1500}

# ---------------------------------------------------------------------------------------------
# option sets

INDENTS = [4, 2, "\t"]
CUSTOM = [False, True, ["foo"]]


def _opt(indent=4, desc=True, intro=False, custom=False):
    return {"indent": indent, "desc": desc, "intro": intro, "custom": custom}


FULL_GRID = [_opt(i, d, n, c) for c in CUSTOM for n in (False, True) for d in (True, False) for i in INDENTS]
MENU_SMALL = [_opt(), _opt(custom=True), _opt(intro=True, desc=False)]
MENU = [
    _opt(),
    _opt(custom=True),
    _opt(custom=["foo"]),
    _opt(desc=False),
    _opt(indent=2, custom=True),
    _opt(intro=True),
]


def _kwargs(o):
    return dict(
        indent=o["indent"],
        include_descriptions=o["desc"],
        include_introspection=o["intro"],
        include_custom_schema_directives=o["custom"],
    )


def opt_label(o):
    """Projection used in class keys: which non-default facilities are on (indent never matters)."""
    parts = []
    if o["custom"]:
        parts.append("custom")
    if not o["desc"]:
        parts.append("nodesc")
    if o["intro"]:
        parts.append("introspection")
    return "+".join(parts) or "default"


# ---------------------------------------------------------------------------------------------
# pristine processes for histories: a small zygote, one grandchild per history


def exc_where(e):
    """name of the innermost py_gql function on the traceback (not for stack overflows)."""
    if isinstance(e, RecursionError):
        return ""
    import traceback

    where = ""
    for fr in traceback.extract_tb(e.__traceback__):
        if "py_gql" in fr.filename.replace("\\", "/"):
            where = fr.name
    return ("@" + where) if where else ""


def zygote_main():
    """Runs in a brand-new interpreter (spawned, not forked, by each worker on first use).

    Imports py_gql and this module, builds the schemas of a history group on first request (building never
    prints) and then, for every request line on stdin, forks ONE grandchild that executes that history
    and writes one JSON line to stdout.  The zygote itself never calls the printer, so every grandchild
    starts with pristine module state; it stays small (nothing but py_gql and the menu schemas), which
    keeps fork cheap where fork cost grows with the size of the process.
    """
    import logging
    import warnings

    logging.disable(logging.CRITICAL)
    warnings.simplefilter("ignore")
    sys.setrecursionlimit(3000)
    out = os.fdopen(os.dup(1), "wb", buffering=0)
    for line in sys.stdin:
        line = line.strip()
        if not line:
            continue
        req = json.loads(line)
        if req.get("op") == "ping":
            out.write((json.dumps({"ok": "pong", "pid": os.getpid()}) + "\n").encode())
            continue
        try:
            schemas = group_schemas(req["g"])
        except BaseException as e:  # noqa
            out.write((json.dumps({"err": "group: %s: %s" % (type(e).__name__, str(e)[:200])}) + "\n").encode())
            continue
        pid = os.fork()
        if pid == 0:
            code = 0
            try:
                try:
                    res = {"ok": _execute_history(schemas, req)}
                except BaseException as e:  # noqa
                    res = {"err": "%s%s: %s" % (type(e).__name__, exc_where(e), str(e)[:200])}
                out.write((json.dumps(res) + "\n").encode("utf-8", "surrogatepass"))
            except BaseException:  # noqa
                code = 3
            finally:
                os._exit(code)
        _, status = os.waitpid(pid, 0)
        if status != 0:
            out.write((json.dumps({"err": "grandchild died with status %d" % status}) + "\n").encode())


_Z = {}


def _zygote():
    import subprocess

    z = _Z.get("z")
    if z is not None and _Z.get("pid") == os.getpid() and z.poll() is None:
        return z
    z = subprocess.Popen(
        [sys.executable, "-c", "from mc.checks.C12 import zygote_main; zygote_main()"],
        stdin=subprocess.PIPE,
        stdout=subprocess.PIPE,
        env=dict(os.environ),
        close_fds=True,
    )
    _Z["z"] = z
    _Z["pid"] = os.getpid()
    return z


FORKS = [0]


def zygote_request(req):
    for attempt in (0, 1):
        z = _zygote()
        try:
            z.stdin.write((json.dumps(req) + "\n").encode("utf-8", "surrogatepass"))
            z.stdin.flush()
            line = z.stdout.readline()
            if line:
                FORKS[0] += 1
                return json.loads(line.decode("utf-8", "surrogatepass"))
        except (BrokenPipeError, OSError):
            pass
        _Z.pop("z", None)
    return {"err": "zygote unavailable"}


# ---------------------------------------------------------------------------------------------
# building the schemas of a case

ROUTES = ("sdl", "code", "code+")  # + "code-rev" / "code-rot": plain code route, default dicts keyed in reversed / rotated order
_LIB_ERRORS = None


def _lib_errors():
    global _LIB_ERRORS
    if _LIB_ERRORS is None:
        from py_gql import exc

        _LIB_ERRORS = (exc.SDLError, exc.SchemaError, exc.GraphQLSyntaxError, exc.InvalidValue)
    return _LIB_ERRORS


def _print(schema, o):
    """-> ("ok", text) | ("raises", ExcName@where, msg)   (in this process: see the module docstring)"""
    try:
        return ("ok", schema.to_string(**_kwargs(o)))
    except RecursionError as e:
        return ("raises", "RecursionError", str(e)[:200])
    except Exception as e:  # noqa
        return ("raises", type(e).__name__ + exc_where(e), str(e)[:300])


def make_schema(features, route, applied_first=False):
    """-> (schema | None, sm used as oracle after a round trip, note)"""
    from py_gql import build_schema

    sm = G.build_sm(features)
    if route == "sdl":
        text = M.sm_to_sdl(sm, applied_first=applied_first)
        try:
            return build_schema(text), sm, None
        except RecursionError:
            return None, sm, "sdl-unbuildable:RecursionError"
        except Exception as e:  # noqa -- C11 territory
            return None, sm, "sdl-unbuildable:%s" % type(e).__name__
    smc = G.with_internals(sm) if route == "code+" else sm
    # applied directives need AST nodes: the code routes cannot carry them
    s = M.sm_to_code(smc, key_order={"code-rev": "reversed", "code-rot": "rotated"}.get(route), unwrapped_singles=(route == "code-1"))
    s.validate()
    return s, sm, None


def _strip_desc(n):
    import copy

    n = copy.deepcopy(n)

    def rec(x):
        if isinstance(x, dict):
            if "description" in x:
                x["description"] = None
            for v in x.values():
                rec(v)
        elif isinstance(x, list):
            for v in x:
                rec(v)

    rec(n)
    return n


_CTX = {}


def rt_eval(features, route, o, st=None):
    """One round trip. -> list of (class, detail)."""
    from py_gql import build_schema
    from py_gql.lang import parse

    out = []
    key = (tuple(features), route)
    if _CTX.get("key") != key:
        _CTX.clear()
        _CTX["key"] = key
        s, sm, note = make_schema(features, route)
        _CTX["v"] = (s, sm, note, M.sm_from_schema(s) if s is not None else (None, None))
        if s is not None and route not in ("sdl", "code-1") and st is not None:
            # the code route must realise the model (otherwise the harness, not the printer, is off)
            want = M.sm_expected(G.with_internals(sm) if route == "code+" else sm)
            d0 = M.sm_diff(want, _CTX["v"][3][0])
            if d0:
                st.n("code_route_differs_from_model:" + d0[0][0])
        if s is not None and route not in ("sdl", "code-1"):
            # a model the constructors cannot express (e.g. deprecated with an empty reason) is left to the sdl route
            want = M.sm_expected(G.with_internals(sm) if route == "code+" else sm)
            _CTX["skip"] = bool(M.sm_diff(want, _CTX["v"][3][0]))
    s, sm, note, (base, bad) = _CTX["v"]
    if s is None:
        if st is not None:
            st.n(note)
        return out
    if _CTX.get("skip"):
        return out
    if st is not None:
        st.n("evaluations")
    rsfx = "/route=code+" if route == "code+" else ""  # (code-rev / code-rot are the plain code route with other dict orders)
    r1 = _print(s, o)
    if r1[0] != "ok":
        return [("print-raises:%s%s" % (r1[1], rsfx), "to_string(%s) raised %s: %s" % (o, r1[1], r1[2]))]
    t1 = r1[1]
    if st is not None:
        st.nt(t1)
        st.outcome(t1)
    try:
        parse(t1, allow_type_system=True)
    except Exception as e:  # noqa
        pos = getattr(e, "position", None)
        import re

        # mechanical facet: is there a block string whose closing quotes directly follow a backslash?
        after = "backslash-before-closing-quotes" if re.search(r'\\"""[ \t]*\n', t1) else "elsewhere"
        return [("text-does-not-parse:%s/%s" % (type(e).__name__, after), "%s on %r" % (str(e)[:200], t1[:600]))]
    try:
        s2 = build_schema(t1)
    except RecursionError:
        return [("rebuild-raises:RecursionError", "build_schema(printed text) overflowed the stack; text %r" % t1[:400])]
    except Exception as e:  # noqa
        return [
            (
                "rebuild-raises:%s%s%s%s" % (type(e).__name__, exc_where(e), "/opts=introspection" if o["intro"] else "", rsfx),
                "%s; text %r" % (str(e)[:200], t1[:400]),
            )
        ]
    got, bad2 = M.sm_from_schema(s2)
    # what the round trip must preserve
    if route in ("code+", "code-1"):
        exp = M.sm_expected(sm)  # external form of the same model (code-1: single values wrapped as the list type demands)
    else:
        exp = base
    ignore = ()
    if route != "sdl":
        ignore = ("python_name",)
    if not o["desc"]:
        exp = _strip_desc(exp)
    seen = set()
    for what, path, e, g in M.sm_diff(exp, got, ignore=ignore):
        cls = "roundtrip-differs:" + what
        if what.endswith(".default") or what.endswith(".has_default"):
            cls += M.default_detail(sm, path)
            if "/type=scalar/" in cls:
                cls += "/" + _string_retyping(e, g)
        sfx = rsfx
        if what.endswith(".description") or what.endswith(".reason"):
            facet = M.text_change_facet(e, g)
            if what.endswith(".description") and facet.split("/")[0] in ("lost:empty", "lost:blank", "blank-changed", "edge-whitespace", "inner-whitespace"):
                # the layout of a description does not depend on the kind of element or on the route
                cls, sfx = "roundtrip-differs:description", ""
            cls += "/" + facet
        cls += sfx
        if cls in seen:
            continue
        seen.add(cls)
        out.append((cls, "%s at %s: before %r after %r; printed: %r" % (what, path, e, g, t1[:500])))
    if bad2:
        out.append(("roundtrip-identity", "rebuilt schema has dangling references: %s" % bad2[:4]))
    r2 = _print(s2, o)
    if r2[0] != "ok":
        out.append(("reprint-raises:%s%s" % (r2[1], rsfx), r2[2]))
    elif r2[1] != t1 and not out and route != "code-1":
        # (code-1: a single value standing for a list is printed as given, `= {k: 1}`; the rebuilt schema holds the
        #  one-item list and prints `= [{k: 1}]` -- the structural comparison above is the oracle for that route)
        # (a structural difference already explains a different second text)
        out.append(("not-fixpoint/%s%s" % (diff_facet(t1, r2[1]), rsfx), "options %s: first %r second %r" % ((opt_label(o),) + _first_diff(t1, r2[1]))))
    return out


def _string_retyping(before, after):
    """How the string leaves of a custom-scalar default changed (canonical values): the printer turned them into
    Float literals (`"1e3"` -> 1000.0 -> "1000.0"), into Int literals, or something else."""
    import re

    pairs = []

    def walk(x, y):
        if isinstance(x, list) and isinstance(y, list) and len(x) == 2 and x[0] == "s" == y[0]:
            if x[1] != y[1]:
                pairs.append((x[1], y[1]))
        elif isinstance(x, list) and isinstance(y, list) and len(x) == len(y):
            for p, q in zip(x, y):
                walk(p, q)
        elif x != y:
            pairs.append((None, None))

    walk(before, after)
    kinds = set()
    for b, a in pairs:
        if a is None:
            kinds.add("other")
        elif re.match(r"^-?[0-9]+$", a):
            kinds.add("int")
        elif re.match(r"^-?[0-9.]+(e[-+]?[0-9]+)?$", a):
            kinds.add("float")
        else:
            kinds.add("other")
    return "retyped-" + "+".join(sorted(kinds)) if kinds else "retyped-none"


def diff_facet(a, b):
    """What kind of text differs between two prints (mechanical; used in class keys)."""
    import collections
    import re

    ca = collections.Counter(re.findall(r"@([A-Za-z_]+)", a))
    cb = collections.Counter(re.findall(r"@([A-Za-z_]+)", b))
    names = sorted({("@" + n) if n in M.BUILTIN_DIRECTIVES else "@custom" for n in set(ca) | set(cb) if ca[n] != cb[n]})
    parts = []
    if names:
        parts.append("applied-directives:" + ",".join(names))
    if len(re.findall(r"(?m)^schema\b", a)) != len(re.findall(r"(?m)^schema\b", b)):
        parts.append("schema-definition")
    if not parts:
        if a.split() == b.split():
            parts.append("whitespace")
        elif _strip_default_literals(a) == _strip_default_literals(b):
            parts.append("default-literal")
        else:
            parts.append("other")
    return "+".join(parts)


def _strip_default_literals(text):
    """Remove every ` = <constant value>` (own scanner: strings, brackets, braces)."""
    out = []
    i, n = 0, len(text)
    while i < n:
        if text.startswith(" = ", i):
            j = i + 3
            depth = 0
            while j < n:
                c = text[j]
                if c == '"':
                    j += 1
                    while j < n and text[j] != '"':
                        j += 2 if text[j] == "\\" else 1
                elif c in "[{":
                    depth += 1
                elif c in "]}":
                    depth -= 1
                elif depth == 0 and (c in ",)\n" or text.startswith(" @", j)):
                    break
                j += 1
            i = j
            continue
        out.append(text[i])
        i += 1
    return "".join(out)


def _first_diff(a, b):
    i = 0
    while i < min(len(a), len(b)) and a[i] == b[i]:
        i += 1
    lo = max(0, a.rfind("\n", 0, i))
    return a[lo : i + 60], b[lo : i + 60]


# ---------------------------------------------------------------------------------------------
# E2: histories

HIST_SCHEMAS = [
    # exactly one directive application in the whole schema (a bare @deprecated)
    {"features": ["dep:all", "dir:def", "desc:one"], "applied_first": False},
    {"features": ["k:input", "dep:enum", "dep:field", "dir:applied"], "applied_first": True},
]
PRELUDES = ["none", "graphql", "transform"]
HM_MENU = [_opt(), _opt(custom=True), _opt(intro=True)]  # option sets used on homonym groups


def _lit_swap(lit, a, b):
    if lit[0] == "enum":
        return ["enum", b if lit[1] == a else a if lit[1] == b else lit[1]]
    if lit[0] == "list":
        return ["list", [_lit_swap(x, a, b) for x in lit[1]]]
    if lit[0] == "obj":
        return ["obj", [[n, _lit_swap(v, a, b)] for n, v in lit[1]]]
    return lit


def _hbase():
    """The schema every homonym differs from in exactly one aspect."""
    E = lambda n: ["enum", n]  # noqa: E731
    sm = M.sm_new()
    sm["roots"]["query"] = "Query"
    sm["directives"].append({"name": "mark", "description": None, "locations": ["FIELD_DEFINITION", "OBJECT"], "args": [M.mk_ival("why", "String", default=["str", "because"]), M.mk_ival("c", "Color", default=E("RED"))]})
    sm["types"].append(M.mk_type("enum", "Color", values=["RED", "GREEN", "BLUE"]))
    sm["types"].append(M.mk_type("input", "Opt", fields=[M.mk_ival("c", "Color", default=E("RED")), M.mk_ival("n", "Int", default=["int", "3"]), M.mk_ival("cs", "[Color]", default=["list", [E("RED"), E("GREEN")]])]))
    sm["types"].append(M.mk_type("object", "UA", fields=[M.mk_field("a", "Int")]))
    sm["types"].append(M.mk_type("object", "UB", fields=[M.mk_field("b", "Int")]))
    sm["types"].append(M.mk_type("union", "U", members=["UA", "UB"]))
    q = M.mk_type(
        "object",
        "Query",
        description="Root type.",
        fields=[
            M.mk_field(
                "a",
                "[Int]",
                description="A field.",
                args=[
                    M.mk_ival("x", "Int", default=["int", "3"]),
                    M.mk_ival("c", "Color", default=E("RED")),
                    M.mk_ival("cs", "[Color!]", default=["list", [E("RED"), E("BLUE")]]),
                    M.mk_ival("o", "Opt", default=["obj", [["c", E("RED")], ["n", ["int", "1"]]]]),
                ],
                applied=[["mark", [["why", ["str", "x"]]]]],
            ),
            M.mk_field("old", "Int", deprecation={"reason": "use a"}),
            M.mk_field("u", "U"),
        ],
    )
    q["applied"].append(["mark", []])
    sm["types"].append(q)
    return sm


def _hvariant(aspect):
    """-> [(sm, route), (sm, route)]: two schemas with the same names that differ in ONE aspect."""
    import copy

    a = _hbase()
    b = copy.deepcopy(a)
    qa, qb = M.sm_type(a, "Query"), M.sm_type(b, "Query")
    if aspect == "enum-values":
        # same python defaults (internal value 1), different meaning: A: RED=1 GREEN=2, B: GREEN=1 RED=2
        for sm, order in ((a, ["RED", "GREEN", "BLUE"]), (b, ["GREEN", "RED", "BLUE"])):
            for v in M.sm_type(sm, "Color")["values"]:
                v["value"] = order.index(v["name"]) + 1
        for t in b["types"]:
            for f in t.get("fields", []):
                if f.get("default"):
                    f["default"] = _lit_swap(f["default"], "RED", "GREEN")
                for x in f.get("args", []):
                    if x.get("default"):
                        x["default"] = _lit_swap(x["default"], "RED", "GREEN")
        for d in b["directives"]:
            for x in d["args"]:
                if x.get("default"):
                    x["default"] = _lit_swap(x["default"], "RED", "GREEN")
        return [(a, "code"), (b, "code")]
    if aspect == "default":
        qb["fields"][0]["args"][0]["default"] = ["int", "4"]
        M.sm_type(b, "Opt")["fields"][1]["default"] = ["int", "4"]
    elif aspect == "description":
        qb["description"] = "Another root type."
        qb["fields"][0]["description"] = "Another field."
    elif aspect == "deprecation-reason":
        qb["fields"][1]["deprecation"] = {"reason": "use u"}
    elif aspect == "wrapper":
        qb["fields"][0]["type"] = M.T("[Int!]")
        qb["fields"][0]["args"][2]["type"] = M.T("[Color!]!")
    elif aspect == "member-order":
        M.sm_type(b, "U")["members"] = ["UB", "UA"]
        qb["fields"] = [qb["fields"][1], qb["fields"][0], qb["fields"][2]]
        M.sm_type(b, "Color")["values"].reverse()
    elif aspect == "directive-locations":
        b["directives"][0]["locations"] = ["OBJECT", "FIELD_DEFINITION", "ENUM_VALUE"]
    elif aspect == "root-names":
        G._rename(b, "Query", "Root")
        b["schema_def"] = True
    else:
        raise ValueError(aspect)
    return [(a, "sdl"), (b, "sdl")]


ASPECTS = ["enum-values", "default", "description", "deprecation-reason", "wrapper", "member-order", "directive-locations", "root-names"]
GROUPS = ["base"] + ["hm:" + a for a in ASPECTS]
_GS = {}


def group_schemas(g):
    """Schemas of a history group, built once per process (building never prints)."""
    from py_gql import build_schema

    if g not in _GS:
        out = []
        if g == "base":
            for h in HIST_SCHEMAS:
                s, _, note = make_schema(h["features"], "sdl", applied_first=h["applied_first"])
                assert s is not None, note
                out.append(s)
        elif g.startswith("hm3:"):
            x, y = g[4:].split("+")
            out = [group_schemas("hm:" + x)[0], group_schemas("hm:" + x)[1], group_schemas("hm:" + y)[1]]
        else:
            for sm, route in _hvariant(g[3:]):
                if route == "sdl":
                    out.append(build_schema(M.sm_to_sdl(sm)))
                else:
                    s = M.sm_to_code(sm)
                    s.validate()
                    out.append(s)
        _GS[g] = out
    return _GS[g]


def group_menu(g):
    return MENU if g == "base" else HM_MENU


def act_label(g, a):
    if len(a) == 2 and not isinstance(a[0], str):  # witnesses recorded before the group format
        a = ["P", a[0], a[1]]
    if a[0] == "R":
        return "rebuilt"
    return opt_label(group_menu(g)[a[2]])


def _norm_act(a):
    return ["P", a[0], a[1]] if (len(a) == 2 and not isinstance(a[0], str)) else list(a)


def _run_prelude(prelude, schemas):
    if prelude == "graphql":
        from py_gql import graphql_blocking
        from py_gql.utilities import introspection_query

        for s in schemas:
            graphql_blocking(s, "{ a __typename }", root={"a": 1}).response()
            graphql_blocking(s, introspection_query()).response()
    elif prelude == "transform":
        from py_gql.schema.transforms import VisibilitySchemaTransform, transform_schema

        for s in schemas:
            transform_schema(s, VisibilitySchemaTransform())


def _execute_history(schemas, req):
    """(in the grandchild) run the prelude, then every action; -> list of texts / ["raises", ...]"""
    from py_gql import build_schema

    menu = group_menu(req["g"])
    _run_prelude(req["prelude"], schemas)
    outs = []
    for a in req["seq"]:
        try:
            if a[0] == "P":
                outs.append(schemas[a[1]].to_string(**_kwargs(menu[a[2]])))
            else:  # "R": the schema rebuilt from the (pristine) default text of schema i, printed with defaults
                outs.append(build_schema(req["texts"][str(a[1])]).to_string(**_kwargs(menu[0])))
        except Exception as e:  # noqa
            outs.append(["raises", type(e).__name__ + exc_where(e), str(e)[:200]])
    return outs


_REF = {}


def run_history(g, prelude, seq):
    """Execute one history in a pristine grandchild of the zygote -> (outputs | None, error | None)."""
    seq = [_norm_act(a) for a in seq]
    req = {"g": g, "prelude": prelude, "seq": seq}
    need = sorted({a[1] for a in seq if a[0] == "R"})
    if need:
        req["texts"] = {}
        for i in need:
            t = reference(g, ["P", i, 0])
            if not isinstance(t, str):
                return None, {"err": "no reference text for schema %d" % i}
            req["texts"][str(i)] = t
    res = zygote_request(req)
    if "ok" not in res:
        return None, res
    return res["ok"], None


def reference(g, action):
    """What the action prints as the FIRST print call of a fresh process."""
    action = _norm_act(action)
    key = (g, tuple(action))
    if key not in _REF:
        outs, err = run_history(g, "none", [action])
        _REF[key] = outs[0] if outs is not None else ["harness", err]
    return _REF[key]


def _rel(a, b):
    return "same-schema" if a[1] == b[1] else "other-schema"


def _hist_class(g, ctx, lab, rel=None):
    if g == "base":
        return "history:%s->%s" % (ctx, lab)  # (format of the first version of this check: fixed findings replay against it)
    return "history/homonym=%s:%s%s->%s" % (g.split(":", 1)[1], (rel + ":") if rel else "", ctx, lab)


def _classify_history(g, prelude, seq, k):
    """Mechanical minimisation: smallest earlier context that makes call k differ."""
    seq = [_norm_act(a) for a in seq]
    act = seq[k]
    lab = act_label(g, act)
    ref = reference(g, act)
    for j in range(k):  # a single earlier call, without the prelude
        outs, _ = run_history(g, "none", [seq[j], act])
        if outs is not None and outs[1] != ref:
            return _hist_class(g, act_label(g, seq[j]), lab, _rel(seq[j], act))
    if prelude != "none":
        outs, _ = run_history(g, prelude, [act])
        if outs is not None and outs[0] != ref:
            return _hist_class(g, "after-" + prelude, lab)
        for j in range(k):
            outs, _ = run_history(g, prelude, [seq[j], act])
            if outs is not None and outs[1] != ref:
                return _hist_class(g, "after-%s+%s" % (prelude, act_label(g, seq[j])), lab, _rel(seq[j], act))
    return _hist_class(g, "+".join(act_label(g, a) for a in seq[:k]), lab)


def hist_eval(g, prelude, seq, st=None, seen_prefixes=None):
    """Run one (maximal) history; every call must print what it prints as the first call of a fresh process.
    -> [(detail, k)] for the first differing call (if its prefix was not reported before)."""
    seq = [_norm_act(a) for a in seq]
    outs, err = run_history(g, prelude, seq)
    if st is not None:
        st.n("executions")
        st.n("forks")
        st.n("transitions", len(seq))
        st.n("evaluations", len(seq))
    if outs is None:
        return [("harness: %s" % err, -1)]
    for k, o in enumerate(outs):
        ref = reference(g, seq[k])
        if st is not None:
            st.outcome(json.dumps(o))
        if o != ref:
            pre = json.dumps(seq[: k + 1])
            if seen_prefixes is not None:
                if pre in seen_prefixes:
                    return []
                seen_prefixes.add(pre)
            if isinstance(o, list):
                detail = "call %d raised %s" % (k, o[1:])
            else:
                detail = "group %s: call %d (%s on schema %d) after %s: as first call of a fresh process %r, now %r" % (
                    (g, k, act_label(g, seq[k]), seq[k][1], ["%s@%d" % (act_label(g, a), a[1]) for a in seq[:k]]) + _first_diff(ref if isinstance(ref, str) else "", o)
                )
            return [(detail, k)]
    return []


def group_actions(g, kind):
    n = len(group_schemas_count(g))
    menu = group_menu(g)
    if kind == "all":
        acts = [["P", i, j] for i in range(n) for j in range(len(menu))]
        if g != "base":
            acts += [["R", i] for i in range(n)]
        return acts
    if kind == "default":  # default-option prints and rebuilds only
        return [["P", i, 0] for i in range(n)] + [["R", i] for i in range(n)]
    raise ValueError(kind)


def group_schemas_count(g):
    return range(3 if g.startswith("hm3:") else 2)


def _maximal(first, depth, acts, pred=None):
    """all sequences of exactly `depth` actions starting with `first` (prefixes are covered by them)."""

    def rec(seq):
        if len(seq) == depth:
            yield seq
            return
        for a in acts:
            if pred is None or pred(seq, a):
                for x in rec(seq + [a]):
                    yield x

    return rec([first])


def hist_sequences(case):
    g, plan, first = case["g"], case["plan"], case["first"]
    if plan == "same-schema":  # every sequence of `depth` prints on the schema of the first action
        acts = [a for a in group_actions(g, "all") if a[0] == "P"]
        return _maximal(first, case["depth"], acts, lambda seq, a: a[1] == first[1])
    if plan == "all":
        return _maximal(first, case["depth"], group_actions(g, "all"))
    if plan == "cross":  # sequences whose consecutive actions are on different schemas
        return _maximal(first, case["depth"], group_actions(g, "all"), lambda seq, a: a[1] != seq[-1][1])
    if plan == "default":
        return _maximal(first, case["depth"], group_actions(g, "default"))
    raise ValueError(plan)


# ---------------------------------------------------------------------------------------------
# cases


def hist_cases(tier):
    b = BOUNDS[tier]
    out = []

    def add(g, prelude, plan, depth, kind):
        for a in group_actions(g, kind):
            if plan == "same-schema" and a[0] != "P":
                continue
            out.append({"kind": "hist", "g": g, "prelude": prelude, "plan": plan, "depth": depth, "first": a})

    for prelude in PRELUDES:
        if b["base_all_depth"]:
            add("base", prelude, "all", b["base_all_depth"], "all")
        if b["base_same_schema_depth"] > b["base_all_depth"]:
            add("base", prelude, "same-schema", b["base_same_schema_depth"], "all")
        if b["base_cross_depth"] > b["base_all_depth"]:
            add("base", prelude, "cross", b["base_cross_depth"], "all")
    for asp in ASPECTS:
        g = "hm:" + asp
        for prelude in PRELUDES[: b["homonym_preludes"]]:
            add(g, prelude, "all", b["homonym_all_depth"], "all")
        if b["homonym_default_depth"] > b["homonym_all_depth"]:
            add(g, "none", "default", b["homonym_default_depth"], "default")
    if b["homonym_triples"]:
        for x, y in TRIPLES:
            add("hm3:%s+%s" % (x, y), "none", "default", 3, "default")
    return out


TRIPLES = [(ASPECTS[i], ASPECTS[j]) for i in range(1, len(ASPECTS)) for j in range(i + 1, len(ASPECTS))]


def rt_cases(tier):
    b = BOUNDS[tier]
    top = max(b["features_full_grid"], b["features_menu6"], b["features_menu3"])
    for fs in G.feature_sets(top):
        if len(fs) <= b["features_full_grid"]:
            grid, routes = "full", ROUTES
        elif len(fs) <= b["features_menu6"]:
            grid, routes = "menu6", ("sdl", "code+")
        else:
            grid, routes = "menu3", ("sdl-or-code+",)
        for route in routes:
            yield {"kind": "rt", "features": fs, "route": route, "grid": grid}
        if grid != "menu3" and ("d:list-single" in fs or "d:list" in fs or "d:obj" in fs):
            # programmatically built schemas whose list-typed defaults are single (unwrapped) values
            yield {"kind": "rt", "features": fs, "route": "code-1", "grid": "menu3" if grid == "menu6" else "menu6"}
        if grid != "menu3" and _has_object_default(fs):
            # programmatically built schemas whose default dicts are not in field declaration order
            for route in ("code-rev", "code-rot"):
                yield {"kind": "rt", "features": fs, "route": route, "grid": "menu3" if grid == "menu6" else "menu6"}


def _has_object_default(fs):
    def has(lit):
        return lit is not None and (lit[0] == "obj" or (lit[0] == "list" and any(has(x) for x in lit[1])))

    sm = G.build_sm(fs)
    for t in sm["types"]:
        for f in t.get("fields", []):
            if has(f.get("default")) or any(has(a.get("default")) for a in f.get("args", [])):
                return True
    return any(has(a.get("default")) for d in sm["directives"] for a in d["args"])


def cases(tier):
    """history cases spread evenly between the round-trip cases (a time cap must not starve either part)."""
    h = hist_cases(tier)
    r = list(rt_cases(tier))
    # one history case every `period` cases; the period is a prime so that, whatever the number of workers
    # (cases are sharded by index modulo that number), history cases do not pile up on one worker
    period = max(2, (len(r) + len(h)) // max(1, len(h)))
    while any(period % d == 0 for d in range(2, int(period ** 0.5) + 1)):
        period -= 1
    hi = ri = n = 0
    while hi < len(h) or ri < len(r):
        if (n % period == 0 and hi < len(h)) or ri >= len(r):
            yield h[hi]
            hi += 1
        else:
            yield r[ri]
            ri += 1
        n += 1


def check_case(case, st):
    out = []
    if case["kind"] == "hist":
        st.n("tag:history-case")
        st.n("group:" + case["g"].split(":")[0])
        g, prelude = case["g"], case["prelude"]
        found, seen, states = {}, set(), set()
        f0 = FORKS[0]
        for seq in hist_sequences(case):
            if st.out_of_time():
                break
            for i in range(1, len(seq) + 1):
                states.add(json.dumps(seq[:i]))
            for detail, k in hist_eval(g, prelude, seq, st, seen):
                if k < 0:
                    out.append(("history-harness", {"kind": "hist", "g": g, "prelude": prelude, "seq": seq, "k": 0}, detail))
                    continue
                key = (tuple((act_label(g, a), a[1] == seq[k][1]) for a in seq[: k + 1]), prelude)
                if key not in found:
                    found[key] = _classify_history(g, prelude, seq, k)
                out.append((found[key], {"kind": "hist", "g": g, "prelude": prelude, "seq": seq[: k + 1], "k": k}, detail))
        st.n("states", len(states))
        st.n("zygote_forks", FORKS[0] - f0)
        st.mx("history_depth", case["depth"])
        return out
    st.n("tag:roundtrip-case")
    if case["route"] == "sdl-or-code+":
        # largest sets: one route only -- the SDL one, or the code one when the builder rejects the SDL (C11 findings)
        case = dict(case, route="sdl" if make_schema(case["features"], "sdl")[0] is not None else "code+")
    st.n("route:" + case["route"])
    opts = {"full": FULL_GRID, "menu6": MENU, "menu3": MENU_SMALL}[case["grid"]]
    if st.counters.get("cases", 0) % 211 == 1:
        st.sample({"features": case["features"], "route": case["route"], "options": len(opts)})
    for o in opts:
        if st.out_of_time():
            break
        for cls, detail in rt_eval(case["features"], case["route"], o, st):
            out.append((cls, {"kind": "rt", "features": case["features"], "route": case["route"], "opt": o}, detail))
    return out


def replay(witness):
    if witness["kind"] == "hist":
        g = witness.get("g", "base")
        out = []
        for detail, k in hist_eval(g, witness["prelude"], witness["seq"], None):
            if k >= 0 and k == witness.get("k", k):
                out.append((_classify_history(g, witness["prelude"], witness["seq"], k), detail))
        return out
    return rt_eval(witness["features"], witness["route"], witness["opt"], None)


# ---------------------------------------------------------------------------------------------


def selftest():
    M.selftest()
    G.selftest()
    # the zygote answers, is a different (fresh) process, and a history run through it is reproducible
    r = zygote_request({"op": "ping"})
    assert r.get("ok") == "pong" and r.get("pid") != os.getpid(), r
    a = run_history("base", "none", [["P", 1, 1], ["P", 1, 0]])
    b = run_history("base", "none", [["P", 1, 1], ["P", 1, 0]])
    assert a[0] is not None and a == b, (a, b)
    # homonyms really are homonyms: same type names, different first-call text
    for asp in ASPECTS:
        s = group_schemas("hm:" + asp)
        assert reference("hm:" + asp, ["P", 0, 0]) != reference("hm:" + asp, ["P", 1, 0]), asp
        if asp != "root-names":
            assert sorted(s[0].types) == sorted(s[1].types), asp
