# -*- coding: utf-8 -*-
"""
C11 -- schemas built from SDL contain exactly what the SDL declares.

Engine E3.  Every schema model with <= K features switched on (mc/gen/schemas.py) is written as SDL by
our own emitter (mc/ref/schema_model.sm_to_sdl -- never py_gql's printer) under

  * every definition order (<= 5 definitions: all permutations; more: identity, reversal, every adjacent
    transposition),
  * every split of each type's members over `extend` blocks (ordered set partitions, base possibly empty,
    for <= 3 members; single moves, contiguous cuts into <= 2 extensions, interleaving and the empty base
    otherwise), extension blocks directly before / after their target or at the start / end of the
    document; the `schema` definition split over `extend schema`,
  * ignore_extensions False / True, the two-step route extend_schema(build_schema(base), extensions),
    an unrelated extension introducing a new type,
  * additional_types absent / supplying a custom scalar and an enum with internal values (with and
    without their definition in the document),
  * description layout quoted / block,

and built with py_gql.build_schema.  The result is read back by sm_from_schema (public attributes only)
and compared with the model the document declares (members of a split type in document order, defaults
through the reference coercion of mc/ref/coerce_lit), plus identity facts (every reference `is` the
object registered in schema.types).  Labelled invalid documents must raise one of SDLError,
ExtensionError, SchemaError (incl. SchemaValidationError, UnknownType).
"""
import itertools

from mc.gen import schemas as G
from mc.ref import schema_model as M
from mc.ref.coerce_lit import Reject

READY = True
LEVEL = "exploration"
TECHNIQUE = "bounded-exhaustive enumeration of schema models x definition orders x extension splits x build routes against a plain-data reference model"
LEVEL_TEXT = (
    "Every schema model inside the feature bound is emitted under every order / split / route variant of the stated "
    "bounds (no sampling); the real builder runs on each document and the resulting schema is compared, element by "
    "element, with an independently computed model. Exhaustive inside the bound; small-scope argument beyond."
)
LEVEL_NOTE = (
    "Trusts py_gql.lang.parse (C01/C02) to read our SDL, our emitter (self-tested: block strings against a reference "
    "BlockStringValue) and the extractor (public attributes). The reference coercion of literals is self-tested."
)
DESIGN_REF = "DESIGN.md section 6, C11"
RULE = (
    "case = (feature set with <= K features, variant group); inside a case every variant of the group is enumerated; "
    "evaluation = one build_schema / extend_schema run on one document compared with the model; distinct non-trivial = "
    "distinct (document text, route, options) on which the builder returned a schema that was extracted and compared, or "
    "a labelled invalid document that was rejected"
)
ASSUMPTIONS = [
    "June-2018 SDL syntax only (no `&`-less implements lists, no descriptions on schema, no repeatable); names ASCII",
    "custom scalars declared only in SDL get defaults from string literals only (their coercion is otherwise implementation-defined)",
    "the extension-split enumeration splits one type at a time (plus one all-types-at-once variant per placement)",
    "under ignore_extensions=True the expected schema is the one declared by the definitions alone; if that one breaks a type-system rule a schema/SDL error is expected",
    "applied custom directives are emitted but not compared (the schema keeps them only as AST nodes)",
]
BOUNDS = {
    "quick": {"features_full": 2, "features_light": 0, "max_units_all_permutations": 5, "members_all_partitions": 3, "invalid_documents": "all"},
    "thorough": {"features_full": 2, "features_light": 3, "max_units_all_permutations": 6, "members_all_partitions": 4, "invalid_documents": "all"},
}
TIME_CAP = {"quick": 150, "thorough": 1500}

# ---------------------------------------------------------------------------------------------
# variant enumeration


def orders(n, max_all):
    ident = list(range(n))
    if n <= 1:
        return [ident]
    if n <= max_all:
        return [list(p) for p in itertools.permutations(range(n))]
    out = [ident, ident[::-1]]
    for i in range(n - 1):
        o = list(ident)
        o[i], o[i + 1] = o[i + 1], o[i]
        out.append(o)
    return out


def _ordered_partitions(items):
    """all sequences of disjoint non-empty blocks covering items (blocks keep the given item order)."""
    items = list(items)
    if not items:
        yield []
        return
    n = len(items)
    # assign each item a block number; canonical: numbers form 0..k-1; then every ordering of the blocks
    seen = set()
    for assign in itertools.product(range(n), repeat=n):
        k = max(assign) + 1
        if set(assign) != set(range(k)):
            continue
        blocks = tuple(tuple(items[i] for i in range(n) if assign[i] == b) for b in range(k))
        if blocks in seen:
            continue
        seen.add(blocks)
        yield [list(b) for b in blocks]


def splits_for(members, all_partitions_upto):
    """-> list of block lists (blocks[0] = base, may be empty); the unsplit form is not included."""
    m = len(members)
    out = []
    if m == 0:
        return out
    if m <= all_partitions_upto:
        for blocks in _ordered_partitions(members):
            if len(blocks) > 1:
                out.append(blocks)
            out.append([[]] + blocks)  # empty base: everything arrives through extensions
        return out
    for i in range(m):  # one member moved out
        out.append([members[:i] + members[i + 1 :], [members[i]]])
    for j in range(1, m):  # contiguous cut
        out.append([members[:j], members[j:]])
    for j in range(1, m - 1):  # two extensions
        out.append([members[:j], members[j : j + 1], members[j + 1 :]])
    out.append([members[0::2], members[1::2]])
    out.append([members[m // 2 :], members[: m // 2]])
    out.append([[], members])
    out.append([[], members[1:], members[:1]])
    return out


def _schema_members(sm):
    return [op for op in ("query", "mutation", "subscription") if sm["roots"][op]]


def _light_split(sm):
    """one split for every splittable type at once: last member moved to an extension."""
    sp = {}
    for t in sm["types"]:
        mk = M.member_keys(t)
        if len(mk) >= 2:
            sp[t["name"]] = {"blocks": [mk[:-1], mk[-1:]], "place": "before"}
    return sp


def variants(sm, group, bounds, light=False):
    """Deterministic list of variant dicts for one model and one group."""
    units = M.sm_units(sm)
    out = []
    V = lambda **kw: dict({"order": None, "split": None, "route": "one-step", "additional": None, "style": "auto"}, **kw)  # noqa: E731
    if group == "orders":
        if light:
            n = len(units)
            for o in ([list(range(n))[::-1]] if n > 1 else []):
                out.append(V(order=o))
            out.insert(0, V())
            return out
        for o in orders(len(units), bounds["max_units_all_permutations"]):
            out.append(V(order=o))
        if any(el.get("description") for el in G._each_describable(sm)):
            for st in ("quoted", "block"):
                out.append(V(style=st))
        out.append(V(route="unrelated-extension"))
        out.append(V(route="unrelated-extension-two-step"))
        return out
    if group == "splits":
        if light:
            sp = _light_split(sm)
            if sp:
                for route in ("one-step", "two-step", "ignore-ext"):
                    out.append(V(split=sp, route=route))
                spe = {k: dict(v, place="end") for k, v in sp.items()}
                out.append(V(split=spe, order=list(range(len(units)))[::-1]))
            return out
        targets = [(t["name"], M.member_keys(t)) for t in sm["types"]]
        if sm["schema_def"]:
            targets.append(("schema", _schema_members(sm)))
        for name, mk in targets:
            if name == "schema":
                cand = [b for b in splits_for(mk, bounds["members_all_partitions"]) if b[0]]  # `schema {}` cannot be empty
            else:
                cand = splits_for(mk, bounds["members_all_partitions"])
            for blocks in cand:
                for place in ("after", "before"):
                    out.append(V(split={name: {"blocks": blocks, "place": place}}))
            # routes on a few representative splits of this target
            for blocks in cand[:3]:
                sp = {name: {"blocks": blocks, "place": "after"}}
                out.append(V(split=sp, route="ignore-ext"))
                out.append(V(split=sp, route="two-step"))
                out.append(V(split={name: {"blocks": blocks, "place": "start"}}, order=list(range(len(units)))[::-1]))
                out.append(V(split={name: {"blocks": blocks, "place": "end"}}))
        sp = _light_split(sm)
        if len(sp) > 1:
            for place in ("after", "before", "start", "end"):
                spx = {k: dict(v, place=place) for k, v in sp.items()}
                for route in ("one-step", "two-step", "ignore-ext"):
                    out.append(V(split=spx, route=route))
        return out
    if group == "additional":
        names = {t["name"] for t in sm["types"]}
        if not ({"Color", "Date"} & names):
            return out
        for add in ("supplied", "supplied-omitted"):
            out.append(V(additional=add))
            if len(units) > 1:
                out.append(V(additional=add, order=list(range(len(units)))[::-1]))
            out.append(V(additional=add, route="unrelated-extension"))
            if "Color" in names and add == "supplied":
                ck = M.member_keys(M.sm_type(sm, "Color"))
                for blocks in ([ck[:1], ck[1:]], [ck[:2], ck[2:]]):
                    for place in ("after", "before"):
                        out.append(V(additional=add, split={"Color": {"blocks": blocks, "place": place}}))
        return out
    raise ValueError(group)


GROUPS = ("orders", "splits", "additional")

# ---------------------------------------------------------------------------------------------
# additional_types


def _supplied_sm(sm, split=None):
    """the model when Color / Date are supplied through additional_types (internal values, own scalar).

    When Color is split over extensions the supplied object stands for the *definition* (it "overrides the
    extracted type"), so only the values of the base block carry internal values; values added by the
    document's extensions are built by the library (value = name)."""
    import copy

    sm = copy.deepcopy(sm)
    base = None
    if split and "Color" in split:
        base = {k[2:] for k in split["Color"]["blocks"][0]}
    for t in sm["types"]:
        if t["name"] == "Color" and t["kind"] == "enum":
            for i, v in enumerate(t["values"]):
                if base is None or v["name"] in base:
                    v["value"] = 100 + i
        if t["name"] == "Date" and t["kind"] == "scalar":
            t["impl"] = "date"
    return sm


def _supplied_types(sm_supplied):
    out = []
    for t in sm_supplied["types"]:
        if t["name"] == "Color" and t["kind"] == "enum":
            t = dict(t, values=[v for v in t["values"] if "value" in v])
            out.append(M.code_enum(t))
        if t["name"] == "Date" and t["kind"] == "scalar":
            out.append(M.code_scalar("Date", "date", t["description"]))
    return out


def _omit_supplied(sm):
    """units of the document when the supplied types are not defined in it."""
    return [i for i, u in enumerate(M.sm_units(sm)) if not (u[0] == "type" and u[1] in ("Color", "Date"))]


# ---------------------------------------------------------------------------------------------
# one evaluation

_LIB = None


def lib_errors():
    global _LIB
    if _LIB is None:
        from py_gql import exc

        _LIB = (exc.SDLError, exc.SchemaError)  # ExtensionError < SDLError; SchemaValidationError, UnknownType < SchemaError
    return _LIB


def _invalid_value():
    from py_gql import exc

    return exc.InvalidValue


def exc_where(e):
    if isinstance(e, RecursionError):
        return ""
    import traceback

    where = ""
    for fr in traceback.extract_tb(e.__traceback__):
        if "py_gql" in fr.filename:
            where = fr.name
    return ("@" + where) if where else ""


def _emit(sm, v):
    """-> (texts, expected model or None if rejection expected, reason)"""
    split = v["split"]
    order = v["order"]
    route = v["route"]
    add = v["additional"]
    doc_sm = sm
    if add == "supplied-omitted":
        # leave the definitions of the supplied types out of the document
        import copy

        doc_sm = copy.deepcopy(sm)
        doc_sm["types"] = [t for t in doc_sm["types"] if t["name"] not in ("Color", "Date")]
        if order is not None:
            order = None if len(M.sm_units(doc_sm)) != len(order) else order
    exp_sm = _supplied_sm(sm, split) if add else sm
    if route in ("unrelated-extension", "unrelated-extension-two-step"):
        import copy

        q = sm["roots"]["query"]
        extra = 'type ZzExtra {\n  e: Int\n}\n\nextend type %s {\n  zzExtra: ZzExtra\n}\n' % q
        exp_sm = copy.deepcopy(exp_sm)
        exp_sm["types"].append(M.mk_type("object", "ZzExtra", fields=[M.mk_field("e", "Int")]))
        M.sm_type(exp_sm, q)["fields"].append(M.mk_field("zzExtra", "ZzExtra"))
        base = M.sm_to_sdl(doc_sm, order=order, split=split, style=v["style"])
        if route == "unrelated-extension":
            return [base + "\n" + extra], exp_sm, None
        return [base, extra], exp_sm, None
    if route == "one-step":
        return [M.sm_to_sdl(doc_sm, order=order, split=split, style=v["style"])], M.sm_split_expected(exp_sm, split), None
    if route == "ignore-ext":
        base_sm = M.sm_split_expected(exp_sm, split, base_only=True)
        bad = M.sm_violations(base_sm)
        if not bad:
            try:
                M.sm_expected(base_sm)
            except Reject:
                bad = ["default-does-not-fit"]  # a default names a member that only an extension declares
        return [M.sm_to_sdl(doc_sm, order=order, split=split, style=v["style"])], (None if bad else base_sm), (bad[0] if bad else None)
    if route == "two-step":
        base_sm = M.sm_split_expected(exp_sm, split, base_only=True)
        bad = M.sm_violations(base_sm)
        if not bad:
            try:
                M.sm_expected(base_sm)
            except Reject:
                bad = ["default-does-not-fit"]
        if bad:
            return None, None, "base-invalid"  # the first step alone is not a valid schema: not a case
        b, e = M.sm_to_sdl(doc_sm, order=order, split=split, style=v["style"], parts=True)
        return [b, e], M.sm_split_expected(exp_sm, split), None
    raise ValueError(route)


def build(texts, v, sm):
    from py_gql import build_schema
    from py_gql.sdl import extend_schema

    kw = {}
    if v["additional"]:
        kw["additional_types"] = _supplied_types(_supplied_sm(sm, v["split"]))
    if v["route"] == "ignore-ext":
        kw["ignore_extensions"] = True
    s = build_schema(texts[0], **kw)
    if len(texts) > 1:
        s = extend_schema(s, texts[1], **({"additional_types": kw["additional_types"]} if v["additional"] else {}))
    return s


def _defaults_need_extension(exp_sm_full, v):
    """True when some default literal only fits (or only coerces to the declared value) once the members
    declared in extension blocks are merged: the definitions alone give a different coercion."""
    if not v["split"]:
        return False
    base = M.sm_split_expected(exp_sm_full, v["split"], base_only=True)
    try:
        nb = M.sm_expected(base)
    except Reject:
        return True
    nf = M.sm_expected(exp_sm_full)
    return any(w.endswith(".default") for w, _, _, _ in M.sm_diff(nf, nb))


def evaluate(features, v, st=None):
    """-> list of (raw class, detail); raw classes are prefixed by the caller when variant-dependent."""
    sm = G.build_sm(features)
    texts, exp_sm, reason = _emit(sm, v)
    if texts is None:
        if st is not None:
            st.n("skipped:" + reason)
        return []
    if st is not None:
        st.n("evaluations")
    try:
        schema = build(texts, v, sm)
    except RecursionError:
        if exp_sm is None:
            return [("invalid-wrong-exception:ignore-ext-base:RecursionError", "base-only document is invalid (%s) but build raised RecursionError" % reason, "build-raises:RecursionError")]
        return [("build-raises:RecursionError", "valid document: %r" % texts[0][:300])]
    except Exception as e:  # noqa
        if exp_sm is None:
            if isinstance(e, lib_errors()):
                if st is not None:
                    st.nt(repr(texts) + "ignore")
                    st.outcome("rejected:" + type(e).__name__)
                return []
            return [
                (
                    "invalid-wrong-exception:ignore-ext-base:%s%s" % (type(e).__name__, exc_where(e)),
                    "base-only document is invalid (%s) but build raised %r" % (reason, e),
                    "build-raises:%s%s" % (type(e).__name__, exc_where(e)),
                )
            ]
        if isinstance(e, lib_errors() + (_invalid_value(),)) and _defaults_need_extension(M.sm_split_expected(exp_sm, None), v):
            return [("default-depends-on-extension:build-raises", "%s: %s on valid document(s): %r" % (type(e).__name__, str(e)[:200], [t[:400] for t in texts]))]
        return [("build-raises:%s%s" % (type(e).__name__, exc_where(e)), "%s on valid document(s): %r" % (str(e)[:200], [t[:400] for t in texts]))]
    if exp_sm is None:
        return [("invalid-accepted:ignore-ext-base/%s" % reason, "with ignore_extensions the definitions alone are invalid (%s) but a schema was returned: %r" % (reason, texts[0][:300]))]
    try:
        exp = M.sm_expected(exp_sm)
    except Reject as e:  # generator bug
        raise AssertionError("generated default does not fit its type: %s (%s)" % (e, features))
    got, bad = M.sm_from_schema(schema)
    if st is not None:
        st.nt(repr(texts) + repr((v["route"], v["additional"])))
        st.outcome(sorted(got["types"]))
    out = []
    seen = set()
    needs = None
    for what, path, e, g in M.sm_diff(exp, got):
        cls = "content-differs:" + what
        if what.endswith(".default") or what.endswith(".has_default"):
            if needs is None:
                needs = v["route"] != "ignore-ext" and _defaults_need_extension(exp_sm, v)
            if needs:
                cls = "default-depends-on-extension:content-differs"
            else:
                cls += M.default_detail(exp_sm, path)
        if cls in seen:
            continue
        seen.add(cls)
        out.append((cls, "%s at %s: declared %r, schema has %r; document(s): %r" % (what, path, e, g, [t[:500] for t in texts])))
    if bad:
        kinds = sorted({b.rsplit(":", 1)[-1] for b in bad})
        out.append(("identity:" + "+".join(kinds), "references that are not the registered type object: %s" % bad[:4]))
    return out


BASELINE = {"order": None, "split": None, "route": "one-step", "additional": None, "style": "auto"}


def _variant_prefix(v):
    if v["additional"]:
        return "additional-types"
    if v["route"] == "ignore-ext":
        return "ignore-extensions"
    if v["split"] or v["route"] in ("two-step", "unrelated-extension", "unrelated-extension-two-step"):
        return "split-dependent"
    if v["order"] is not None:
        return "order-dependent"
    if v["style"] != "auto":
        return "layout-dependent"
    return None


def classify_full(features, res, base_classes, v):
    """classify(), and a class attributed to additional_types is re-attributed to the extension / order
    variant when the same document without additional_types shows it as well."""
    cls = classify(res, base_classes, v)
    if cls.startswith("additional-types:") and v["additional"]:
        v2 = dict(v, additional=None)
        if any(r[0] == res[0] for r in evaluate(features, v2, None)):
            return classify(res, base_classes, v2)
    return cls


def classify(res, base_classes, v):
    """A class that the plain document of the same model does not show is attributed to the variant.

    res = (class, detail[, alternative class]): the alternative is used when the plain document of the
    same model already fails that way (the failure is then not about the variant at all)."""
    raw = res[0]
    if len(res) > 2 and res[2] in base_classes:
        return res[2]
    pre = _variant_prefix(v)
    if pre is None or raw in base_classes or raw.startswith("default-depends-on-extension:") or raw.startswith("invalid-"):
        return raw  # (invalid-*:ignore-ext-base already names the variant)
    if any(c.startswith("build-raises:") for c in base_classes):
        # the plain document of this model does not build at all (another defect): whatever a variant that
        # happens to avoid that defect shows cannot be attributed to the variant
        return raw
    return pre + ":" + raw


# ---------------------------------------------------------------------------------------------
# labelled invalid documents

Q = "type Query { a: Int }\n"
INVALID = [
    # (label, [documents...]) one document = one-step build_schema; two documents = build_schema + extend_schema
    ("duplicate-type", [Q + "type A { a: Int }\ntype A { b: Int }"]),
    ("duplicate-type", [Q + "type A { a: Int }\nenum A { B }"]),
    ("duplicate-type", [Q + "scalar A\nscalar A"]),
    ("duplicate-type", [Q, "type Query { b: Int }"]),
    ("duplicate-directive", [Q + "directive @d on FIELD\ndirective @d on QUERY"]),
    ("duplicate-directive", [Q + "directive @d on FIELD", "directive @d on QUERY"]),
    ("duplicate-field", ["type Query { a: Int a: String }"]),
    ("duplicate-field", [Q + "interface I { a: Int a: Int }"]),
    ("duplicate-field", [Q + "input I { a: Int a: Int }\nextend type Query { b(i: I): Int }"]),
    ("duplicate-argument", ["type Query { a(x: Int, x: Int): Int }"]),
    ("duplicate-argument", [Q + "directive @d(x: Int, x: Int) on FIELD"]),
    ("duplicate-enum-value", [Q + "enum E { A A }"]),
    ("duplicate-enum-value", [Q + "enum E { A B A }\nextend type Query { e: E }"]),
    ("duplicate-operation-type", ["schema { query: Query query: Query }\n" + Q]),
    ("duplicate-operation-type", ["schema { query: Query mutation: Query mutation: Query }\n" + Q]),
    ("duplicate-operation-type", ["schema { query: Query }\nextend schema { query: Query }\n" + Q]),
    ("duplicate-operation-type", ["schema { query: Query }\n" + Q, "type Q2 { a: Int }\nextend schema { query: Q2 }"]),
    ("two-schema-definitions", ["schema { query: Query }\nschema { query: Query }\n" + Q]),
    ("two-schema-definitions", ["schema { query: Query }\n" + Q, "schema { query: Query }"]),
    ("unknown-type", ["type Query { a: Nope }"]),
    ("unknown-type", ["type Query { a(x: Nope): Int }"]),
    ("unknown-type", ["type Query { a: [Nope!]! }"]),
    ("unknown-type", ["type Query implements Nope { a: Int }"]),
    ("unknown-type", [Q + "union U = Nope"]),
    ("unknown-type", [Q + "input I { a: Nope }"]),
    ("unknown-type", ["schema { query: Nope }\n" + Q]),
    ("unknown-type", ["schema { query: Query mutation: Nope }\n" + Q]),
    ("unknown-type", [Q + "directive @d(x: Nope) on FIELD"]),
    ("unknown-type", [Q + "extend type Query { b: Nope }"]),
    ("unknown-type", [Q, "extend type Query { b: Nope }"]),
    ("unknown-type", [Q + "union U = Query", "extend union U = Nope"]),
    ("extension-of-undefined-type", [Q + "extend type Nope { a: Int }"]),
    ("extension-of-undefined-type", [Q, "extend type Nope { a: Int }"]),
    ("extension-of-undefined-type", [Q, "extend enum Nope { A }"]),
    ("extension-of-undefined-type", [Q, "extend scalar Nope @deprecated"]),
    ("duplicate-member-via-extension", [Q + "extend type Query { a: Int }"]),
    ("duplicate-member-via-extension", [Q, "extend type Query { a: String }"]),
    ("duplicate-member-via-extension", [Q + "extend type Query { b: Int }\nextend type Query { b: Int }"]),
    ("duplicate-member-via-extension", [Q + "interface I { a: Int }\nextend interface I { a: Int }"]),
    ("duplicate-member-via-extension", [Q + "enum E { A }\nextend enum E { A }"]),
    ("duplicate-member-via-extension", [Q + "enum E { A }\nextend enum E { B B }"]),
    ("duplicate-member-via-extension", [Q + "union U = Query\nextend union U = Query"]),
    ("duplicate-member-via-extension", [Q + "input I { a: Int }\nextend input I { a: Int }"]),
    ("duplicate-member-via-extension", [Q + "interface I { a: Int }\ntype T implements I { a: Int }\nextend type T implements I"]),
    ("default-of-wrong-type", ['type Query { a(x: Int = "s"): Int }']),
    ("default-of-wrong-type", ["type Query { a(x: Int = 1.5): Int }"]),
    ("default-of-wrong-type", ["type Query { a(x: String = 1): Int }"]),
    ("default-of-wrong-type", ["type Query { a(x: Boolean = 1): Int }"]),
    ("default-of-wrong-type", ["type Query { a(x: Int! = null): Int }"]),
    ("default-of-wrong-type", ["type Query { a(x: [Int!] = [1, null]): Int }"]),
    ("default-of-wrong-type", ["type Query { a(x: Int = 2147483648): Int }"]),
    ("default-of-wrong-type", ["enum E { A }\ntype Query { a(x: E = B): Int }"]),
    ("default-of-wrong-type", ['enum E { A }\ntype Query { a(x: E = "A"): Int }']),
    ("default-of-wrong-type", ["input I { k: Int }\ntype Query { a(x: I = 1): Int }"]),
    ("default-of-wrong-type", ['input I { k: Int }\ntype Query { a(x: I = {k: "s"}): Int }']),
    ("default-of-wrong-type", ["input I { k: Int! }\ntype Query { a(x: I = {}): Int }"]),
    ("default-of-wrong-type", ['input I { k: Int = "s" }\ntype Query { a(x: I): Int }']),
    ("default-of-wrong-type", [Q + 'directive @d(x: Int = "s") on FIELD']),
    ("default-of-wrong-type", ["input I { k: Int }\ntype Query { a(x: I = {zz: 1}): Int }"]),
    ("default-of-wrong-type", ["input I { k: Int }\ntype Query { a(x: I = {k: 1, k: 2}): Int }"]),
    ("default-of-wrong-type", ["type Query { a(x: [Int] = [1, \"s\"]): Int }"]),
    ("default-of-wrong-type", ["type Query { a(x: Float = \"1.5\"): Int }"]),
    ("default-of-wrong-type", ["type Query { a(x: ID = 1.5): Int }"]),
    ("default-of-wrong-type", [Q, 'extend type Query { b(x: Int = "s"): Int }']),
    ("implements-non-interface", ["type Query implements E { a: Int }\nenum E { A }"]),
    ("implements-non-interface", ["type Query implements T { a: Int }\ntype T { a: Int }"]),
    ("implements-non-interface", ["type Query implements S { a: Int }\nscalar S"]),
    ("implements-non-interface", [Q + "enum E { A }", "extend type Query implements E"]),
    ("empty-object", ["type Query"]),
    ("empty-object", [Q + "type T\nextend type Query { t: T }"]),
    ("empty-object", [Q + "interface I\nextend type Query { i: I }"]),
    ("empty-object", [Q + "input I\nextend type Query { b(i: I): Int }"]),
    ("empty-object", [Q + "enum E\nextend type Query { e: E }"]),
    ("empty-object", [Q + "union U\nextend type Query { u: U }"]),
    ("no-query-root", ["type Foo { a: Int }"]),
    ("no-query-root", ["schema { mutation: Query }\n" + Q]),
    ("non-object-root", ["schema { query: E }\nenum E { A }"]),
    ("non-object-member", [Q + "enum E { A }\nunion U = E\nextend type Query { u: U }"]),
    ("non-object-member", [Q + "interface I { a: Int }\nunion U = I\nextend type Query { u: U }"]),
    ("input-type-as-output", [Q + "input I { a: Int }\nextend type Query { i: I }"]),
    ("output-type-as-input", [Q + "type T { a: Int }\nextend type Query { b(t: T): Int }"]),
    ("output-type-as-input", [Q + "type T { a: Int }\ninput I { t: T }\nextend type Query { b(i: I): Int }"]),
    ("interface-not-implemented", [Q + "interface I { a: Int b: Int }\ntype T implements I { a: Int }\nextend type Query { t: T }"]),
    ("interface-not-implemented", [Q + "interface I { a: Int }\ntype T implements I { a: String }\nextend type Query { t: T }"]),
    ("invalid-name", ["type Query { __a: Int }"]),
    ("invalid-name", [Q + "type __T { a: Int }\nextend type Query { t: __T }"]),
]
# duplicates that only arise THROUGH extensions (base+ext, ext+ext, inside one ext block), for every element kind
# with a uniqueness rule; one-step (build_schema) and two-step (extend_schema) forms
_S = "schema { query: Query }\n" + Q
_M = "type M1 { a: Int }\ntype M2 { a: Int }\n"
for _op in ("mutation", "subscription"):
    INVALID += [
        ("duplicate-operation-type-via-extension", [_S + _M + "extend schema { %s: M1 }\nextend schema { %s: M2 }" % (_op, _op)]),
        ("duplicate-operation-type-via-extension", [_S + _M + "extend schema { %s: M1 }\nextend schema { %s: M1 }" % (_op, _op)]),
        ("duplicate-operation-type-via-extension", [_S + _M + "extend schema { %s: M1 %s: M2 }" % (_op, _op)]),
        ("duplicate-operation-type-via-extension", [_S + _M, "extend schema { %s: M1 }\nextend schema { %s: M2 }" % (_op, _op)]),
        ("duplicate-operation-type-via-extension", [_S + _M, "extend schema { %s: M1 %s: M2 }" % (_op, _op)]),
        ("duplicate-operation-type-via-extension", ["schema { query: Query %s: M1 }\n" % _op + Q + _M + "extend schema { %s: M2 }" % _op]),
        ("duplicate-operation-type-via-extension", ["schema { query: Query %s: M1 }\n" % _op + Q + _M, "extend schema { %s: M2 }" % _op]),
        # the base root is implied by its default name
        ("duplicate-operation-type-via-extension", [Q + "type %s { a: Int }\n" % _op.capitalize() + _M, "extend schema { %s: M1 }" % _op]),
    ]
INVALID += [
    ("duplicate-operation-type-via-extension", [_S + _M + "extend schema { query: M1 }"]),
    ("duplicate-operation-type-via-extension", [_S + _M + "extend schema { mutation: M1 }\nextend schema { subscription: M1 subscription: M2 }"]),
]
_T = Q + "interface I { a: Int }\ntype T implements I { a: Int }\nenum E { A }\nunion U = Query\ninput In { a: Int }\nextend type Query { t: T e: E u: U f(i: In): Int }\n"
_DUPS = [
    # (ext+ext, inside one ext block)
    ("extend type T { b: Int }\nextend type T { b: Int }", "extend type T { b: Int b: Int }"),
    ("extend interface I { b: Int }\nextend interface I { b: Int }", "extend interface I { b: Int b: Int }"),
    ("extend input In { b: Int }\nextend input In { b: Int }", "extend input In { b: Int b: Int }"),
    ("extend enum E { B }\nextend enum E { B }", "extend enum E { B B }"),
    ("extend union U = T\nextend union U = T", "extend union U = T | T"),
    ("interface J { a: Int }\nextend type T implements J\nextend type T implements J", "interface J { a: Int }\nextend type T implements J & J"),
    ("extend type T { b(x: Int): Int }\nextend type T { b(y: Int): Int }", "extend type T { b(x: Int, x: Int): Int }"),
]
for _two, _one in _DUPS:
    for _e in (_two, _one):
        INVALID.append(("duplicate-member-via-extension", [_T + _e]))
        INVALID.append(("duplicate-member-via-extension", [_T, _e]))
INVALID += [
    # base + extension, remaining kinds
    ("duplicate-member-via-extension", [_T + "extend input In { a: String }"]),
    ("duplicate-member-via-extension", [_T, "extend union U = Query"]),
    ("duplicate-member-via-extension", [_T, "extend type T implements I"]),
    ("duplicate-member-via-extension", [_T, "extend interface I { a: Int }"]),
    # two extensions adding the same member to a NEW type (defined in the extension document)
    ("duplicate-member-via-extension", [_T, "type N { a: Int }\nextend type N { b: Int }\nextend type N { b: Int }\nextend type Query { n: N }"]),
    ("duplicate-member-via-extension", [_T, "type N { a: Int }\nextend type N { a: Int }\nextend type Query { n: N }"]),
    ("duplicate-member-via-extension", [_T, "enum N { A }\nextend enum N { B }\nextend enum N { B }\nextend type Query { n: N }"]),
    ("duplicate-member-via-extension", [_T + "type N { a: Int }\nextend type N { b: Int }\nextend type N { b: Int }\nextend type Query { n: N }"]),
    # duplicates inside a definition, remaining kinds
    ("duplicate-member", [Q + "union U = Query | Query\nextend type Query { u: U }"]),
    ("duplicate-member", [Q + "interface I { a: Int }\ntype T implements I & I { a: Int }\nextend type Query { t: T }"]),
    ("duplicate-argument", [Q, "directive @d(x: Int, x: Int) on FIELD"]),
    ("duplicate-argument", [Q, "extend type Query { b(x: Int, x: Int): Int }"]),
]
# extensions of the wrong kind applied to scalars (custom and specified)
for _ek, _ext in (
    ("type", "extend type %s { b: Int }"),
    ("type", "extend type %s implements I"),
    ("interface", "extend interface %s { b: Int }"),
    ("union", "extend union %s = Query"),
    ("enum", "extend enum %s { B }"),
    ("input", "extend input %s { b: Int }"),
):
    for _name, _def in (("X", "scalar X\nextend type Query { x: X }\n"), ("Int", ""), ("String", ""), ("ID", ""), ("Boolean", "")):
        _label = "extension-of-wrong-kind" if _name == "X" else "extension-of-specified-scalar"
        INVALID.append((_label, [Q + "interface I { a: Int }\n" + _def + _ext % _name]))
        INVALID.append((_label, [Q + "interface I { a: Int }\n" + _def, _ext % _name]))
# every (extension kind, target kind) mismatch
_DEF = {
    "type": "type X { a: Int }",
    "interface": "interface X { a: Int }",
    "union": "union X = Query",
    "enum": "enum X { A }",
    "input": "input X { a: Int }",
    "scalar": "scalar X",
}
_EXT = {
    "type": "extend type X { b: Int }",
    "interface": "extend interface X { b: Int }",
    "union": "extend union X = Query",
    "enum": "extend enum X { B }",
    "input": "extend input X { b: Int }",
    "scalar": "extend scalar X @deprecated",
}
for _dk in _DEF:
    for _ek in _EXT:
        if _dk != _ek:
            INVALID.append(("extension-of-wrong-kind", [Q + _DEF[_dk] + "\n" + _EXT[_ek]]))
            INVALID.append(("extension-of-wrong-kind", [Q + _DEF[_dk], _EXT[_ek]]))


def evaluate_invalid(label, texts, st=None):
    from py_gql import build_schema
    from py_gql.sdl import extend_schema

    if st is not None:
        st.n("evaluations")
        st.n("invalid:" + label)
    try:
        s = build_schema(texts[0])
        if len(texts) > 1:
            s = extend_schema(s, texts[1])
    except RecursionError:
        return [("invalid-wrong-exception:%s:RecursionError" % label, "%r" % texts)]
    except Exception as e:  # noqa
        if isinstance(e, lib_errors()):
            if st is not None:
                st.nt(repr(texts))
                st.outcome("rejected:" + type(e).__name__)
            return []
        return [("invalid-wrong-exception:%s:%s%s" % (label, type(e).__name__, exc_where(e)), "%s: %s on %r" % (type(e).__name__, str(e)[:200], texts))]
    return [("invalid-accepted:%s" % label, "accepted: %r" % texts)]


# ---------------------------------------------------------------------------------------------
# extend_schema with a document that DEFINES new types and extends them in the same document: every order of
# its definitions (extension blocks before the definition they extend included) gives the schema that
# build_schema gives for the base followed by the definitions-first order

LATE = [
    ("object", ["type New { a: Int }", "extend type New { b: Int }", "extend type Query { n: New }"]),
    ("enum", ["enum E { A }", "extend enum E { B }", "extend type Query { e(x: E = A): E }"]),
    ("input", ["input In { a: Int }", "extend input In { b: Int = 2 }", "extend type Query { f(i: In): Int }"]),
    ("interface", ["interface Ifc { a: Int }", "extend interface Ifc { b: Int }", "type Impl implements Ifc { a: Int b: Int }", "extend type Query { i: Ifc }"]),
    ("union", ["type M1 { a: Int }", "union Un = M1", "extend union Un = Query", "extend type Query { u: Un }"]),
    ("two-extensions", ["type New { a: Int }", "extend type New { b: Int }", "extend type New { c: Int }"]),
    ("directive-use", ["directive @mark(on: Boolean = true) on OBJECT", "type New @mark { a: Int }", "extend type New { b: Int }"]),
]


def evaluate_late(name, defs, st=None):
    import itertools

    from py_gql import build_schema
    from py_gql.sdl import extend_schema

    out = []
    for perm in itertools.permutations(range(len(defs))):
        ordered = [defs[i] for i in perm]
        text = "\n".join(ordered)
        # the same blocks, definitions first, extension blocks in the SAME relative order (member order follows
        # the order of the blocks, so that order is kept), built in one step
        stable = [d for d in ordered if not d.startswith("extend")] + [d for d in ordered if d.startswith("extend")]
        want, _bad = M.sm_from_schema(build_schema(Q + "\n".join(stable)))
        if st is not None:
            st.n("evaluations")
            st.nt((name, perm))
        try:
            got, bad = M.sm_from_schema(extend_schema(build_schema(Q), text))
        except Exception as e:  # noqa
            tag = "lib" if isinstance(e, lib_errors()) else "other"
            out.append(("late-definition:valid-rejected:%s:%s" % (tag, type(e).__name__), "extend_schema(build_schema(%r), %r) raised %s: %s" % (Q, text, type(e).__name__, str(e)[:200])))
            break
        d = M.sm_diff(want, got)
        if d or bad:
            out.append(("late-definition:content-differs:%s" % (d[0][0] if d else "identity"), "extend_schema(build_schema(%r), %r): %s %s" % (Q, text, d[:2], bad[:2])))
            break
        if st is not None:
            st.outcome(("late", name))
    return out


# ---------------------------------------------------------------------------------------------
# cases


def cases(tier):
    for name, defs in LATE:
        yield {"kind": "late", "name": name, "defs": defs}
    b = BOUNDS[tier]
    for i, (label, texts) in enumerate(INVALID):
        yield {"kind": "invalid", "label": label, "texts": texts}
    top = max(b["features_full"], b["features_light"])
    for fs in G.feature_sets(top):
        light = len(fs) > b["features_full"]
        for g in GROUPS:
            yield {"kind": "valid", "features": fs, "group": g, "light": light, "tier": tier}


def check_case(case, st):
    if case["kind"] == "late":
        return [(cls, {"kind": "late", "name": case["name"], "defs": case["defs"]}, d) for cls, d in evaluate_late(case["name"], case["defs"], st)]
    if case["kind"] == "invalid":
        return [(cls, {"kind": "invalid", "label": case["label"], "texts": case["texts"]}, d) for cls, d in evaluate_invalid(case["label"], case["texts"], st)]
    b = BOUNDS[case["tier"]]
    sm = G.build_sm(case["features"])
    vs = variants(sm, case["group"], b, light=case["light"])
    if not vs:
        return []
    st.n("tag:" + case["group"])
    st.mx("definitions", len(M.sm_units(sm)))
    base_classes = {r[0] for r in evaluate(case["features"], BASELINE, None)}
    out = []
    if st.counters.get("cases", 0) % 301 == 1:
        st.sample({"features": case["features"], "group": case["group"], "variants": len(vs), "document": M.sm_to_sdl(sm)[:300]})
    for v in vs:
        if st.out_of_time():
            break
        for res in evaluate(case["features"], v, st):
            out.append((classify_full(case["features"], res, base_classes, v), {"kind": "valid", "features": case["features"], "variant": v}, res[1]))
    return out


def replay(witness):
    if witness["kind"] == "late":
        return evaluate_late(witness["name"], witness["defs"], None)
    if witness["kind"] == "invalid":
        return evaluate_invalid(witness["label"], witness["texts"], None)
    base_classes = {r[0] for r in evaluate(witness["features"], BASELINE, None)}
    return [(classify_full(witness["features"], res, base_classes, witness["variant"]), res[1]) for res in evaluate(witness["features"], witness["variant"], None)]


def selftest():
    M.selftest()
    G.selftest()
    assert len(list(_ordered_partitions("abc"))) == 13
    assert [len(orders(n, 5)) for n in (1, 2, 3, 6)] == [1, 2, 6, 7]
    # the reference validity rules reject what they should
    sm = G.build_sm(["k:iface"])
    sp = {"Impl": {"blocks": [["i:Node", "f:n"], ["f:id"]], "place": "after"}}
    assert M.sm_violations(M.sm_split_expected(sm, sp, base_only=True)) == ["interface-field-missing"]
    assert M.sm_violations(sm) == []
