# -*- coding: utf-8 -*-
"""
C03 -- printing a parsed document and parsing it again is the identity.

Engine E3.  Two exhaustive enumerations, every case pushed through
parse -> print_ast -> parse -> print_ast with include_descriptions=True:

 (H) every string token -- quoted tokens for every content over the string alphabet of DESIGN 4.1
     {a space tab LF " \\ e-acute U+1F600 U+2028 U+00A0} up to Lq characters, block tokens for every
     raw body over the same alphabet up to Lb characters that is one block-string token -- in every
     kind of position that can hold a string (HOSTS: argument value, directive argument, list member,
     object field value, variable default, input-value default, description of each type-definition
     kind / field / argument / enum value / directive / input field), under every indent setting;
 (M) mixed documents: every type-system definition and extension kind, body-less (31 forms) and with a
     body (12), immediately before and immediately after each of 16 executable definitions (anonymous
     queries whose selection set could be re-read as fields / enum values / input fields / operation
     types, named / parameterised / directed queries, mutations, subscriptions, fragments), plus
     three-definition sandwiches; every indent setting;
 (C) coinciding lexemes: small families of documents in which two names of one construct are EQUAL (alias ==
     field name, argument == field, variable == argument, fragment name == field / type, enum value == field,
     directive == field, operation == fragment, object field == argument, and the type-system analogues) --
     the corpus' leaf rotation makes neighbouring names differ on purpose; every indent setting;
 (T) every derivation of the reference grammar (gen/trees.py, both dialects, fragment variables on) up
     to the node bound, with every leaf rotation, under every indent setting; and with each token of
     a feature list (FEATURE_TOKENS: empty, astral, quotes/backslashes, leading blank, trailing
     backslash, NBSP / U+2028, multi-line ...) substituted at each string-capable leaf position.

Oracle: print_ast does not raise; prints twice the same text (and ASTPrinter(...)(node) gives the
same; a second process with another hash seed gives the same); the text parses under the same flags;
the re-parsed tree equals the original up to `loc` (own comparison of to_dict() with loc stripped);
printing the re-parsed tree reproduces the text.
"""
import json
import os
import subprocess
import sys

from mc.gen import layout as L
from mc.gen import trees as T
from mc.ref import strings as RS

READY = True
LEVEL = "exploration"
TECHNIQUE = "bounded-exhaustive enumeration of string tokens x string-holding positions x indent settings, and of grammar derivations x leaf rotations x indents, through parse/print/parse/print"
LEVEL_TEXT = (
    "Every string token up to the length bound in every kind of string-holding position, and every derivation of the "
    "reference grammar up to the node bound, is printed under every indent setting by the real printer and re-parsed by the real "
    "parser; the round-trip laws are checked on each (no sampling). Exhaustive inside the bound; small-scope argument beyond."
)
LEVEL_NOTE = (
    "Trusts py_gql.lang.parse / Node.to_dict() for producing and observing trees (C01/C02) -- the law is stated over "
    "parser-produced trees, whatever they are; the generator and string reference are those of C02 (self-tested)."
)
DESIGN_REF = "DESIGN.md section 6, C03"
RULE = (
    "host cases = one per (host position, first character(s) of the token body); mixed-document cases = chunks of the fixed "
    "list of (type-system definition or extension) x (executable definition) orders; tree cases = chunks of derivation indices per "
    "(dialect, node count), simplest first; one evaluation = one parse/print/parse/print round trip of one (text, indent); "
    "non-trivial = distinct (text) accepted by the parser whose printed form was re-parsed"
)
ASSUMPTIONS = [
    "include_descriptions=True throughout; indent settings are 0, 1, 2, 4, 8, TAB, two spaces",
    "the original tree is whatever the parser produced for the source (decoding defects of C02 are not re-reported here unless the printed text changes the tree)",
    "string contents / raw bodies are drawn from the DESIGN 4.1 string alphabet up to the stated lengths",
]
BOUNDS = {
    "quick": {
        "quoted_len": 2, "block_len": 3, "block_len_long": 4, "long_hosts": 3,
        "nodes": {"fragvars": 6, "sdl": 4}, "depth": 3, "seeds": 10, "cross_process_every": 8,
    },
    "thorough": {
        "quoted_len": 3, "block_len": 4, "block_len_long": 5, "long_hosts": 6,
        "nodes": {"fragvars": 8, "sdl": 7}, "depth": 4, "seeds": 10, "cross_process_every": 4,
    },
}
TIME_CAP = {"quick": 150, "thorough": 1500}
CHUNK = 25
MAX_PER_CLASS_PER_CASE = 2

INDENTS = [0, 1, 2, 4, 8, "\t", "  "]
ALPHA = ["a", " ", "\t", "\n", '"', "\\", "\u00e9", "\U0001F600", "\u2028", "\u00a0"]

# quoted contents additionally draw on control characters the SOURCE can only write as \\uXXXX escapes (C0 controls
# other than the named escapes, DEL) and on U+0085: the printer has to escape or keep them so that the lexer accepts them
# ... and on NON-PRINTABLE characters beyond the BMP (a format character, a private-use one): an escape written for
# them must not be a 4-digit \\u escape of a 5/6-digit code point
Q_CONTROLS = ["\u0000", "\u0007", "\u001b", "\u007f", "\u0085", "\U000E0001", "\U0010FFFD", "\u200b"]
Q_ALPHA = ALPHA + Q_CONTROLS

# (host id, text before the string token, text after it, parser flags); the first `long_hosts` get the longer bodies
HOSTS = [
    ("argument", "{ a(x: ", ") }", {}),
    ("type-description", "", " type T { f: T }", {"allow_type_system": True}),
    ("field-description", "type T { ", " f: T }", {"allow_type_system": True}),
    ("directive-argument", "{ a @d(x: ", ") }", {}),
    ("list-member", "{ a(x: [1 ", "]) }", {}),
    ("object-field", "{ a(x: {k: ", "}) }", {}),
    ("variable-default", "query ($v: T = ", ") { a }", {}),
    ("input-field-default", "input I { x: T = ", " }", {"allow_type_system": True}),
    ("argument-default", "type T { f(x: T = ", "): T }", {"allow_type_system": True}),
    ("argument-description", "type T { f(", " x: T): T }", {"allow_type_system": True}),
    ("enum-value-description", "enum E { ", " A }", {"allow_type_system": True}),
    ("input-field-description", "input I { ", " x: T }", {"allow_type_system": True}),
    ("directive-description", "", " directive @d on QUERY", {"allow_type_system": True}),
    ("directive-argument-description", "directive @d(", " x: T) on QUERY", {"allow_type_system": True}),
    ("scalar-description", "", " scalar S", {"allow_type_system": True}),
    ("interface-description", "", " interface I { f: T }", {"allow_type_system": True}),
    ("union-description", "", " union U = A", {"allow_type_system": True}),
    ("enum-description", "", " enum E { A }", {"allow_type_system": True}),
    ("input-description", "", " input I { x: T }", {"allow_type_system": True}),
    ("interface-field-description", "interface I { ", " f: T }", {"allow_type_system": True}),
    ("nested-field-argument", "{ a { b { c(x: ", ") } } }", {}),
]

# (block, raw body): one token per string-content feature, substituted at every string-capable leaf
FEATURE_TOKENS = [
    (False, ""), (False, "a"), (False, "\U0001F600"), (False, '\\"\\\\'), (False, " \t"), (False, "\\n"),
    (False, "\u2028"), (False, "\u00a0"), (False, "\\ud83d"), (False, "\\u0000"), (False, "\\u001b\\u0007"), (False, "\u007f\u0085"),
    (True, ""), (True, "a"), (True, " a"), (True, " a\\\n"), (True, "\u00a0a"), (True, "a\n b"),
    (True, "  a\nb"), (True, 'a"\n'), (True, ' a"\n'), (True, "\U0001F600"), (True, '\\"""'), (True, "a\n\n  \nb"),
]


# Mixed documents: every type-system definition / extension kind, body-less and with a body, next to every kind of
# executable definition, in both orders.  A printer that abbreviates or re-orders has to keep them apart.
TS_BODYLESS = [
    "scalar S", "scalar S @d", '"d" scalar S',
    "type T", "type T @d", "type T implements I", "type T implements I & J @d",
    "interface I", "interface I @d",
    "union U", "union U @d", "union U = A", "union U @d = A | B",
    "enum E", "enum E @d",
    "input N", "input N @d",
    "directive @d on QUERY", "directive @d(x: T) on QUERY | FIELD",
    "extend scalar S @d",
    "extend type T @d", "extend type T implements I", "extend type T implements I @d(x: 1)",
    "extend interface I @d",
    "extend union U @d", "extend union U = A", "extend union U @d = A",
    "extend enum E @d",
    "extend input N @d",
    "extend schema @d", "extend schema @d(x: {k: 1})",
]
TS_WITH_BODY = [
    "type T { f: T }", "interface I { f: T }", "enum E { A }", "input N { x: T }", "schema { query: Q }",
    "schema @d { query: Q }", "extend type T { f: T }", "extend interface I @d { f: T }", "extend enum E { A }",
    "extend input N { x: T }", "extend schema { query: Q }", "extend schema @d { mutation: M }",
]
EXECUTABLES = [
    # anonymous queries whose selection set could be re-read as fields / enum values / input fields / operation types
    "query { a }", "query { A }", "query { a: b }", "query { query: Q }", "query { a(x: 1) }",
    "query { ...F }", "query { ... on T { a } }", "query { a { b } }",
    "query Q { a }", "query ($v: T) { a }", "query @d { a }",
    "mutation { a }", "mutation M { a }", "subscription { a }",
    "fragment F on T { a }", "fragment F on T @d { a: b }",
]


def mixed_documents():
    """-> list of (id, text); deterministic"""
    out = []
    ts = TS_BODYLESS + TS_WITH_BODY
    for i, t in enumerate(ts):
        for j, e in enumerate(EXECUTABLES):
            out.append(("ts%d>ex%d" % (i, j), t + " " + e))
            # the shorthand may only be WRITTEN first; it is the same tree as `query { ... }`
            first = e[len("query "):] if e.startswith("query {") else e
            out.append(("ex%d>ts%d" % (j, i), first + " " + t))
    for i, t in enumerate(TS_BODYLESS):
        for j in (0, 2, 3):
            out.append(("ts%d>ex%d>ts%d" % (i, j, i), t + " " + EXECUTABLES[j] + " " + t))
            out.append(("ex0>ts%d>ex%d" % (i, j), "{ a } " + t + " " + EXECUTABLES[j]))
    return out


# Coinciding lexemes: the leaf rotation of the corpus makes neighbouring names DIFFER (so that order bugs show);
# these small families make two names of one construct EQUAL, where a printer might think one of them redundant.
COINCIDENCES = [
    ("alias==field", [
        "{ id: id }", "{ a: a b: b }", "{ a: a(x: 1) }", "{ a: a @d }", "{ a: a { b: b } }", "{ x { id: id } }",
        "query Q { a: a }", "mutation { a: a }", "fragment F on T { a: a }", "{ ... on T { a: a } }",
        "{ a: a a: b b: a }", "{ on: on }", "{ query: query }", "{ true: true }",
    ]),
    ("argument==field", ["{ a(a: 1) }", "{ a(a: $a) }", "{ a: a(a: a) }", "{ x { a(a: [a]) } }", "{ a @a(a: 1) }"]),
    ("variable==argument", [
        "query ($x: T) { a(x: $x) }", "query Q($a: T = a) { a(a: $a) }", "query ($a: T @a) { a @a(a: $a) }",
        "query ($x: T) { a(x: {x: $x}) }", "query ($x: T) { a(x: [$x, $x]) }",
    ]),
    ("fragment==field-or-type", [
        "{ ...a a } fragment a on T { a }", "{ a { ...T } } fragment T on T { a }", "fragment F on F { F }",
        "{ ...F } fragment F on T { ...F }", "{ ... on a { a } }", "fragment a on a @a { a: a }",
    ]),
    ("enum-value==field", ["{ a(x: a) }", "{ RED(c: RED) }", "{ a(x: [a, a]) }", "{ a(x: {a: a}) }", "query ($v: T = v) { v }"]),
    ("directive==field", ["{ a @a }", "{ a @a(a: a) }", "query a @a { a }", "{ ...a @a } fragment a on a { a }", "{ ... @a { a } }"]),
    ("operation==fragment", [
        "query F { ...F } fragment F on T { a }", "mutation a { a } fragment a on T { a }",
        "query Q { a } query Q { b }", "subscription query { query }", "query query { query }", "query mutation { mutation }",
    ]),
    ("object-field==argument", ["{ a(x: {x: 1}) }", "{ a(x: {x: {x: $x}}) }", "{ a @d(k: {k: k}) }", "query ($x: T = {x: 1}) { a(x: $x) }"]),
    ("type-system", [
        "type T { T: T }", "type T implements T { f(f: T = f): T @f }", "interface I { I(I: I): I }", "union U = U | V",
        "enum E { E }", "enum A { A @A }", "input I { I: I = I }", "directive @d(d: T) on FIELD | FIELD",
        "scalar query", "type query { query: query }", "schema { query: query mutation: query }",
        "extend type T implements T @T { T: T }", "extend union U = U", "extend enum E { E }", "extend input I @I { I: I }",
        "schema @schema { query: schema }", "directive @on on QUERY",
    ]),
]


def coinciding_documents():
    out = []
    for fam, docs in COINCIDENCES:
        for k, text in enumerate(docs):
            out.append(("%s#%d" % (fam, k), text))
    return out


MIXED_FLAGS = {"allow_type_system": True}
MIXED_CHUNK = 60


def selftest():
    from mc.ref import strings as _RS  # noqa

    assert len({i for i, _ in mixed_documents()}) == len(mixed_documents())
    RS.selftest()
    L.selftest()
    for block, body in FEATURE_TOKENS:
        assert (RS.decode_block(body) if block else RS.decode_quoted(body)) is not None, (block, body)
    assert quote_content('a"\\\n') == 'a\\"\\\\\\n'
    assert RS.decode_quoted(quote_content('a"\\\n\t ')) == 'a"\\\n\t '


def quote_content(c):
    """a quoted-string body whose value is c (only what has to be escaped is escaped)"""
    out = []
    for ch in c:
        if ch == '"':
            out.append('\\"')
        elif ch == "\\":
            out.append("\\\\")
        elif ch == "\n":
            out.append("\\n")
        elif ch == "\r":
            out.append("\\r")
        elif ord(ch) < 0x20 and ch != "\t" or ord(ch) == 0x7F:
            out.append("\\u%04x" % ord(ch))
        else:
            out.append(ch)
    return "".join(out)


def _strings(maxlen, prefix="", alpha=None):
    alpha = alpha or ALPHA
    yield prefix
    if len(prefix) < maxlen:
        for c in alpha:
            for x in _strings(maxlen, prefix + c, alpha):
                yield x


def cases(tier):
    b = BOUNDS[tier]
    for hi, h in enumerate(HOSTS):
        yield {"k": "h", "host": h[0], "block": False, "prefix": "", "len": 0, "tier": tier}
        yield {"k": "h", "host": h[0], "block": True, "prefix": "", "len": 0, "tier": tier}
    for hi, h in enumerate(HOSTS):
        for c in Q_CONTROLS:
            yield {"k": "h", "host": h[0], "block": False, "prefix": c, "len": b["quoted_len"], "tier": tier}
        for c in ALPHA:
            yield {"k": "h", "host": h[0], "block": False, "prefix": c, "len": b["quoted_len"], "tier": tier}
            yield {
                "k": "h", "host": h[0], "block": True, "prefix": c,
                "len": b["block_len_long"] if hi < b["long_hosts"] else b["block_len"], "tier": tier,
            }
    for fam, docs in COINCIDENCES:
        yield {"k": "c", "family": fam, "tier": tier}
    # structured block strings (lines with mixed space / tab indentation) as argument value and as description
    for hid in ("argument", "type-description", "field-description"):
        for first in T.BLOCK_FIRST:
            yield {"k": "hb", "host": hid, "first": first, "lines": 2 if tier == "quick" else 3, "tier": tier}
    nm = len(mixed_documents())
    for lo in range(0, nm, MIXED_CHUNK):
        yield {"k": "m", "lo": lo, "hi": min(nm, lo + MIXED_CHUNK), "tier": tier}
    nmax = max(b["nodes"].values())
    for n in range(1, nmax + 1):
        for dialect in ("fragvars", "sdl"):
            if n > b["nodes"][dialect]:
                continue
            c = T.count(dialect, n, b["depth"])
            for lo in range(0, c, CHUNK):
                yield {"k": "t", "dialect": dialect, "n": n, "d": b["depth"], "lo": lo, "hi": min(c, lo + CHUNK), "tier": tier}


# ------------------------------------------------------------------------------------------------
# oracle


def strip_loc(d):
    if isinstance(d, dict):
        return {k: strip_loc(v) for k, v in d.items() if k != "loc"}
    if isinstance(d, list):
        return [strip_loc(x) for x in d]
    return d


def _is_py_blank_only(ch):
    return ch not in " \t\n" and (ch.isspace() or ch in RS.PY_LINE_BREAKS)


def value_change(a, b):
    """mechanical label of how a string value changed across the round trip"""
    split = "".join(ch if ord(ch) <= 0xFFFF else _surrogates(ch) for ch in a)
    if b == split:
        return "astral-split-into-surrogates"

    import collections

    ca, cb = collections.Counter(a), collections.Counter(b)
    lost = sorted(set((ca - cb).keys()))
    gained = sorted(set((cb - ca).keys()))

    def cps(chars):
        return "+".join("U+%04X" % ord(c) for c in chars[:3]) + ("+more" if len(chars) > 3 else "")

    if not lost and not gained:
        return "reordered"
    py_only = [c for c in lost if _is_py_blank_only(c)]
    if py_only and not gained:
        # a character only Python calls blank was taken for indentation; the spaces / tabs around it go with it
        return "lost-python-blank:%s" % cps(py_only)
    return "lost:%s;gained:%s" % (cps(lost) or "-", cps(gained) or "-")


def _surrogates(ch):
    o = ord(ch) - 0x10000
    return chr(0xD800 + (o >> 10)) + chr(0xDC00 + (o & 0x3FF))


def culprits(text, flags, indent, failing):
    """
    Which parts of the document make print / re-parse fail?  -> list of labels (one violation each):

      * with every StringValue neutralised (value := "x") the failure persists: a non-string cause --
        "definition:<Kind>" when that definition printed alone still fails, else
        "definitions-interact:<Kind>-after-<Kind|type-system-definition>" for the first failing prefix;
      * for every definition that fails when printed alone: every string of it that breaks the definition
        with all other strings neutralised -- "<description|value>/<block|quoted>" -- or
        "several-strings-together" when only a combination does.
    """
    from py_gql.lang import parse, print_ast
    from mc.ref import visit as RV

    def fails(t):
        try:
            p = print_ast(t, indent=indent, include_descriptions=True)
        except Exception:  # noqa
            return failing == "print"
        if failing == "print":
            return False
        try:
            parse(p, **flags)
        except Exception:  # noqa
            return True
        return False

    def strings_of(node):
        return [p for p in RV.positions(node) if p.kind == "StringValue"]

    labels = []
    t = parse(text, **flags)
    ndefs = len(t.definitions)
    for P in strings_of(t):
        P.node.value = "x"
    if fails(t):
        lab = None
        for d in t.definitions:
            if fails(type(t)(definitions=[d])):
                lab = "definition:%s" % type(d).__name__
                break
        if lab is None:
            for k in range(2, ndefs + 1):
                if fails(type(t)(definitions=t.definitions[:k])):
                    prev = type(t.definitions[k - 2]).__name__
                    if prev not in ("OperationDefinition", "FragmentDefinition"):
                        prev = "type-system-definition"
                    lab = "definitions-interact:%s-after-%s" % (type(t.definitions[k - 1]).__name__, prev)
                    break
        labels.append(lab or "unexplained-without-strings")
    for k in range(ndefs):
        t = parse(text, **flags)
        single = type(t)(definitions=[t.definitions[k]])
        if not fails(single):
            continue
        n = len(strings_of(single))
        found = []
        for m in range(n):
            # every string but the m-th neutralised: does the m-th alone break it?
            t = parse(text, **flags)
            single = type(t)(definitions=[t.definitions[k]])
            ss = strings_of(single)
            form = "block" if ss[m].node.block else "quoted"
            where = "description" if ss[m].slot == "description" else "value"
            for q, P in enumerate(ss):
                if q != m:
                    P.node.value = "x"
            if fails(single):
                found.append("%s/%s" % (where, form))
        if not found:
            t = parse(text, **flags)
            single = type(t)(definitions=[t.definitions[k]])
            for P in strings_of(single):
                P.node.value = "x"
            if not fails(single):
                found.append("several-strings-together")
        for f in found:
            if f not in labels:
                labels.append(f)
    return labels or ["unexplained"]


def first_diff(a, b, ctx="-"):
    """first difference of two loc-stripped to_dict() trees -> (where, feature, detail) or None"""
    if isinstance(a, dict) and isinstance(b, dict):
        kind = a.get("__kind__")
        if kind != b.get("__kind__"):
            return "%s" % ctx, "kind", "%s became %s" % (kind, b.get("__kind__"))
        for k in sorted(a):
            if isinstance(a[k], (dict, list)) or isinstance(b.get(k), (dict, list)):
                continue
            if a[k] != b.get(k) or type(a[k]) is not type(b.get(k)):
                feat = "-"
                if kind == "StringValue" and k == "value":
                    feat = "%s/%s" % ("block" if a["block"] else "quoted", value_change(a[k], b.get(k)))
                return "%s.%s" % (kind, k), feat, "%r became %r" % (a[k], b.get(k))
        for k in sorted(a):
            x, y = a[k], b.get(k)
            if isinstance(x, dict) or isinstance(y, dict):
                if not isinstance(y, dict):
                    return "%s.%s" % (kind, k), "dropped", "%s node became %r" % (x.get("__kind__"), y)
                if not isinstance(x, dict):
                    return "%s.%s" % (kind, k), "appeared", "%r became a %s node" % (x, y.get("__kind__"))
                r = first_diff(x, y, "%s.%s" % (kind, k))
                if r:
                    return r
            elif isinstance(x, list):
                if not isinstance(y, list) or len(x) != len(y):
                    return "%s.%s" % (kind, k), "list-length", "%d members became %r" % (len(x), (len(y) if isinstance(y, list) else y))
                for p, q in zip(x, y):
                    r = first_diff(p, q, "%s.%s" % (kind, k))
                    if r:
                        return r
        return None
    if a != b:
        return ctx, "-", "%r became %r" % (a, b)
    return None


def roundtrip(text, flags, indent, st=None, collect=None):
    from py_gql.exc import GraphQLSyntaxError
    from py_gql.lang import parse, print_ast
    from py_gql.lang.printer import ASTPrinter

    if st is not None:
        st.n("evaluations")
    try:
        t = parse(text, **flags)
    except GraphQLSyntaxError:
        if st is not None:
            st.n("rejected_by_parser(not judged here)")
        return []
    except Exception as e:  # noqa
        return [("crash:parse:%s" % type(e).__name__, "%r on %r" % (e, text))]
    raw0 = t.to_dict()
    d0 = strip_loc(raw0)
    what = "indent=%r source=%r" % (indent, text)
    try:
        p1 = print_ast(t, indent=indent, include_descriptions=True)
    except Exception as e:  # noqa
        return [("print-raises:%s/%s" % (type(e).__name__, c), "%r; %s" % (e, what)) for c in culprits(text, flags, indent, "print")]
    if not isinstance(p1, str):
        return [("print-returns-non-string", "%r; %s" % (p1, what))]
    out = []
    try:
        p1b = print_ast(t, indent=indent, include_descriptions=True)
        p1c = ASTPrinter(indent=indent, include_descriptions=True)(t)
    except Exception as e:  # noqa
        return [("print-raises-second-time:%s" % type(e).__name__, "%r; %s" % (e, what))]
    if p1b != p1 or p1c != p1:
        out.append(("nondeterministic", "%r vs %r vs %r; %s" % (p1, p1b, p1c, what)))
    if t.to_dict() != raw0:
        out.append(("print-mutates-tree", what))
    if collect is not None:
        collect.append((text, flags, indent, p1))
    try:
        t2 = parse(p1, **flags)
    except GraphQLSyntaxError as e:
        return out + [("reparse-fails/%s" % c, "%s on printed %r; %s" % (type(e).__name__, p1, what)) for c in culprits(text, flags, indent, "reparse")]
    except Exception as e:  # noqa
        return out + [("crash:reparse:%s" % type(e).__name__, "%r on printed %r; %s" % (e, p1, what))]
    if st is not None:
        st.nt(text)
    d2 = strip_loc(t2.to_dict())
    if d2 != d0:
        where, feat, detail = first_diff(d0, d2) or ("?", "-", "")
        return out + [("tree-differs/%s/%s" % (where, feat), "%s; printed %r; %s" % (detail, p1, what))]
    try:
        p2 = print_ast(t2, indent=indent, include_descriptions=True)
    except Exception as e:  # noqa
        return out + [("print-raises-on-reparsed:%s" % type(e).__name__, "%r; %s" % (e, what))]
    if p2 != p1:
        out.append(("not-fixpoint", "%r then %r; %s" % (p1, p2, what)))
    if st is not None and not out:
        st.n("round_trips_ok")
    return out


_CHILD = r"""
import json, sys
from py_gql.lang import parse, print_ast
items = json.load(sys.stdin)
out = []
for text, flags, indent in items:
    try:
        out.append(print_ast(parse(text, **flags), indent=indent, include_descriptions=True).encode("utf-8", "surrogatepass").hex())
    except Exception as e:
        out.append("!" + type(e).__name__)
json.dump(out, sys.stdout)
"""


def cross_process(collected):
    """print the same documents in a fresh interpreter under another hash seed"""
    if not collected:
        return []
    env = dict(os.environ)
    env["PYTHONHASHSEED"] = "12345"
    items = [[t, f, i] for t, f, i, _ in collected]
    r = subprocess.run([sys.executable, "-c", _CHILD], input=json.dumps(items).encode("utf-8"), env=env, stdout=subprocess.PIPE, stderr=subprocess.PIPE, timeout=120)
    if r.returncode != 0:
        raise RuntimeError("cross-process printer failed: %s" % r.stderr.decode("utf-8", "replace")[-500:])
    got = json.loads(r.stdout.decode("utf-8"))
    out = []
    for (t, f, i, p1), p in zip(collected, got):
        if p != p1.encode("utf-8", "surrogatepass").hex():
            out.append(("nondeterministic-across-processes", {"k": "x", "text": t, "flags": f, "indent": i}, "%r vs %r for %r" % (p1, p, t)))
    return out


# ------------------------------------------------------------------------------------------------


def _host(hid):
    for h in HOSTS:
        if h[0] == hid:
            return h
    raise KeyError(hid)


def host_text(hid, block, body):
    h = _host(hid)
    q = '"""' if block else '"'
    return h[1] + q + body + q + h[2], dict(h[3])


def _tree_text(dialect, n, d, i, seed, sub):
    term = T.unrank(dialect, n, d, i)
    strings = None
    if sub is not None:
        k0, block, body = sub
        strings = lambda k, pool: (block, body) if k == k0 else None  # noqa
    tokens, _ = T.realize(term, T.leaf_seed(i, seed), strings=strings)
    text, _ = L.render(tokens, L.default_gaps(tokens))
    flags = dict(T.parser_flags(dialect))
    flags["experimental_fragment_variables"] = True
    return text, flags, term


def check_case(case, st):
    out = []
    per_class = {}

    def emit(cls, wit, detail):
        k = per_class.get(cls, 0)
        per_class[cls] = k + 1
        if k < MAX_PER_CLASS_PER_CASE:
            out.append((cls, wit, detail))
        else:
            st.n("further_witnesses_not_listed:" + cls)

    if case["k"] == "h":
        hid, block = case["host"], case["block"]
        cnt = 0
        for s in _strings(case["len"], case["prefix"], ALPHA if block else Q_ALPHA):
            if case["prefix"] and len(s) < len(case["prefix"]):
                continue
            if block:
                if RS.scan_block(s) is None:
                    continue
                body = s
            else:
                body = quote_content(s)
            text, flags = host_text(hid, block, body)
            cnt += 1
            for ind in range(len(INDENTS)):
                for cls, detail in roundtrip(text, flags, INDENTS[ind], st):
                    st.outcome((hid, cls))
                    emit(cls, {"k": "h", "host": hid, "block": block, "body": body, "indent": ind}, detail)
            if cnt % 256 == 0 and st.out_of_time():
                break
        st.n("string_tokens_in_hosts", cnt)
        st.mx("token_body_len:" + ("block" if block else "quoted"), case["len"])
        return out

    if case["k"] == "hb":
        cnt = 0
        for k in range(2, case["lines"] + 1):
            for body in T.block_family(case["first"], k, "\n", between=[None, " \t"], trail=["", "T  "]):
                if RS.scan_block(body) is None:
                    continue
                cnt += 1
                text, flags = host_text(case["host"], True, body)
                for ind in ((cnt + j) % len(INDENTS) for j in (0, 3)):
                    for cls, detail in roundtrip(text, flags, INDENTS[ind], st):
                        emit(cls, {"k": "h", "host": case["host"], "block": True, "body": body, "indent": ind}, detail)
        st.n("structured_block_tokens_in_hosts", cnt)
        return out

    if case["k"] == "c":
        for cid, text in coinciding_documents():
            if not cid.startswith(case["family"] + "#"):
                continue
            st.n("coinciding_lexeme_documents")
            for ind in range(len(INDENTS)):
                for cls, detail in roundtrip(text, dict(MIXED_FLAGS), INDENTS[ind], st):
                    emit(cls, {"k": "c", "id": cid, "text": text, "indent": ind}, detail)
        return out

    if case["k"] == "m":
        docs = mixed_documents()
        for mid, text in docs[case["lo"]:case["hi"]]:
            st.n("mixed_documents")
            for ind in range(len(INDENTS)):
                for cls, detail in roundtrip(text, dict(MIXED_FLAGS), INDENTS[ind], st):
                    emit(cls, {"k": "m", "id": mid, "text": text, "indent": ind}, detail)
        return out

    b = BOUNDS[case["tier"]]
    dialect, n, d = case["dialect"], case["n"], case["d"]
    collected = []
    do_cross = (case["lo"] // CHUNK) % b["cross_process_every"] == 0
    for i in range(case["lo"], case["hi"]):
        if st.out_of_time():
            st.n("derivations_skipped_by_time_cap", case["hi"] - i)
            break
        st.n("derivations")
        st.n("derivations:" + dialect)
        term = None
        for seed in range(b["seeds"]):
            text, flags, term = _tree_text(dialect, n, d, i, seed, None)
            inds = range(len(INDENTS)) if seed == 0 else [(seed + i) % len(INDENTS)]
            for ind in inds:
                col = collected if (do_cross and seed == 0 and ind == 2) else None
                for cls, detail in roundtrip(text, flags, INDENTS[ind], st, col):
                    emit(cls, {"k": "t", "dialect": dialect, "n": n, "d": d, "i": i, "seed": seed, "sub": None, "indent": ind}, detail)
        pools = T.leaf_pools(term)
        st.n("string_positions", len(pools))
        for k0 in range(len(pools)):
            for ti, (block, body) in enumerate(FEATURE_TOKENS):
                sub = [k0, block, body]
                text, flags, _ = _tree_text(dialect, n, d, i, 0, sub)
                ind = (k0 + ti + i) % len(INDENTS)
                for cls, detail in roundtrip(text, flags, INDENTS[ind], st):
                    emit(cls, {"k": "t", "dialect": dialect, "n": n, "d": d, "i": i, "seed": 0, "sub": sub, "indent": ind}, detail)
        if i % 173 == 0:
            st.sample({"dialect": dialect, "n": n, "i": i, "text": _tree_text(dialect, n, d, i, 0, None)[0]})
    if do_cross and collected:
        st.n("cross_process_prints", len(collected))
        for cls, wit, detail in cross_process(collected):
            emit(cls, wit, detail)
    st.mx("nodes:" + dialect, n)
    return out


def replay(witness):
    k = witness["k"]
    if k == "h":
        text, flags = host_text(witness["host"], witness["block"], witness["body"])
        return roundtrip(text, flags, INDENTS[witness["indent"]])
    if k in ("m", "c"):
        return roundtrip(witness["text"], dict(MIXED_FLAGS), INDENTS[witness["indent"]])
    if k == "x":
        col = []
        roundtrip(witness["text"], witness["flags"], witness["indent"], None, col)
        return [(c, d) for c, _, d in cross_process(col)]
    text, flags, _ = _tree_text(witness["dialect"], witness["n"], witness["d"], witness["i"], witness["seed"], witness["sub"])
    return roundtrip(text, flags, INDENTS[witness["indent"]])
