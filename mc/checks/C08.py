# -*- coding: utf-8 -*-
"""
C08 -- results do not depend on runtime, executor variant or completion order.

Engine E1 (stateless exploration of the real implementation under schedulers we own):

* task-granular: for every scenario (query shape x resolver-style assignment x outcome overrides)
  the operation is executed under the five configurations of mc/sched/harness.py; under the asyncio
  runtime (virtual loop) and the thread-pool runtime (controlled pool) EVERY completion order of the
  pending resolver results is explored, plus early / batched completions up to a deviation bound;
* bytecode-granular: the future combinators of runtime/threadpool.py (gather_futures, chain,
  unwrap_future) are completed by 2-3 real threads under the sys.monitoring baton scheduler, every
  interleaving at CPython's thread-switch granularity up to a preemption bound; executor-level
  two-worker runs at a small preemption bound.

Oracle: data (ordered JSON) and error multiset equal to the optimised blocking executor's on the
same scenario; no stuck state (all resolver jobs done but overall result pending); an injected
unexpected RuntimeError surfaces as the failure of the overall result with that very exception.
"""
import itertools
import json

from mc.explore import HarnessError, explore, run_once

READY = True
LEVEL = "model_checking"
TECHNIQUE = "stateless exhaustive exploration of completion orders (virtual asyncio loop, controlled pool) and of thread interleavings (sys.monitoring baton scheduler) of the real executor, differential oracle against the blocking executor"
LEVEL_TEXT = (
    "Every completion order of in-flight resolver results (plus early/batched completions up to the stated "
    "deviation bound) is executed on the real Executor/AsyncIORuntime/ThreadPoolRuntime for each bounded scenario, "
    "and every thread interleaving of the future combinators up to the stated preemption bound; each execution is "
    "an implementation trace, compared with the blocking executor's result."
)
LEVEL_NOTE = (
    "Schedulers own: asyncio ready queue and external completions (virtual loop), pool job completion order "
    "(controlled pool), thread switches at CPython 3.12 eval-breaker points inside py_gql frames (baton). "
    "concurrent.futures.Future methods are treated as atomic. Sub-bytecode races of free-threaded builds are out of scope."
)
DESIGN_REF = "DESIGN.md section 5 and section 6, C08"
RULE = (
    "case = (query shape, resolver style per field coordinate in {default, sync, async, nested = deferred result that is itself deferred}, outcome overrides on <=k response paths from "
    "{ResolverError and subclass, another located library error, unexpected RuntimeError, null, lazily failing unsized / sized sequences, bad leaf values}; shapes include a custom scalar serialising non-null values to null); per case every configuration is run, and under asyncio / thread pool all "
    "completion orders (+ early completions up to the bound); baton cases = combinator harnesses x all interleavings up to the "
    "preemption bound. evaluation = one execution compared with the reference; non-trivial = distinct (case, config, schedule) "
    "with at least one scheduling choice point"
)
ASSUMPTIONS = [
    "call_soon FIFO order and _run_once batching as documented for asyncio",
    "Future.set_result/add_done_callback are linearizable (no scheduling point inside concurrent.futures frames)",
    "one injected unexpected exception per scenario (so 'that exception' is unambiguous)",
]
BOUNDS = {
    "quick": {"styles": "uniform+single-deviation", "overrides": "singles", "free_order_upto": 4, "early_bound": 0, "early_bound_small": 1, "deviations_large": 1, "baton_preemptions": 2},
    "thorough": {"styles": "quick set", "overrides": "singles + pairs of ResolverErrors", "free_order_upto": 5, "early_bound": 1, "early_bound_small": 2, "deviations_large": 2, "baton_preemptions": 3},
}
TIME_CAP = {"quick": 150, "thorough": 1500}

SHAPES = [
    ("siblings", "{ a b c }", ["Query.a", "Query.b", "Query.c"]),
    ("nested", "{ o { x y } a }", ["Query.o", "Obj.x", "Obj.y", "Query.a"]),
    ("list-leaves", "{ l { x y } }", ["Obj.x", "Obj.y"]),
    ("list-parent", "{ l { x } b }", ["Query.l", "Obj.x", "Query.b"]),
    ("nonnull", "{ n { y x } c }", ["Query.n", "Obj.y", "Query.c"]),
    ("nonnull-list", "{ ln { y } a }", ["Query.ln", "Obj.y", "Query.a"]),
    ("abstract", "{ i { id ... on Obj { x } } u { ... on Obj { x } ... on Other { z } } }", ["Query.i", "Obj.x", "Other.z", "Query.u"]),
    ("deep", "{ o { o { x } x } b }", ["Query.o", "Obj.o", "Obj.x", "Query.b"]),
    ("alias-dup", "{ p: a q: a a b }", ["Query.a", "Query.b"]),
    ("args", "{ s t: s(v: 1) a }", ["Query.s", "Query.a"]),
    ("nested-list", "{ l { l { x } } }", ["Obj.l", "Obj.x"]),
    ("typename", "{ __typename o { __typename x } a }", ["Query.o", "Obj.x", "Query.a"]),
    # root type with exactly one field, selected repeatedly through aliases (schema-shape shortcuts)
    ("single-root", "{ p: o { x } q: o(id: 2) { x o { x } } }", ["Query.o", "Obj.x", "Obj.o"], "single"),
    ("objects", "{ things { id ... on Obj { x } ... on Other { z } } a }", ["Query.things", "Query.a"]),
    ("empty-list", "{ el { x } a nums }", ["Query.el", "Query.a", "Query.nums"]),
    ("schema-default-resolver", "{ a o { x y } l { x } b }", ["Query.a", "Query.b"], "full+schema-default"),
    ("type-default-resolver", "{ o { x y o { x } } b }", ["Query.b", "Query.o"], "full+type-default"),
    ("scalar-list", "{ nums a w }", ["Query.nums", "Query.a", "Query.w"]),
    # a response key selected directly and again inside a later fragment, another key in between
    ("dup-in-fragment", "{ a ...F w } fragment F on Query { b a o { x } }", ["Query.a", "Query.b", "Query.w", "Obj.x"]),
    ("fragments", "{ ...F ... on Query { b } } fragment F on Query { a o { ...G } } fragment G on Obj { x y }", ["Query.a", "Query.b", "Obj.x", "Obj.y"]),
    # a custom scalar whose serialisation yields null for a non-null value: nullable, non-null and list-item positions
    ("serialize-to-null", "{ bl bv a }", ["Query.bl", "Query.a"], "scalars"),
    ("serialize-to-null-nonnull", "{ a bn }", ["Query.a", "Query.bn"], "scalars"),
    ("serialize-to-null-item", "{ bls bv }", ["Query.bls", "Query.bv"], "scalars"),
    # null items (nullable and non-null item types) and lists of lists: the two executors complete lists with different code
    ("null-items", "{ lz { x y } numz a lzn { y } }", ["Query.lz", "Obj.x", "Query.lzn"]),
    ("matrix", "{ mx mo { x y } a }", ["Query.mo", "Obj.x"]),
    ("matrix-nonnull", "{ mon { y x } b }", ["Query.mon", "Obj.y"]),
]
STYLES = ("default", "sync", "async", "nested", "submit")


def _style_assignments(coords, tier):
    k = len(coords)
    if tier == "thorough" and k <= 1:
        for combo in itertools.product(STYLES, repeat=k):
            if any(c != "default" for c in combo):
                yield combo
        return
    seen = set()
    out = []
    for base in ("sync", "async"):
        out.append(tuple([base] * k))
        for i in range(k):
            for alt in ("default", "sync", "async"):
                if alt != base:
                    c = [base] * k
                    c[i] = alt
                    out.append(tuple(c))
    # alternating mixes
    out.append(tuple(("sync", "async")[i % 2] for i in range(k)))
    out.append(tuple(("async", "sync")[i % 2] for i in range(k)))
    out.append(tuple(("default", "async")[i % 2] for i in range(k)))
    out.append(tuple(("async", "default")[i % 2] for i in range(k)))
    # a deferred result that is itself deferred: one such field among default / sync ones
    for i in range(k):
        for base, special in (("default", "nested"), ("sync", "nested"), ("default", "submit")):
            c = [base] * k
            c[i] = special
            out.append(tuple(c))
    for c in out:
        if c not in seen and any(x != "default" for x in c):
            seen.add(c)
            yield c


def cases(tier):
    for shape in SHAPES:
        name, query, coords = shape[:3]
        sdl = shape[3] if len(shape) > 3 else "full"
        for combo in _style_assignments(coords, tier):
            custom = {c: s for c, s in zip(coords, combo) if s != "default"}
            yield {"kind": "exec", "shape": name, "query": query, "custom": custom, "sdl": sdl}
    from mc.checks import _baton_cases

    for c in _baton_cases.cases(tier):
        yield c


LIST_FIELDS = ("l", "ln", "u", "m4", "lz", "lzn", "mo", "mon", "mx")
ABSTRACT_FIELDS = ("i", "u")
INT_FIELDS = ("a", "b", "c", "x", "y", "z", "w", "s", "p", "q", "t")


def _override_sets(paths, tier):
    yield {}
    for p in paths:
        for o in ("err", "err-sub", "err-lib", "boom", "null"):
            yield {p: o}
        last = p.split(".")[-1]
        if last in LIST_FIELDS:
            yield {p: "lazy-err"}
            yield {p: "lazy-sized-err"}
            yield {p: "as-tuple"}
            yield {p: "as-gen"}
        if last in ABSTRACT_FIELDS:
            yield {p: "type-err"}
        if last in INT_FIELDS:
            yield {p: "bad"}
        if last == "nums":
            yield {p: "bad-item"}
    if tier == "thorough":
        for p, q in itertools.combinations(paths, 2):
            for o1, o2 in (("err", "err"),):
                yield {p: o1, q: o2}


def _key(obs):
    return (obs["status"], obs.get("data"), json.dumps(obs.get("errors")), obs.get("exc"))


def _classify(cfg, ref, obs):
    if obs["status"] in ("stuck", "horizon"):
        return "%s/stuck" % cfg
    if ref["status"] == "exc":
        if obs["status"] == "ok":
            return "%s/exception-lost" % cfg
        if obs["status"] == "exc" and obs.get("exc") != ref.get("exc"):
            return "%s/exception-replaced" % cfg
        return "%s/status-differs" % cfg
    if obs["status"] != ref["status"]:
        return "%s/unexpected-%s" % (cfg, obs["status"])
    if obs.get("data") != ref.get("data"):
        return "%s/data-differs" % cfg
    return "%s/errors-differ" % cfg


def _check_exec(case, st, tier):
    from mc.sched import harness as H

    b = BOUNDS[tier]
    out = []
    base = {"query": case["query"], "custom": case["custom"], "sdl": case.get("sdl", "full")}
    # invoked custom paths from a fault-free reference run
    ref0, w0 = H.run_config("blocking-opt", dict(base, overrides={}), None, fast=True)
    paths = []
    for e in w0.log:
        if e[0] == "invoke" and e[1] not in paths:
            paths.append(e[1])
    # ... and from the generic executor: a resolver only ONE of the executors reaches is a failure site too
    _, w1 = H.run_config("blocking-gen", dict(base, overrides={}), None, fast=True)
    for e in w1.log:
        if e[0] == "invoke" and e[1] not in paths:
            paths.append(e[1])
    ndef = len([e for e in w0.log if e[0] == "invoke"])
    for ov in _override_sets(paths, tier):
        scn = dict(base, overrides=ov)
        ref, _ = H.run_config("blocking-opt", scn, None, fast=True)
        st.n("evaluations")
        for cfg in H.CONFIGS[1:] + (("entry-blocking", "entry-graphql") if not ov else ()):
            if cfg in ("blocking-gen", "entry-blocking"):
                obs, _ = H.run_config(cfg, scn, None, fast=True)
                st.n("evaluations")
                st.n("executions")
                st.n("states")
                st.n("transitions")
                if _key(obs) != _key(ref):
                    out.append((_classify(cfg, ref, obs), {"kind": "exec", "scn": scn, "config": cfg, "choices": []},
                                "expected %s got %s" % (_key(ref), _key(obs))))
                continue
            # all completion orders are free (cost 0) while few results are in flight; beyond that an
            # out-of-order completion costs one deviation, like an early / batched completion
            free = ndef <= b["free_order_upto"]
            if free:
                bound = b["early_bound_small"] if ndef <= 3 else b["early_bound"]
            else:
                bound = b["deviations_large"]

            def body(ch, cfg=cfg, scn=scn, free=free):
                return _run(cfg, scn, ch, free)

            bad = 0
            for choices, (obs, world) in explore(body, bound=bound, st=st, max_execs=(4000 if tier == "quick" else 60000)):
                st.n("evaluations")
                if choices:
                    st.nt((case["shape"], sorted(case["custom"].items()), sorted(ov.items()), cfg, choices))
                st.outcome(_key(obs))
                if _key(obs) != _key(ref):
                    bad += 1
                    if bad <= 2:
                        # replay twice: the same schedule must fail every time
                        o2 = run_once(body, choices)[1][0]
                        o3 = run_once(body, choices)[1][0]
                        if _key(o2) != _key(obs) or _key(o3) != _key(obs):
                            raise HarnessError("non-deterministic replay of %r under %s" % (choices, cfg))
                        out.append((_classify(cfg, ref, obs), {"kind": "exec", "scn": scn, "config": cfg, "choices": choices, "free": free},
                                    "expected %s got %s trace=%s" % (_key(ref), _key(obs), obs.get("trace"))))
                if st.out_of_time():
                    break
    if st.counters.get("cases", 0) % 37 == 1:
        st.sample({"shape": case["shape"], "query": case["query"], "custom": case["custom"], "deferred_invocations": ndef})
    return out


def _run(cfg, scn, ch, free):
    from mc.sched import harness as H
    from mc.sched import pool as P
    from mc.sched import vloop as V

    # order deviations are free when the number of deferred items is small, else cost 1
    old_v, old_p = V.ORDER_COST, P.ORDER_COST
    V.ORDER_COST = P.ORDER_COST = 0 if free else 1
    try:
        return H.run_config(cfg, scn, ch, fast=True)
    finally:
        V.ORDER_COST, P.ORDER_COST = old_v, old_p


def check_case(case, st):
    if case["kind"] == "exec":
        return _check_exec(case, st, st.tier)
    from mc.checks import _baton_cases

    return _baton_cases.check_case(case, st, BOUNDS[st.tier]["baton_preemptions"])


def replay(w):
    if w.get("kind") == "exec":
        from mc.sched import harness as H

        scn = w["scn"]
        ref, _ = H.run_config("blocking-opt", scn, None, fast=True)
        if w["config"] in ("blocking-gen", "entry-blocking"):
            obs, _ = H.run_config(w["config"], scn, None, fast=True)
        else:
            obs = run_once(lambda ch: _run(w["config"], scn, ch, w.get("free", True)), w["choices"])[1][0]
        if _key(obs) != _key(ref):
            return [(_classify(w["config"], ref, obs), "expected %s got %s" % (_key(ref), _key(obs)))]
        return []
    from mc.checks import _baton_cases

    return _baton_cases.replay(w)
