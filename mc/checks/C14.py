# -*- coding: utf-8 -*-
"""
C14 -- extending, cloning and transforming schemas keeps them closed and intact.

Engine E2 (explicit-state search over call histories).  A history is a sequence of operations
(mc.gen.cs_sources.menu: clone, every visibility predicate hiding one type / field / input field /
directive and pairs, camel-casing, both stacked, every kind of extension document, schema
directives, fix_type_references) all applied TO THE SAME SOURCE schema.  Every history is replayed
on a freshly built source (code-built and SDL-built variants); states are canonicalised as
(structural dump of the source, identity facts of the source) and deduplicated breadth-first.

Checked on every transition out of a consistent state (source == model, all references closed):
  closure        every reference in the produced schema `is` the registered object (fields,
                 arguments, input fields, interfaces, union members, roots, directive arguments,
                 the implementations index); removed elements are invisible to introspection and
                 to queries;
  preservation   structural dump of the result == model prediction (mc.ref.cs_predict): the source
                 with exactly the targeted edit, including resolvers, default / type / subscription
                 resolvers, python names, defaults, descriptions, deprecations; for clone and
                 extensions the fixed query still gives the baseline answer;
  non-interference  afterwards the source's canonical state is unchanged, it answers the fixed
                 query, prints, and transforms again with the predicted result.
On transitions out of an already corrupted state only crashes are reported (predictions about a
corrupted source would be meaningless); the search still follows them.
"""
import json

from mc.gen import cs_ops, cs_sources as S
from mc.ref import cs_model as M
from mc.ref import cs_predict as P

READY = True
LEVEL = "model_checking"
TECHNIQUE = "explicit-state BFS over clone / transform / extend / directive histories applied to one source schema, canonical state = structural dump + reference-identity facts, differential oracle against a plain-data model of each operation"
LEVEL_TEXT = (
    "All operation sequences up to the depth bound are executed on the real Schema objects (every explored trace is an "
    "implementation execution); after every step closure of the type graph, preservation against an independent model of the "
    "operation and non-interference with the source are evaluated; states are deduplicated on a canonical digest of the source."
)
LEVEL_NOTE = (
    "Trusted base: the plain-data model of the operations in mc/ref/cs_predict.py (self-tested), the extractor mc/ref/cs_model.dump "
    "(reads public attributes only), graphql_blocking / validate_ast for the dynamic cross-checks (covered by C04/C06). Canonicalisation: "
    "every operation of the menu reads the source only through the attributes contained in the dump and through object identity of the "
    "referenced types, both of which are part of the state key."
)
DESIGN_REF = "DESIGN.md section 6, C14"
RULE = (
    "case = (source variant, first operation); BFS below it to the depth bound; transition = one operation applied to the source in some "
    "state; execution = one replay of a history on a fresh source; non-trivial = distinct (state, operation) whose operation produced a "
    "schema that was compared with the model prediction"
)
ASSUMPTIONS = [
    "apply_schema_directives and fix_type_references work in place by design: for them the source itself is the result and the model of the source is updated",
    "a visibility predicate whose predicted result is not a valid schema (empty type, missing interface field) must make transform_schema raise; such results are not compared further",
    "extend_schema is expected to leave its input unmodified like the clone-based transforms (it returns a new Schema)",
    "field / argument names of the source are plain lower snake case, for which the camel-case rule is unambiguous",
    "names never collide after camel-casing",
]
BOUNDS = {
    "quick": {"sequence_length": 2, "sources": ["code", "sdl"], "visibility_predicates": "every single type / field / input field / directive + 4 pairs"},
    "thorough": {"sequence_length": 3, "sources": ["code", "sdl"], "visibility_predicates": "every single type / field / input field / directive + 4 pairs + every pair of types"},
}
TIME_CAP = {"quick": 150, "thorough": 1500}

ROOT = {
    "id": "q1",
    "obj": {"id": "o1", "snake_name": "sn", "val": 1.5, "at": "t0"},
    "any_thing": {"id": "o2"},
    "search": [{"id": "o3"}],
    "old_field": 7,
    "peer_node": {"id": "o4"},
    "hidden_t": {"h": 1},
}
FIXED_QUERY = (
    "{ id obj { id snake_name val at } any_thing { __typename ... on Obj { id } } search(kind: B) { id } "
    "old_field peer_node(first_n: 2) { id } hidden_t { h } }"
)
PROBE = {"op": "hide", "fields": [["Obj", "at"]]}


def family(op):
    k = op["op"]
    if k in ("clone", "camel", "hide", "hide+camel"):
        return "clone-based"
    return k


def _norm_exc(e):
    import re

    return "%s:%s" % (type(e).__name__, re.sub(r'"[^"]*"', '"_"', str(e))[:60])


def selftest():
    P.selftest()
    for kind in ("code", "sdl"):
        schema, sm = S.build_source(kind)
        assert M.canon(M.dump(schema)) == M.canon(sm), kind
        assert M.identity_facts(schema) == []
        assert _answer(schema)["data"]["obj"] == {"id": "o1", "snake_name": "sn", "val": 1.5, "at": "t0"}


# ------------------------------------------------------------------------------------------


def cases(tier):
    b = BOUNDS[tier]
    for kind in b["sources"]:
        n = len(S.menu(S.source(kind), tier))
        for i in range(n):
            yield {"src": kind, "first": i, "depth": b["sequence_length"], "tier": tier}


def _answer(schema, query=FIXED_QUERY):
    from py_gql import graphql_blocking

    r = graphql_blocking(schema, query, root=ROOT)
    return json.loads(json.dumps(r.response(), sort_keys=True, default=repr))


def _state(schema):
    try:
        d = M.canon(M.dump(schema))
    except Exception as e:  # noqa
        d = "dump raises %s" % type(e).__name__
    try:
        idf = M.identity_facts(schema)
    except Exception as e:  # noqa
        idf = "identity raises %s" % type(e).__name__
    return d, idf


def _diff_paths(pred, got, path=""):
    """paths (element kind . attribute) at which two canon() models differ."""
    out = []
    if isinstance(pred, dict) and isinstance(got, dict):
        for k in sorted(set(pred) | set(got)):
            if k not in pred or k not in got:
                out.append(("%s.%s" % (path, k), pred.get(k, "<absent>"), got.get(k, "<absent>")))
            else:
                out.extend(_diff_paths(pred[k], got[k], "%s.%s" % (path, k)))
    elif isinstance(pred, list) and isinstance(got, list) and all(isinstance(x, dict) and "name" in x for x in pred + got):
        pn = {x["name"]: x for x in pred}
        gn = {x["name"]: x for x in got}
        if [x["name"] for x in pred] != [x["name"] for x in got]:
            what = "member-set" if set(pn) != set(gn) else "member-order"
            out.append((path + "#" + what, [x["name"] for x in pred], [x["name"] for x in got]))
        for n in pn:
            if n in gn:
                kind = pn[n].get("kind")
                out.extend(_diff_paths(pn[n], gn[n], "%s[%s]" % (path, kind or n)))
    elif pred != got:
        out.append((path, pred, got))
    return out


def _attr_key(path):
    """
    '.types[union].resolve_type' -> 'union.resolve_type'; '...fields[x].args[y].pyname' -> 'arg.pyname';
    '.types[object].fields[x].sub' -> 'field.sub'; '.types[input].fields[x].pyname' -> 'input-field.pyname'
    """
    import re

    parts = re.findall(r"\.([a-z_#-]+)(?:\[([^\]]*)\])?", path)
    tkind = None
    level = None
    attr = parts[-1][0] if parts else path
    for name, idx in parts[:-1] if len(parts) > 1 else []:
        if name == "types":
            tkind = idx
            level = idx
        elif name == "fields":
            level = "input-field" if tkind == "input" else "field"
        elif name == "args":
            level = "arg"
        elif name == "values":
            level = "enum-value"
        elif name == "directives":
            tkind = "directive"
            level = "directive"
    if parts and parts[-1][1] and parts[-1][0] in ("types", "fields", "args", "values", "directives"):
        # the differing item is a whole list element
        attr = parts[-1][0]
    return "%s.%s" % (level, attr) if level else attr


def _compare(pred_model, schema):
    """-> list of (attribute key, detail)"""
    pred = M.canon(pred_model)
    got = M.canon(M.dump(schema))
    if pred == got:
        return []
    res = []
    seen = set()
    for path, a, b in _diff_paths(pred, got):
        key = _attr_key(path)
        if key in seen:
            continue
        seen.add(key)
        res.append((key, "%s: predicted %r, got %r" % (path, a, b)))
    return res


def _introspect_names(schema):
    r = _answer(schema, cs_ops.INTROSPECTION)
    if r.get("errors") or not r.get("data"):
        return None, r.get("errors")
    types = {}
    for t in r["data"]["__schema"]["types"]:
        members = set()
        for key in ("fields", "inputFields"):
            for f in t.get(key) or ():
                members.add(f["name"])
        types[t["name"]] = members
    dirs = {d["name"] for d in r["data"]["__schema"]["directives"]}
    return (types, dirs), None


def check_result(op, pm, pred, result, source_schema, st, src_kind, before=None):
    """oracles on a produced schema; -> list of (class, detail)"""
    from py_gql.lang import parse
    from py_gql.validation import validate_ast

    kind = S.op_kind(op)
    out = []
    # closure
    for site_kind, where, problem in M.identity_facts(result):
        out.append(("dangling-reference:%s:%s" % (site_kind, family(op)), "%s in the result of %s: %s" % (where, op, problem)))
        break
    # preservation
    for key, detail in _compare(pred, result):
        out.append(("preservation:%s:%s" % (family(op), key), "after %s: %s" % (op, detail)))
    # removed elements
    removed = P.removed_elements(pm, pred)
    if removed and op["op"] in ("hide", "directives"):
        names, errs = _introspect_names(result)
        if names is None:
            out.append(("introspection-fails:%s" % family(op), "introspection of the result of %s: %s" % (op, errs)))
        else:
            types, dirs = names
            for rk, tn, mn in removed:
                seen = (tn in types) if rk == "type" else (tn in dirs) if rk == "directive" else (mn in types.get(tn, ()))
                if seen:
                    out.append(("removed-still-reachable:introspection:%s" % rk, "%s %s.%s still visible after %s" % (rk, tn, mn, op)))
                    break
        reach = cs_ops.reach(pred)
        for rk, tn, mn in removed:
            q = None
            if rk == "type":
                q = "{ ... on %s { __typename } }" % tn
            elif rk == "field" and tn in reach:
                o, path = reach[tn]
                q = cs_ops.wrap(o, path, mn)
            if q is None:
                continue
            if st is not None:
                st.n("removed_element_queries")
            try:
                errs = validate_ast(result, parse(q)).errors
            except Exception as e:  # noqa
                errs = [e]
            if not errs:
                out.append(("removed-still-reachable:query:%s" % rk, "%s validates against the result of %s" % (q, op)))
                break
    # dynamic preservation (only when the static comparison found nothing: otherwise a consequence)
    if op["op"] in ("clone", "extend") and not out:
        try:
            ans = _answer(result)
        except Exception as e:  # noqa
            ans = {"raises": type(e).__name__}
        expected = before[0] if before is not None else _BASELINE.get(src_kind)
        if ans != expected:
            out.append(("result-query-differs:%s" % family(op), "fixed query on the result of %s: %s instead of %s" % (op, json.dumps(ans)[:300], json.dumps(expected)[:300])))
    return out


_BASELINE = {}
_PRINT = {}


def _baseline(kind):
    if kind not in _BASELINE:
        schema, _ = S.build_source(kind)
        _BASELINE[kind] = _answer(schema)
        _PRINT[kind] = schema.to_string()
    return _BASELINE[kind]


def run_history(kind, history, st=None, check_last=True):
    """
    Replay ``history`` on a fresh source.  -> (violations, state key after the history, consistent?)
    Oracles are evaluated for the LAST operation only (earlier prefixes are histories of their own).
    """
    _baseline(kind)
    schema, sm = S.build_source(kind)
    pm = sm
    consistent = True
    out = []
    if st is not None:
        st.n("executions")
    for n, op in enumerate(history):
        last = n == len(history) - 1
        kindname = S.op_kind(op)
        pred, pm_after = P.predict(pm, op, kind)
        pre_consistent = consistent
        before = None
        if last and check_last and consistent and op["op"] not in S.IN_PLACE:
            try:
                before = (_answer(schema), schema.to_string())
            except Exception as e:  # noqa
                before = ("raises %s" % type(e).__name__, None)
        try:
            result = S.run_op(schema, op)
            raised = None
        except Exception as e:  # noqa
            result, raised = None, e
        invalid = P.invalid_reasons(pred) if op["op"] in ("hide", "hide+camel", "directives") else []
        if last and check_last:
            if st is not None:
                st.n("evaluations")
            if raised is not None:
                from py_gql.exc import SchemaValidationError

                if invalid and isinstance(raised, SchemaValidationError):
                    if st is not None:
                        st.n("transform_correctly_refuses_invalid_result")
                elif pre_consistent:
                    out.append(("operation-fails:%s:%s" % (_norm_exc(raised), family(op)), "%s on a pristine source raises %r" % (op, raised)))
                else:
                    out.append(
                        (
                            "second-application-fails:%s" % type(raised).__name__,
                            "%s raises %r after %s were applied to the same source" % (op, raised, history[:-1]),
                        )
                    )
            elif pre_consistent:
                present = set(result.types) if result is not None else set()
                invalid_here = [r for r in invalid if r.split(" ")[0].split(".")[0] in present]
                if invalid_here and op["op"] not in S.IN_PLACE:
                    out.append(("invalid-result-accepted:%s" % family(op), "%s returns a schema although the predicted result is invalid: %s" % (op, invalid_here)))
                else:
                    if st is not None:
                        st.nt(("transition", kind, json.dumps(history, sort_keys=True)))
                    out.extend(check_result(op, pm, pred, result, schema, st, kind, before))
        if raised is None and op["op"] in S.IN_PLACE:
            pm = pm_after
        # non-interference
        key = _state(schema)
        src_ok = key[0] == M.canon(pm) and key[1] == []
        if last and check_last and pre_consistent:
            if not src_ok:
                if key[1]:
                    site = key[1][0][0] if isinstance(key[1], list) else "error"
                    out.append(
                        (
                            "source-mutated:identity:%s" % family(op),
                            "after %s the SOURCE is no longer closed: %s (%d sites)" % (op, key[1][:2], len(key[1])),
                        )
                    )
                if key[0] != M.canon(pm):
                    for akey, detail in _compare(pm, schema)[:3]:
                        out.append(("source-mutated:%s:%s" % (akey, family(op)), "after %s the SOURCE changed: %s" % (op, detail)))
            # the source still answers and prints as it did before the operation
            if before is not None and src_ok:
                try:
                    after = (_answer(schema), schema.to_string())
                except Exception as e:  # noqa
                    after = ("raises %s" % type(e).__name__, None)
                if after[0] != before[0]:
                    out.append(("source-query-differs:%s" % family(op), "after %s the source answers %s instead of %s" % (op, json.dumps(after[0])[:300], json.dumps(before[0])[:200])))
                elif after[1] != before[1]:
                    out.append(("source-print-differs:%s" % family(op), "after %s the source prints differently" % (op,)))
        consistent = consistent and src_ok and raised is None
    return out, _state(schema), consistent


def bfs(case, st):
    kind, depth = case["src"], case["depth"]
    menu = S.menu(S.source(kind), case.get("tier", "quick"))
    first = menu[case["first"]]
    out = []
    schema0, _ = S.build_source(kind)
    root_key = json.dumps(_state(schema0), sort_keys=True, default=repr)
    seen = {root_key}
    frontier = []
    viols, key, cons = run_history(kind, [first], st)
    st.n("transitions")
    for cls, detail in viols:
        out.append((cls, {"src": kind, "history": [first]}, detail))
    k = json.dumps(key, sort_keys=True, default=repr)
    if k not in seen:
        seen.add(k)
        st.n("states")
        st.outcome(k)
        frontier.append([first])
    for d in range(1, depth):
        nxt = []
        for hist in frontier:
            for op in menu:
                if st.out_of_time():
                    return out
                h = hist + [op]
                st.n("transitions")
                viols, key, cons = run_history(kind, h, st)
                for cls, detail in viols:
                    out.append((cls, {"src": kind, "history": h}, detail))
                k = json.dumps(key, sort_keys=True, default=repr)
                if k in seen:
                    continue
                seen.add(k)
                st.n("states")
                st.outcome(k)
                nxt.append(h)
        frontier = nxt
    st.mx("sequence_length_completed", depth)
    return out


def check_case(case, st):
    if case["first"] == 0:
        st.n("states")  # the pristine source
        st.sample({"source": case["src"], "menu": [S.op_kind(o) for o in S.menu(S.source(case["src"]), case.get("tier", "quick"))][:12]})
    out = bfs(case, st)
    seen, res = {}, []
    for cls, wit, detail in out:
        seen[cls] = seen.get(cls, 0) + 1
        if seen[cls] <= 3:
            res.append((cls, wit, detail))
    return res


def replay(witness):
    viols, _, _ = run_history(witness["src"], witness["history"], None)
    seen, out = set(), []
    for cls, detail in viols:
        if cls not in seen:
            seen.add(cls)
            out.append((cls, detail))
    return out
