# -*- coding: utf-8 -*-
"""
C14 -- extending, cloning and transforming schemas keeps them closed and intact.

Engine E2 (explicit-state search over call histories).  A history is a sequence of operations
(mc.gen.cs_sources.menu: clone, every visibility predicate hiding one type / field / input field /
directive and pairs, camel-casing, both stacked, every kind of extension document, schema
directives, fix_type_references) all applied TO THE SAME SOURCE schema.  Every history is replayed
on a freshly built source (code-built and SDL-built variants).

Which histories: ALL sequences [op1] and [op1, op2] with op1 from the full menu and op2 from the
representative menu (one operation per operation kind and per kind of hidden type, see
``representatives``; thorough: op2 from the full quick menu), and -- thorough -- all triples over the
representative menu.  These are executed whether or not op1 changed the canonical state of the source:
residue the state key cannot see (caches, shared element objects, registries) must not be pruned.
Canonical states (structural dump + identity facts + derived indexes + registries + memo) only decide
whether a sequence is extended by one more representative operation beyond that depth (it is when it
ends in a state that is new and was not predicted by the model).

Checked for the last operation of every history (every prefix is a history of its own), provided the
source was consistent before it:
  closure        every reference in the produced schema `is` the registered object (fields,
                 arguments, input fields, interfaces, union members, roots, directive arguments,
                 the implementations index, the possible-types and literal-types caches); removed
                 elements are invisible to introspection and to queries; a query applying a custom
                 directive with input-object literals sees exactly the predicted argument and input
                 field names (one-operation histories);
  preservation   structural dump of the result == model prediction (mc.ref.cs_predict): the source
                 with exactly the targeted edit, including resolvers, default / type / subscription
                 resolvers, python names, defaults, descriptions, deprecations; for clone and
                 extensions the fixed query still gives the source's answer; the memoised verdict of
                 the result agrees with a fresh validation;
  non-interference  afterwards the source's dump, identity facts, derived indexes, resolver
                 registries and memo are what they were, it answers the fixed query and prints as
                 before; and it stays so after the RESULT is tampered with through the resolver
                 registration API and fix_type_references (shared Field / type objects would leak);
  history independence (differential)  the result of op_n after op_1..op_n-1 -- dump, identity facts,
                 derived indexes, registries, memo, or the exception raised -- equals the result of
                 op_n on a pristine source (after the in-place operations of the prefix only).
On transitions out of an already corrupted state only crashes are reported (predictions about a
corrupted source would be meaningless).
"""
import json

from mc.gen import cs_ops, cs_sources as S
from mc.ref import cs_model as M
from mc.ref import cs_predict as P

READY = True
LEVEL = "model_checking"
TECHNIQUE = "exhaustive execution of clone / transform / extend / directive histories applied to one source schema (explicit-state search, canonical state = structural dump + identity and cache facts + derived indexes), differential oracles against a plain-data model of each operation and against the same operation on a pristine source"
LEVEL_TEXT = (
    "All operation sequences up to the depth bound are executed on the real Schema objects (every explored trace is an "
    "implementation execution); after every step closure of the type graph, preservation against an independent model of the "
    "operation, non-interference with the source (also after tampering with the result) and equality with the same operation on a "
    "pristine source are evaluated; sequences are executed whether or not the canonical state changed, the canonical digest of the "
    "source (dump, identity and cache facts, derived indexes, registries) only decides extension beyond the mandatory length."
)
LEVEL_NOTE = (
    "Trusted base: the plain-data model of the operations in mc/ref/cs_predict.py (self-tested), the extractor mc/ref/cs_model.dump "
    "(reads public attributes only), graphql_blocking / validate_ast for the dynamic cross-checks (covered by C04/C06). Canonicalisation: "
    "every operation of the menu reads the source only through the attributes contained in the dump and through object identity of the "
    "referenced types, both of which are part of the state key."
)
DESIGN_REF = "DESIGN.md section 6, C14"
RULE = (
    "case = (source variant, first operation); below it every sequence up to the mandatory length (second / third operation from the "
    "representative menu), plus one more representative operation after sequences that end in a new canonical state; transition = one "
    "operation applied to the source; execution = one replay of a history on a fresh source; non-trivial = distinct history whose last "
    "operation produced a schema that was compared with the model prediction and, for length >= 2, with the pristine-source result"
)
ASSUMPTIONS = [
    "apply_schema_directives and fix_type_references work in place by design: for them the source itself is the result and the model of the source is updated",
    "a visibility predicate whose predicted result is not a valid schema (empty type, missing interface field) must make transform_schema raise; such results are not compared further",
    "extend_schema is expected to leave its input unmodified like the clone-based transforms (it returns a new Schema)",
    "only the last operation of a history is judged (every prefix is a history of its own); between the steps the fixed query is executed on the source so that its lazy caches are populated",
    "Schema._is_valid is not part of the deduplication key nor of digests of in-place results: the probes (running a query validates the schema) set it; the stale-memo invariant is checked separately",
    "field / argument names of the source are plain lower snake case, for which the camel-case rule is unambiguous",
    "names never collide after camel-casing",
]
BOUNDS = {
    "quick": {
        "sequence_length": 2,
        "sources": ["code", "sdl"],
        "first_operation": "full menu (103): every single type / field / input field / directive hidden + 4 pairs, stacked with camel case, clone, camel, 13 extension documents (7 adding built-in typed members, 6 adding members typed by existing enum / input / object / interface / union / scalar types, bare and wrapped, to interfaces + implementers, objects, input objects, unions, enums), directives, fix",
        "second_operation": "representative menu: one operation per operation kind, hide-type once per kind of type",
        "type_map_order": "every one-operation history again on sources whose last registered type is an enum / custom scalar (both routes) / input object / interface / union (constructor route)",
    },
    "thorough": {
        "sequence_length": 3,
        "sources": ["code", "sdl"],
        "first_operation": "full menu (168): quick menu + every pair of types hidden together",
        "second_operation": "full quick menu (103)",
        "triples": "all triples over the representative menu",
    },
}
TIME_CAP = {"quick": 200, "thorough": 1500}

ROOT = {
    "id": "q1",
    "obj": {"id": "o1", "snake_name": "sn", "val": 1.5, "at": "t0"},
    "any_thing": {"id": "o2"},
    "search": [{"id": "o3"}],
    "old_field": 7,
    "peer_node": {"id": "o4"},
    "hidden_t": {"h": 1},
}
FIXED_QUERY = (
    "{ id obj { id snake_name val at } any_thing { __typename ... on Obj { id } } search(kind: B) { id } "
    "old_field peer_node(first_n: 2) { id } hidden_t { h } }"
)
PROBE = {"op": "hide", "fields": [["Obj", "at"]]}


def family(op):
    k = op["op"]
    if k in ("clone", "camel", "hide", "hide+camel"):
        return "clone-based"
    return k


def _norm_exc(e):
    import re

    return "%s:%s" % (type(e).__name__, re.sub(r'"[^"]*"', '"_"', str(e))[:60])


def selftest():
    P.selftest()
    for kind in ("code", "sdl"):
        schema, sm = S.build_source(kind)
        assert M.canon(M.dump(schema)) == M.canon(sm), kind
        assert M.identity_facts(schema) == []
        assert _answer(schema)["data"]["obj"] == {"id": "o1", "snake_name": "sn", "val": 1.5, "at": "t0"}


# ------------------------------------------------------------------------------------------


def cases(tier):
    b = BOUNDS[tier]
    for kind in b["sources"]:
        n = len(S.menu(S.source(kind), tier))
        for i in range(n):
            yield {"src": kind, "first": i, "depth": b["sequence_length"], "tier": tier}
    # type-map order axis: the same menu as one-operation histories on sources whose LAST registered type is
    # an enum / custom scalar / input object / interface / union (the base sources end in an object type)
    for tail in S.TAIL_KINDS:
        for kind in b["sources"]:
            if kind == "sdl" and tail not in ("enum", "scalar"):
                continue  # both routes for the leaf kinds, constructor route for the others
            src = "%s:tail=%s" % (kind, tail)
            n = len(S.menu(S.source(src), "quick"))
            for i in range(n):
                yield {"src": src, "first": i, "depth": 1, "tier": "quick"}


def representatives(sm, menu):
    """one operation per operation kind; hiding a single type once per kind of type."""
    seen, out = set(), []
    for op in menu:
        key = S.op_kind(op)
        if op["op"] == "extend" and op.get("ext") == "members":
            key = "extend:members"  # one representative for the documents adding members typed by existing types
        if op["op"] == "hide" and key == "hide:types" and len(op["types"]) == 1:
            key += ":" + str(M.kind_of(sm, op["types"][0]))
        if key in seen:
            continue
        seen.add(key)
        out.append(op)
    return out


_PARSED = {}


def _answer(schema, query=FIXED_QUERY, validate=True):
    """run a query; validate=False skips document validation (execution only)."""
    from py_gql import graphql_blocking
    from py_gql.lang import parse

    if query not in _PARSED:
        _PARSED[query] = parse(query)
    kw = {} if validate else {"validators": []}
    r = graphql_blocking(schema, _PARSED[query], root=ROOT, **kw)
    return json.loads(json.dumps(r.response(), sort_keys=True, default=repr))


def _state(schema):
    """(canonical dump, identity / cache facts, derived indexes + registries + memo)"""
    try:
        d = M.canon(M.dump(schema))
    except Exception as e:  # noqa
        d = "dump raises %s" % type(e).__name__
    try:
        idf = M.identity_facts(schema)
    except Exception as e:  # noqa
        idf = "identity raises %s" % type(e).__name__
    try:
        der = M.derived_state(schema)
    except Exception as e:  # noqa
        der = "derived state raises %s" % type(e).__name__
    return d, idf, der


def _jkey(x):
    return json.dumps(x, sort_keys=True, default=repr)


def _skey(state):
    """state key for deduplication: without the memo flag, which our own probes (running a query) set."""
    d, idf, der = state
    if isinstance(der, dict):
        der = {k: v for k, v in der.items() if k != "is_valid"}
    return _jkey((d, idf, der))


TAMPER = "sig:root, ctx, info, **kw#tamper"


def _tamper(result):
    """in-place changes of a produced schema through the public API; must never reach the source."""
    from py_gql.schema import ObjectType
    from py_gql.schema.fix_type_references import fix_type_references

    fn = M.fn_for(TAMPER)
    for name, t in list(result.types.items()):
        if isinstance(t, ObjectType) and not name.startswith("__"):
            result.register_default_resolver(name, fn, allow_override=True)
            for f in t.fields:
                result.register_resolver(name, f.name, fn, allow_override=True)
                result.register_subscription(name, f.name, fn, allow_override=True)
    result.default_resolver = fn
    fix_type_references(result)


def _diff_paths(pred, got, path=""):
    """paths (element kind . attribute) at which two canon() models differ."""
    out = []
    if isinstance(pred, dict) and isinstance(got, dict):
        for k in sorted(set(pred) | set(got)):
            if k not in pred or k not in got:
                out.append(("%s.%s" % (path, k), pred.get(k, "<absent>"), got.get(k, "<absent>")))
            else:
                out.extend(_diff_paths(pred[k], got[k], "%s.%s" % (path, k)))
    elif isinstance(pred, list) and isinstance(got, list) and all(isinstance(x, dict) and "name" in x for x in pred + got):
        pn = {x["name"]: x for x in pred}
        gn = {x["name"]: x for x in got}
        if [x["name"] for x in pred] != [x["name"] for x in got]:
            what = "member-set" if set(pn) != set(gn) else "member-order"
            out.append((path + "#" + what, [x["name"] for x in pred], [x["name"] for x in got]))
        for n in pn:
            if n in gn:
                kind = pn[n].get("kind")
                out.extend(_diff_paths(pn[n], gn[n], "%s[%s]" % (path, kind or n)))
    elif pred != got:
        out.append((path, pred, got))
    return out


def _attr_key(path):
    """
    '.types[union].resolve_type' -> 'union.resolve_type'; '...fields[x].args[y].pyname' -> 'arg.pyname';
    '.types[object].fields[x].sub' -> 'field.sub'; '.types[input].fields[x].pyname' -> 'input-field.pyname'
    """
    import re

    parts = re.findall(r"\.([a-z_#-]+)(?:\[([^\]]*)\])?", path)
    tkind = None
    level = None
    attr = parts[-1][0] if parts else path
    for name, idx in parts[:-1] if len(parts) > 1 else []:
        if name == "types":
            tkind = idx
            level = idx
        elif name == "fields":
            level = "input-field" if tkind == "input" else "field"
        elif name == "args":
            level = "arg"
        elif name == "values":
            level = "enum-value"
        elif name == "directives":
            tkind = "directive"
            level = "directive"
    if parts and parts[-1][1] and parts[-1][0] in ("types", "fields", "args", "values", "directives"):
        # the differing item is a whole list element
        attr = parts[-1][0]
    return "%s.%s" % (level, attr) if level else attr


def _compare(pred_model, schema):
    """-> list of (attribute key, detail)"""
    pred = M.canon(pred_model)
    got = M.canon(M.dump(schema))
    if pred == got:
        return []
    res = []
    seen = set()
    for path, a, b in _diff_paths(pred, got):
        key = _attr_key(path)
        if key in seen:
            continue
        seen.add(key)
        res.append((key, "%s: predicted %r, got %r" % (path, a, b)))
    return res


def _introspect_names(schema):
    r = _answer(schema, cs_ops.INTROSPECTION, validate=False)
    if r.get("errors") or not r.get("data"):
        return None, r.get("errors")
    types = {}
    for t in r["data"]["__schema"]["types"]:
        members = set()
        for key in ("fields", "inputFields"):
            for f in t.get(key) or ():
                members.add(f["name"])
        types[t["name"]] = members
    dirs = {d["name"] for d in r["data"]["__schema"]["directives"]}
    return (types, dirs), None


def _directive_probes(pm, pred):
    """
    -> (queries that must validate, queries that must not) against a schema predicted as ``pred`` from ``pm``:
    every FIELD directive applied with each argument; input-object typed arguments with one literal per
    predicted input field; argument names and input field names of ``pm`` that ``pred`` no longer has.
    """
    good, bad = [], []
    src_dirs = {d["name"]: d for d in pm["directives"]}
    src_by_pos = {}
    for d in pm["directives"]:
        for i, a in enumerate(d["args"]):
            src_by_pos[(d["name"], i)] = a
    for d in pred["directives"]:
        if "FIELD" not in d["locations"]:
            continue
        pred_arg_names = {a["name"] for a in d["args"]}
        for a in src_dirs.get(d["name"], {"args": []})["args"]:
            if a["name"] not in pred_arg_names:  # renamed or removed (its type was hidden)
                bad.append("{ __typename @%s(%s: %s) }" % (d["name"], a["name"], "[]" if "[" in a["type"] else "null"))
        for a in d["args"]:
            tn = M.named(a["type"])
            t = M.get_type(pred, tn)
            wrapl = (lambda lit: "[%s]" % lit) if "[" in a["type"] else (lambda lit: lit)
            if t is None or t["kind"] != "input":
                good.append("{ __typename @%s(%s: %s) }" % (d["name"], a["name"], cs_ops._lit(pred, a["type"])))
                continue
            names = set()
            for f in t["fields"]:
                names.add(f["name"])
                good.append("{ __typename @%s(%s: %s) }" % (d["name"], a["name"], wrapl("{%s: %s}" % (f["name"], cs_ops._lit(pred, f["type"])))))
            st_ = M.get_type(pm, tn)
            for f in (st_ or {}).get("fields") or ():
                if f["name"] not in names:
                    bad.append("{ __typename @%s(%s: %s) }" % (d["name"], a["name"], wrapl("{%s: null}" % f["name"])))
    return good, bad


def check_result(op, pm, pred, result, source_schema, st, src_kind, before=None, probe_directives=True):
    """oracles on a produced schema; -> list of (class, detail)"""
    from py_gql.lang import parse
    from py_gql.validation import validate_ast

    kind = S.op_kind(op)
    out = []
    # closure
    for site_kind, where, problem in M.identity_facts(result):
        out.append(("dangling-reference:%s:%s" % (site_kind, family(op)), "%s in the result of %s: %s" % (where, op, problem)))
        break
    # preservation
    for key, detail in _compare(pred, result):
        out.append(("preservation:%s:%s" % (family(op), key), "after %s: %s" % (op, detail)))
    # removed elements
    removed = P.removed_elements(pm, pred)
    if removed and op["op"] in ("hide", "directives"):
        names, errs = _introspect_names(result)
        if names is None:
            out.append(("introspection-fails:%s" % family(op), "introspection of the result of %s: %s" % (op, errs)))
        else:
            types, dirs = names
            for rk, tn, mn in removed:
                seen = (tn in types) if rk == "type" else (tn in dirs) if rk == "directive" else (mn in types.get(tn, ()))
                if seen:
                    out.append(("removed-still-reachable:introspection:%s" % rk, "%s %s.%s still visible after %s" % (rk, tn, mn, op)))
                    break
        reach = cs_ops.reach(pred)
        for rk, tn, mn in removed:
            q = None
            if rk == "type":
                q = "{ ... on %s { __typename } }" % tn
            elif rk == "field" and tn in reach:
                o, path = reach[tn]
                q = cs_ops.wrap(o, path, mn)
            if q is None:
                continue
            if st is not None:
                st.n("removed_element_queries")
            try:
                errs = validate_ast(result, parse(q)).errors
            except Exception as e:  # noqa
                errs = [e]
            if not errs:
                out.append(("removed-still-reachable:query:%s" % rk, "%s validates against the result of %s" % (q, op)))
                break
    # directive arguments typed by input objects: a query applying the directive with an input object
    # literal sees exactly the predicted input fields (renamed keys accepted, old keys and hidden fields not)
    if op["op"] != "fix" and not out and probe_directives:
        good, bad = _directive_probes(pm, pred)
        for expect_valid, queries in ((True, good), (False, bad)):
            for q in queries:
                if st is not None:
                    st.n("directive_argument_queries")
                try:
                    errs = validate_ast(result, parse(q)).errors
                except Exception as e:  # noqa
                    errs = [e]
                if bool(errs) == expect_valid:
                    out.append(
                        (
                            "directive-argument-query:%s:%s" % ("rejected" if expect_valid else "accepted", family(op)),
                            "%s %s against the result of %s%s" % (q, "is rejected" if expect_valid else "validates", op, (": %s" % errs[0]) if errs else ""),
                        )
                    )
                    break
            if out:
                break
    # dynamic preservation (only when the static comparison found nothing: otherwise a consequence)
    if op["op"] in ("clone", "extend") and not out:
        try:
            ans = _answer(result)
        except Exception as e:  # noqa
            ans = {"raises": type(e).__name__}
        expected = before[0] if before is not None else _BASELINE.get(src_kind)
        if ans != expected:
            out.append(("result-query-differs:%s" % family(op), "fixed query on the result of %s: %s instead of %s" % (op, json.dumps(ans)[:300], json.dumps(expected)[:300])))
    return out


_BASELINE = {}
_PRINT = {}


def _baseline(kind):
    if kind not in _BASELINE:
        schema, _ = S.build_source(kind)
        _BASELINE[kind] = _answer(schema)
        _PRINT[kind] = schema.to_string()
    return _BASELINE[kind]


def _digest(result, raised, in_place=False):
    if raised is not None:
        return {"raises": type(raised).__name__}
    d, idf, der = _state(result)
    if in_place and isinstance(der, dict):
        # the result is the source itself, whose memo flag our own probes (running a query) set
        der = {k: v for k, v in der.items() if k != "is_valid"}
    return {"dump": d, "identity": idf, "derived": der}


_PRISTINE = {}


def _pristine_result(kind, ref_history):
    """digest of the result of the last operation of ref_history on a pristine source (cached)."""
    key = (kind, _jkey(ref_history))
    if key not in _PRISTINE:
        if len(_PRISTINE) > 4000:
            _PRISTINE.clear()
        schema, _ = S.build_source(kind)
        res, raised = None, None
        for op in ref_history:
            try:
                res = S.run_op(schema, op)
            except Exception as e:  # noqa
                res, raised = None, e
                break
        _PRISTINE[key] = _digest(res, raised, ref_history[-1]["op"] in S.IN_PLACE)
    return _PRISTINE[key]


def _digest_diff(ref, got):
    """-> (what differs, detail) or None"""
    if ref == got:
        return None
    if "raises" in ref or "raises" in got:
        return "raises", "pristine: %s, here: %s" % (ref.get("raises", "returns"), got.get("raises", "returns"))
    if ref["dump"] != got["dump"]:
        paths = _diff_paths(ref["dump"], got["dump"]) if isinstance(ref["dump"], dict) and isinstance(got["dump"], dict) else [("dump", ref["dump"], got["dump"])]
        path, a, b = paths[0]
        return "dump:" + _attr_key(path), "%s: pristine %r, here %r" % (path, a, b)
    if ref["identity"] != got["identity"]:
        return "identity", "pristine %s, here %s" % (ref["identity"][:2], got["identity"][:2])
    for k in sorted(set(ref["derived"]) | set(got["derived"])) if isinstance(ref["derived"], dict) and isinstance(got["derived"], dict) else ():
        if ref["derived"].get(k) != got["derived"].get(k):
            return "derived:" + k, "%s: pristine %r, here %r" % (k, ref["derived"].get(k), got["derived"].get(k))
    return "derived", "pristine %r, here %r" % (ref["derived"], got["derived"])


def run_history(kind, history, st=None, check_last=True):
    """
    Replay ``history`` on a fresh source.  -> (violations, state key after the history, consistent?)
    Oracles are evaluated for the LAST operation only (every prefix is a history of its own).
    """
    _baseline(kind)
    schema, sm = S.build_source(kind)
    pm = sm
    consistent = True
    out = []
    if st is not None:
        st.n("executions")
    for n, op in enumerate(history):
        last = n == len(history) - 1
        kindname = S.op_kind(op)
        fam = family(op)
        pred, pm_after = P.predict(pm, op, kind)
        pre_consistent = consistent
        judged = last and check_last
        before = None
        state_before = None
        if judged and consistent:
            if op["op"] not in S.IN_PLACE:
                try:
                    # execution only: the fixed query is valid against a consistent source by construction
                    # (self-test); the probe after the operation validates it again
                    pristine_model = not any(o["op"] in S.IN_PLACE for o in history[:n])
                    before = (_answer(schema, validate=not pristine_model), schema.to_string())
                except Exception as e:  # noqa
                    before = ("raises %s" % type(e).__name__, None)
            state_before = _state(schema)
        try:
            result = S.run_op(schema, op)
            raised = None
        except Exception as e:  # noqa
            result, raised = None, e
        invalid = P.invalid_reasons(pred) if op["op"] in ("hide", "hide+camel", "directives") else []
        if judged:
            if st is not None:
                st.n("evaluations")
            digest = _digest(result, raised, op["op"] in S.IN_PLACE)
            if raised is not None:
                from py_gql.exc import SchemaValidationError

                if invalid and isinstance(raised, SchemaValidationError):
                    if st is not None:
                        st.n("transform_correctly_refuses_invalid_result")
                elif pre_consistent:
                    out.append(("operation-fails:%s:%s" % (_norm_exc(raised), fam), "%s raises %r (history %s)" % (op, raised, history[:-1])))
                else:
                    out.append(
                        (
                            "second-application-fails:%s" % type(raised).__name__,
                            "%s raises %r after %s were applied to the same source" % (op, raised, history[:-1]),
                        )
                    )
            elif pre_consistent:
                present = set(result.types) if result is not None else set()
                invalid_here = [r for r in invalid if r.split(" ")[0].split(".")[0] in present]
                if invalid_here and op["op"] not in S.IN_PLACE:
                    out.append(("invalid-result-accepted:%s" % fam, "%s returns a schema although the predicted result is invalid: %s" % (op, invalid_here)))
                else:
                    if st is not None:
                        st.nt(("transition", kind, _jkey(history)))
                    if isinstance(digest.get("derived"), dict) and digest["derived"].get("memo") != "ok":
                        out.append(("stale-memo:result:%s" % fam, "after %s: %s" % (op, digest["derived"]["memo"])))
                    # the directive literal probes run for one-operation histories; longer histories are
                    # tied to those by the differential oracle (result equal to the pristine-source result)
                    out.extend(check_result(op, pm, pred, result, schema, st, kind, before, probe_directives=len(history) == 1 and ":tail=" not in kind))
            # history independence: same result as on a pristine source
            if pre_consistent and len(history) > 1:
                ref_history = [o for o in history[:-1] if o["op"] in S.IN_PLACE] + [op]
                if ref_history != history:
                    if st is not None:
                        st.n("differential_comparisons")
                    dd = _digest_diff(_pristine_result(kind, ref_history), digest)
                    if dd is not None:
                        earlier = [family(o) for o in history[:-1] if o["op"] not in S.IN_PLACE]
                        out.append(
                            (
                                "history-dependent-result:%s-then-%s:%s" % (earlier[0], fam, dd[0]),
                                "%s after %s differs from the same operation on a pristine source: %s" % (op, history[:-1], dd[1]),
                            )
                        )
            # tamper with the produced schema: nothing of it may be shared with the source
            if pre_consistent and raised is None and result is not None and result is not schema and op["op"] not in S.IN_PLACE:
                try:
                    _tamper(result)
                except Exception as e:  # noqa
                    out.append(("result-unusable:%s:%s" % (type(e).__name__, fam), "registering resolvers on the result of %s raises %r" % (op, e)))
        if raised is None and op["op"] in S.IN_PLACE:
            pm = pm_after
        if not judged and consistent:
            # between the steps the source is used: run the fixed query (execution only) so that the lazily
            # filled caches of the source are populated when the next operation comes
            try:
                _answer(schema, validate=False)
            except Exception:  # noqa -- judged when this prefix is a history of its own
                pass
        # non-interference
        key = _state(schema)
        src_ok = key[0] == M.canon(pm) and key[1] == []
        if judged and pre_consistent:
            if not src_ok:
                if key[1]:
                    out.append(
                        (
                            "source-mutated:identity:%s" % fam,
                            "after %s the SOURCE is no longer closed: %s (%d sites)" % (op, key[1][:2], len(key[1])),
                        )
                    )
                if key[0] != M.canon(pm):
                    through = ""
                    if state_before is not None and op["op"] not in S.IN_PLACE:
                        through = "-or-through-result"
                    for akey, detail in _compare(pm, schema)[:3]:
                        out.append(("source-mutated%s:%s:%s" % (through, akey, fam), "after %s (and registering resolvers on its result) the SOURCE changed: %s" % (op, detail)))
            elif state_before is not None and op["op"] not in S.IN_PLACE and isinstance(key[2], dict) and isinstance(state_before[2], dict):
                for k2 in sorted(set(key[2]) | set(state_before[2])):
                    if key[2].get(k2) != state_before[2].get(k2):
                        out.append(
                            (
                                "source-mutated:derived:%s:%s" % (k2, fam),
                                "after %s the source's %s changed from %r to %r" % (op, k2, state_before[2].get(k2), key[2].get(k2)),
                            )
                        )
                        src_ok = False
                        break
            if isinstance(key[2], dict) and key[2].get("memo") != "ok":
                out.append(("stale-memo:source:%s" % fam, "after %s: %s" % (op, key[2]["memo"])))
            # the source still answers and prints as it did before the operation
            if before is not None and src_ok:
                try:
                    after = (_answer(schema), schema.to_string())
                except Exception as e:  # noqa
                    after = ("raises %s" % type(e).__name__, None)
                if after[0] != before[0]:
                    out.append(("source-query-differs:%s" % fam, "after %s the source answers %s instead of %s" % (op, json.dumps(after[0])[:300], json.dumps(before[0])[:200])))
                elif after[1] != before[1]:
                    out.append(("source-print-differs:%s" % fam, "after %s the source prints differently" % (op,)))
        # a refusal (exception) that leaves the source intact does not end the judged part of the history
        consistent = consistent and src_ok
    return out, _state(schema), consistent


def explore(case, st):
    kind, depth, tier = case["src"], case["depth"], case.get("tier", "quick")
    sm = S.source(kind)
    menu = S.menu(sm, tier)
    quick_menu = S.menu(sm, "quick")
    reps = representatives(sm, quick_menu)
    second = reps if tier == "quick" else quick_menu
    first = menu[case["first"]]
    out = []
    schema0, _ = S.build_source(kind)
    seen = {_skey(_state(schema0))}
    ends = []  # (history, state key) of the longest mandatory sequences

    def run(h):
        st.n("transitions")
        viols, key, cons = run_history(kind, h, st)
        for cls, detail in viols:
            out.append((cls, {"src": kind, "history": h}, detail))
        k = _skey(key)
        new = k not in seen
        if new:
            seen.add(k)
            st.n("states")
        st.outcome(k)
        # worth extending: a canonical state not seen before that the model did not predict either
        # (predicted new states, e.g. after apply_schema_directives, are first operations of other cases)
        return new and not cons

    run([first])
    if depth < 2:
        st.mx("sequence_length_completed", depth)
        return out
    for op2 in second:
        if st.out_of_time():
            return out
        new = run([first, op2])
        if depth == 2 and new:
            ends.append([first, op2])
    if depth >= 3 and first in reps:
        for op2 in reps:
            for op3 in reps:
                if st.out_of_time():
                    return out
                if run([first, op2, op3]):
                    ends.append([first, op2, op3])
    # beyond the mandatory depth: only sequences that ended in a canonical state not seen before
    for h in ends:
        for op in reps:
            if st.out_of_time():
                return out
            st.n("extensions_beyond_mandatory_depth")
            run(h + [op])
    st.mx("sequence_length_completed", depth)
    return out


def check_case(case, st):
    if case["first"] == 0:
        st.n("states")  # the pristine source
        st.sample({"source": case["src"], "menu": [S.op_kind(o) for o in S.menu(S.source(case["src"]), case.get("tier", "quick"))][:12]})
    out = explore(case, st)
    seen, res = {}, []
    for cls, wit, detail in out:
        seen[cls] = seen.get(cls, 0) + 1
        if seen[cls] <= 3:
            res.append((cls, wit, detail))
    return res


def replay(witness):
    viols, _, _ = run_history(witness["src"], witness["history"], None)
    seen, out = set(), []
    for cls, detail in viols:
        if cls not in seen:
            seen.add(cls)
            out.append((cls, detail))
    return out
