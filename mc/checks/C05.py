# -*- coding: utf-8 -*-
"""
C05 -- validated operations cannot go wrong; validation itself never crashes.

E3: seeds (hand-written documents on the combined schema H + every base document of the C04 corpus
up to a small node bound) x mutation operators of mc.gen.mutations applied at every position where
they apply, unlabelled: all single mutants (quick), all pairs (thorough).

Oracle
  (1) ``validate_ast`` returns -- any exception is a violation (class: exception @ innermost
      validation-layer function).
  (2) if it returns no error, then for every operation of the document, every accepted variable
      assignment and every world (fault-free + every single fault) ``execute`` raises nothing but
      the library's own request errors, and the data has the shape the reference executor computes
      from selection sets and schema types; the reference's ambiguity flags (two fields merged under
      one response key that differ in name or arguments; leaf with / composite without sub-selection)
      must be off.
"""
import json

from mc.gen import ex_families as X
from mc.gen import ex_schemas as S
from mc.gen import mutations as M
from mc.gen import operations as O
from mc.gen import worlds as W
from mc.ref import execute as R

READY = True
LEVEL = "exploration"
TECHNIQUE = "bounded-exhaustive mutation of valid seed documents (every operator at every position, singles and pairs) with a soundness oracle linking the real validator to the real executor through a reference executor"
LEVEL_TEXT = (
    "Every single mutant (quick) and every pair of mutants (thorough) of every seed is validated by the real validator; "
    "every accepted one is executed by the real executor for every accepted variable assignment and every <=1-fault world and "
    "checked against a reference executor that also detects ambiguous merges. Exhaustive inside the bound; small-scope argument beyond."
)
LEVEL_NOTE = "Trusts the reference executor (self-tested), py_gql.lang.parse, and the mutation operators (syntactically valid output is asserted: a parse failure is a harness error)."
DESIGN_REF = "DESIGN.md section 6, C05"
RULE = (
    "cases = (seed, 'single') | (seed, index of first mutant); evaluation = one validate_ast call on a mutant (plus its executions when accepted); "
    "non-trivial = distinct mutant texts on which validation returned; outcomes = (verdict, number of operators)"
)
ASSUMPTIONS = [
    "documents with type-system definitions are parsed with allow_type_system=True (otherwise they are syntax errors and never reach validation)",
    "subscription operations are validated but not executed (execute() refuses them by design; C17 covers subscribe)",
    "variable assignments are the accepted ones of the seed / operator (the reference coercion must accept them too)",
    "shape, not values, is compared for accepted documents: a null with a field error at its path is compatible with any expected value (value equality is C04's oracle)",
    "pairs: a violation is reported only when neither operator alone already produces a violation of the same class on that seed",
    "pairs: the conflict-among-several and custom-scalar-literal families take part with their structurally distinct members only (all members are applied as single mutants)",
]
BOUNDS = {
    "quick": {"seed_nodes": 2, "mutations": 1, "worlds_per_assignment": 12, "assignments": 4},
    "thorough": {"seed_nodes": 2, "mutations": 2, "pair_seed_nodes": 1, "worlds_per_assignment": 12, "assignments": 4},
}
TIME_CAP = {"quick": 150, "thorough": 1500}

_SCHEMAS = {}
_SEEDS = {}


def schema(name):
    if name not in _SCHEMAS:
        sm = S.SCHEMAS[name]
        _SCHEMAS[name] = S.build(sm, W.make_resolver(sm))
    return _SCHEMAS[name]


def seeds(max_nodes):
    if max_nodes not in _SEEDS:
        _SEEDS[max_nodes] = M.all_seeds(max_nodes)
    return _SEEDS[max_nodes]


def cases(tier):
    b = BOUNDS[tier]
    ss = seeds(b["seed_nodes"])
    for i in range(len(ss)):
        yield {"k": "seed", "t": tier, "seed": i}
    for fam in X.FAMILIES:
        yield {"k": "family", "t": tier, "family": fam}
    for i in range(len(ss)):
        yield {"k": "single", "t": tier, "seed": i}
    if b["mutations"] >= 2:
        nhand = len(M.hand_seeds())
        small = len(M.hand_seeds()) + sum(1 for _ in M.generated_seeds(b["pair_seed_nodes"]))
        order = list(range(nhand)) + [i for i in range(nhand, len(ss)) if _nodes(ss[i][1]) <= b["pair_seed_nodes"]]
        del small
        for i in order:
            name, case = ss[i]
            for j, (_op, _rule, tag, _c) in enumerate(M.all_mutants(S.SCHEMAS[name], case)):
                if _in_pairs(tag):
                    yield {"k": "pair", "t": tier, "seed": i, "m1": j}


def _in_pairs(tag):
    """operator variants that take part in PAIRS (all of them are applied as single mutants): the two
    large families are represented by their structurally distinct members only"""
    if tag.startswith("conflict-among-several"):
        return ":three:" in tag and (tag.endswith(":ABn") or tag.endswith(":nAB"))
    if tag.startswith("custom-scalar-literal"):
        return tag.split(":")[-1] in ("object", "enum", "list", "variable") and "variable-default" not in tag
    return True


def _nodes(case):
    return O.count_nodes(case["doc"])


# ---------------------------------------------------------------------------------------------


def _where(exc):
    """innermost frame inside py_gql/validation (else inside py_gql) of the traceback"""
    tb = exc.__traceback__
    best = None
    any_ = None
    while tb is not None:
        code = tb.tb_frame.f_code
        fn = code.co_filename.replace("\\", "/")
        if "/py_gql/" in fn:
            name = getattr(code, "co_qualname", code.co_name)
            any_ = name
            if "/py_gql/validation/" in fn:
                best = name
        tb = tb.tb_next
    return best or any_ or "?"


def _where_exec(exc):
    """innermost py_gql function; for RecursionError the py_gql function that recurses most"""
    tb = exc.__traceback__
    any_ = None
    counts = {}
    while tb is not None:
        code = tb.tb_frame.f_code
        fn = code.co_filename.replace("\\", "/")
        if "/py_gql/" in fn:
            any_ = getattr(code, "co_qualname", code.co_name)
            counts[any_] = counts.get(any_, 0) + 1
        tb = tb.tb_next
    if isinstance(exc, RecursionError) and counts:
        return sorted(counts.items(), key=lambda kv: (-kv[1], kv[0]))[0][0]
    return any_ or "?"


def _shape(v):
    if v is None:
        return None
    if isinstance(v, dict):
        return {"o": [[k, _shape(x)] for k, x in v.items()]}
    if isinstance(v, list):
        return {"l": [_shape(x) for x in v]}
    return "leaf"


def _shape_diff(lib, ref, errpaths, path=()):
    """first path where the library's shape is incompatible with the reference's (None if compatible).
    A library null with an error at that path is compatible with anything."""
    if lib is None:
        if ref is None or tuple(path) in errpaths:
            return None
        return path
    if ref is None:
        return path
    if isinstance(lib, dict) != isinstance(ref, dict) or (isinstance(lib, dict) and "o" in lib) != (isinstance(ref, dict) and "o" in ref):
        return path
    if isinstance(lib, dict) and "o" in lib:
        if [k for k, _ in lib["o"]] != [k for k, _ in ref["o"]]:
            return path
        for (k, a), (_k, b) in zip(lib["o"], ref["o"]):
            d = _shape_diff(a, b, errpaths, path + (k,))
            if d is not None:
                return d
        return None
    if isinstance(lib, dict) and "l" in lib:
        if len(lib["l"]) != len(ref["l"]):
            return path
        for i, (a, b) in enumerate(zip(lib["l"], ref["l"])):
            d = _shape_diff(a, b, errpaths, path + (i,))
            if d is not None:
                return d
        return None
    return None if lib == ref else path


def _via(case):
    """single mutants: operator, sub-kind and placement (first three components of the tag);
    pairs: the two operator names only (the pair space is too large for finer classes)"""
    muts = case.get("muts", [])
    if len(muts) >= 2:
        return "+".join(sorted(t.split(":")[0] for t in muts))
    return "+".join(":".join(t.split(":")[:3]) for t in muts) or "seed"


def evaluate(name, case, st, bounds):
    """-> list of (class, detail)"""
    from py_gql.exc import ExecutionError, VariablesCoercionError
    from py_gql.execution import BlockingExecutor, execute
    from py_gql.lang import parse
    from py_gql.validation import validate_ast

    sm = S.SCHEMAS[name]
    doc = case["doc"]
    text, locs = O.render_doc_locs(doc)
    ast = parse(text, allow_type_system=bool(doc.get("extra")))  # a syntax error here is a harness bug
    out = []
    if st is not None:
        st.n("evaluations")
    try:
        errs = validate_ast(schema(name), ast).errors
    except RecursionError as e:
        return [("validate-raises:RecursionError@%s" % _where(e), "validate_ast raised RecursionError on: %s" % text)]
    except Exception as e:  # noqa
        return [("validate-raises:%s@%s" % (type(e).__name__, _where(e)), "validate_ast raised %r on: %s" % (e, text))]
    if st is not None:
        st.nt(text)
        st.outcome((bool(errs), len(case.get("muts", []))))
    if errs:
        if st is not None:
            st.n("rejected")
        return out
    if st is not None:
        st.n("accepted")
    via = _via(case)
    sc = response_shape_conflicts(sm, doc)
    if sc:
        return [("accepted-but-ambiguous:response-shape/via=%s" % via, "validator accepts, but response key %r has shapes %s depending on the runtime type :: %s" % (sc[0], sc[1], text))]
    opnames = [op.get("name") for op in doc["ops"]] if len(doc["ops"]) > 1 else [None]
    for opname in opnames:
        op = R.Executor(sm, doc).get_operation(opname) if (opname or len(doc["ops"]) == 1) else None
        if op is None or op.get("kind") == "subscription":
            continue
        assigns = O.assignments({k: v for k, v in case["vars"].items() if k in {x[0] for x in op["vars"]}})[: bounds["assignments"]]
        for variables in assigns:
            nworlds = 0
            for world, ref in R.enumerate_worlds(sm, doc, locs, opname, variables, 1, max_worlds=bounds["worlds_per_assignment"]):
                if ref.request_error:
                    break
                nworlds += 1
                if st is not None:
                    st.n("executions")
                try:
                    r = execute(schema(name), ast, operation_name=opname, variables=variables, context_value={"world": world}, executor_cls=BlockingExecutor)
                    dj = json.dumps(r.data)
                except (ExecutionError, VariablesCoercionError):
                    # request errors (variables refused, unknown operation, ...) are the allowed outcomes:
                    # exactly what process_graphql_query turns into a response
                    if st is not None:
                        st.n("request_errors")
                    break
                except RecursionError as e:
                    out.append(("accepted-but-executor-raises:RecursionError@%s" % _where_exec(e), "[%s] execute raised RecursionError; vars %s world %s :: %s" % (via, variables, world, text)))
                    return out
                except Exception as e:  # noqa
                    out.append(("accepted-but-executor-raises:%s@%s" % (type(e).__name__, _where_exec(e)), "[%s] execute raised %r; vars %s world %s :: %s" % (via, e, variables, world, text)))
                    return out
                if ref.ambiguous:
                    out.append(("accepted-but-ambiguous:%s/via=%s" % (sorted(set(ref.ambiguous))[0], via), "validator accepts, reference executor finds %s; library data %s :: %s" % (ref.ambiguous, dj, text)))
                    return out
                if ref.unsupported:
                    if st is not None:
                        st.n("reference_unsupported")
                    break
                errpaths = {tuple(e.path) for e in r.errors if e.path is not None}
                d = _shape_diff(_shape(r.data), _shape(ref.data), errpaths)
                if d is not None:
                    out.append(("accepted-but-shape-differs:%s/via=%s" % (R.describe(ref, d), via), "at %r: library %s reference %s; vars %s world %s :: %s" % (d, dj, ref.dumps(), variables, world, text)))
                    return out
    return out


def response_shape_conflicts(sm, doc):
    """Static part of "one unambiguous value per response key ... lists where list types are declared":
    for every selection set, the fields collected under one response key for the different possible
    runtime types must have the same wrapper structure and, for leaves, the same named type.
    -> (response key, sorted shapes) of the first conflict, or None.  Own code over the document model."""
    frags = {}
    for fr in doc.get("frags", []):
        frags.setdefault(fr[0], fr)

    def applies(obj, tc):
        if tc is None or tc == obj:
            return True
        return obj in S.possible_types(sm, tc) if S.is_composite(sm, tc) else False

    def collect(obj, sels, acc, seen):
        for s_ in sels:
            if s_[0] == "f":
                acc.setdefault(s_[2] or s_[1], []).append(s_)
            elif s_[0] == "i":
                if applies(obj, s_[1]):
                    collect(obj, s_[3], acc, seen)
            elif s_[1] in frags and s_[1] not in seen and applies(obj, frags[s_[1]][1]):
                seen.add(s_[1])
                collect(obj, frags[s_[1]][3], acc, seen)
        return acc

    def shape(ttext):
        t = S.parse_type(ttext)
        named = S.named_of(t)
        return S.type_text(t).replace(named, named if S.is_leaf(sm, named) else "<composite>")

    def walk(parent, selection_lists, depth):
        if depth > 6 or parent is None or not S.is_composite(sm, parent):
            return None
        per_key = {}
        children = {}
        for obj in S.possible_types(sm, parent):
            acc = {}
            for sels in selection_lists:
                collect(obj, sels, acc, set())
            for key, nodes in acc.items():
                for n in nodes:
                    if n[1].startswith("__"):
                        continue
                    fd = S.fields_of(sm, obj).get(n[1])
                    if fd is None:
                        continue
                    per_key.setdefault(key, set()).add(shape(fd["type"]))
                    if n[5] is not None:
                        children.setdefault((key, S.named_of(S.parse_type(fd["type"]))), []).append(n[5])
        for key, shapes in per_key.items():
            if len(shapes) > 1:
                return key, sorted(shapes)
        for (key, child_type), lists in children.items():
            r = walk(child_type, lists, depth + 1)
            if r:
                return r
        return None

    for op in doc["ops"]:
        r = walk(sm.get(op.get("kind", "query")), [op["sels"]], 0)
        if r:
            return r
    return None


def _mutant(name, seed_case, j):
    sm = S.SCHEMAS[name]
    for k, (_op, _rule, _tag, c) in enumerate(M.all_mutants(sm, seed_case)):
        if k == j:
            return c
    raise IndexError(j)


_SINGLE_CLASSES = {}


def _single_classes(tier, i):
    """{operator tag: set of base classes} that single mutants of seed i produce (per process cache)"""
    key = (tier, i)
    if key not in _SINGLE_CLASSES:
        b = BOUNDS[tier]
        name, case = seeds(b["seed_nodes"])[i]
        d = {}
        for _op, _rule, tag, c in M.all_mutants(S.SCHEMAS[name], case):
            for cls, _detail in evaluate(name, c, None, b):
                d.setdefault(tag, set()).add(cls.split("/via=")[0])
        _SINGLE_CLASSES[key] = d
    return _SINGLE_CLASSES[key]


def check_case(case, st):
    b = BOUNDS[case["t"]]
    out = []
    k = case["k"]
    st.n("kind:" + k)
    if k != "family":
        name, seed = seeds(b["seed_nodes"])[case["seed"]]
        sm = S.SCHEMAS[name]
    if k == "family":
        for name, tag, _label, c in X.FAMILIES[case["family"]]():
            c = dict(c, muts=[tag])
            for cls, detail in evaluate(name, c, st, b):
                out.append((cls, {"schema": name, "case": c}, detail))
        return out
    if k == "seed":
        for cls, detail in evaluate(name, seed, st, b):
            out.append((cls, {"schema": name, "case": seed}, detail))
        return out
    if k == "single":
        for _op, _rule, tag, c in M.all_mutants(sm, seed):
            if st.out_of_time():
                break
            if st.counters.get("evaluations", 0) % 1499 == 1:
                st.sample({"schema": name, "mutations": c["muts"], "doc": O.render(c["doc"])})
            for cls, detail in evaluate(name, c, st, b):
                out.append((cls, {"schema": name, "case": c}, detail))
        return out
    if k == "pair":
        c1 = _mutant(name, seed, case["m1"])
        singles = None
        for _op, _rule, tag, c2 in M.all_mutants(sm, c1):
            if st.out_of_time():
                break
            if not _in_pairs(tag):
                continue
            st.n("pairs")
            for cls, detail in evaluate(name, c2, st, b):
                if singles is None:
                    singles = _single_classes(case["t"], case["seed"])
                base = cls.split("/via=")[0]
                if any(base in singles.get(t, ()) for t in c2["muts"]):
                    st.n("pair_violations_already_shown_by_a_single")
                    continue
                out.append((cls, {"schema": name, "case": c2}, detail))
        return out
    raise ValueError(k)


def replay(witness):
    b = BOUNDS["quick"]
    return evaluate(witness["schema"], witness["case"], None, b)


def selftest():
    R.selftest()
    # every operator produces parseable documents on the hand seeds, and every seed is accepted
    from py_gql.lang import parse

    for name, case in M.hand_seeds():
        for _op, _rule, tag, c in M.all_mutants(S.SCHEMAS[name], case):
            parse(O.render(c["doc"]), allow_type_system=bool(c["doc"].get("extra")))
