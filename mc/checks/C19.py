# -*- coding: utf-8 -*-
"""
C19 -- depth limiting flags exactly the operations deeper than the limit.

Engine E3: every selection tree with <= N selection nodes (width <= 2) whose internal nodes are
drawn from {object field t, inline fragment, inline fragment with type condition, named fragment
spread}, i.e. *every way of distributing a selection over fragments at every level including the top
of the operation*; on top of each tree every single departure from the plain form (each
@skip/@include variant with literal and variable condition at each node, alias on each object field,
duplicated spread); multi-operation documents with every operation_name filter.  Each document is
run through MaxDepthValidationRule for every limit 0..depth+1 and compared with the reference depth
measure below (longest path of selected fields after @skip/@include, minus one -- the measure of
the class docstring, whose example has depth 4).
"""
import functools

from mc.gen import docs as D

READY = True
LEVEL = "exploration"
TECHNIQUE = "bounded-exhaustive enumeration of selection trees x fragment distributions x directive placements x limits against a reference depth measure"
LEVEL_TEXT = (
    "Every document shape up to the node bound is enumerated (no sampling) and the real "
    "MaxDepthValidationRule is run on each for every limit; verdicts are compared with an independent "
    "depth measure. Exhaustive inside the bound, small-scope argument beyond."
)
LEVEL_NOTE = "Trusts py_gql.lang.parse to build the AST handed to the rule (covered by C01/C02) and the reference measure in this file (self-tested on the docstring example)."
DESIGN_REF = "DESIGN.md section 6, C19"
RULE = (
    "cases = all selection trees with <= N nodes over {leaf a, second spread of fragment 1 or 2, t{..}, ...{..}, ... on Query{..}, ...Frag{..}} width<=2 (acyclic), "
    "plus single deviations (directive variant / @skip and @include together in both orders / alias / duplicated spread) at every node, plus the same selections as mutation / subscription operations, two-operation documents x operation_name; "
    "evaluation = one rule call (document, limit, variables); non-trivial = distinct (document, variables) whose reference depth >= 1 "
    "or that contains a fragment or directive"
)
ASSUMPTIONS = [
    "documents are valid by construction against `type Query { a: Int  t: Query }` (cross-checked with validate_ast; disagreements are counted, not reported here)",
    "variables steering @skip/@include are always provided (declared Boolean!, or Boolean with the opposite default)",
]
BOUNDS = {
    "quick": {"nodes": 7, "deviation_nodes": 5, "multi_op_nodes": 3},
    "thorough": {"nodes": 8, "deviation_nodes": 6, "multi_op_nodes": 4},
}
TIME_CAP = {"quick": 120, "thorough": 1500}

SDL = "type Query { a: Int  t: Query }  type Mutation { a: Int  t: Query }  type Subscription { a: Int  t: Query }  directive @x(if: Boolean) on FIELD | FRAGMENT_SPREAD | INLINE_FRAGMENT"

# ------------------------------------------------------------------------------------------
# enumeration


LEAVES = (("a",), ("r", 1), ("r", 2))


@functools.lru_cache(maxsize=None)
def _items(n):
    if n == 1:
        return LEAVES
    out = []
    for kind in ("t", "i", "io", "s"):
        for ss in _sets(n - 1):
            out.append((kind, ss))
    return tuple(out)


@functools.lru_cache(maxsize=None)
def _sets(n):
    out = [(x,) for x in _items(n)]
    for n1 in range(1, n):
        for x in _items(n1):
            for y in _items(n - n1):
                out.append((x, y))
    return tuple(out)


def _nfr(x):
    if x[0] in ("a", "r"):
        return 0
    return (1 if x[0] == "s" else 0) + sum(_nfr(c) for c in x[1])


def _maxr(x):
    if x[0] == "r":
        return x[1]
    if x[0] == "a":
        return 0
    return max(_maxr(c) for c in x[1])


@functools.lru_cache(maxsize=None)
def _wellformed_sets(n):
    """sets of size n whose reuse leaves refer to fragments that exist (cycles are filtered later)."""
    return tuple(
        ss for ss in _sets(n) if max(_maxr(c) for c in ss) <= sum(_nfr(c) for c in ss)
    )


def _to_doc(sset, prefix="Frag"):
    """abstract tree -> (sels, frags) of mc.gen.docs; fragments named Frag1.. in DFS order.
    ("r", k) is a second spread of fragment k.  Returns None if the spreads form a cycle."""
    frags = []

    def conv_set(ss):
        return [conv(x) for x in ss]

    def conv(x):
        k = x[0]
        if k == "a":
            return ["f", "a", None, [], {}, None]
        if k == "r":
            return ["s", "%s%d" % (prefix, x[1]), []]
        if k == "t":
            return ["f", "t", None, [], {}, conv_set(x[1])]
        if k == "i":
            return ["i", None, [], conv_set(x[1])]
        if k == "io":
            return ["i", "Query", [], conv_set(x[1])]
        if k == "s":
            name = "%s%d" % (prefix, len(frags) + 1)
            slot = [name, "Query", [], None]
            frags.append(slot)
            slot[3] = conv_set(x[1])
            return ["s", name, []]
        raise ValueError(k)

    sels = conv_set(sset)
    # cycle check
    fm = {f[0]: f for f in frags}

    def spreads(lst):
        for s in lst:
            if s[0] == "s":
                yield s[1]
            elif s[0] == "f" and s[5]:
                for x in spreads(s[5]):
                    yield x
            elif s[0] == "i":
                for x in spreads(s[3]):
                    yield x

    state = {}

    def cyc(name):
        if state.get(name) == 1:
            return True
        if state.get(name) == 2:
            return False
        state[name] = 1
        for t in spreads(fm[name][3]):
            if cyc(t):
                return True
        state[name] = 2
        return False

    if any(cyc(f[0]) for f in frags):
        return None
    return sels, frags


DIR_VARIANTS = [
    ("skip", "true", None),
    ("skip", "false", None),
    ("include", "false", None),
    ("include", "true", None),
    ("skip", "$v", True),
    ("skip", "$v", False),
    ("include", "$v", True),
    ("include", "$v", False),
]


def _all_nodes(ops_sels, frags):
    """every selection node of the operations and of all fragments, as (container list, index)."""
    out = []

    def rec(lst):
        for i, s in enumerate(lst):
            out.append((lst, i))
            if s[0] == "f" and s[5]:
                rec(s[5])
            elif s[0] == "i":
                rec(s[3])

    for sels in ops_sels:
        rec(sels)
    for fr in frags:
        rec(fr[3])
    return out


def _copy(x):
    import copy

    return copy.deepcopy(x)


def _mk_case(ops, frags, var=None, opname=None, tag="base", xv=False, opposite_default=False):
    ops = _copy(ops)
    if var is not None:
        for op in ops:
            op["vars"] = [["v", "Boolean!", None]]
            if opposite_default:
                # the declared default is the opposite of the value the caller supplies: the supplied value wins
                op["vars"] = [["v", "Boolean", "false" if var else "true"]]
            if op["name"] is None and len(ops) == 1:
                pass
    return {
        "doc": {"ops": ops, "frags": frags},
        "variables": ({"v": var} if var is not None else {}),
        "operation_name": opname,
        "tag": tag,
        "crosscheck_validity": xv,
    }


def _op(name, sels):
    return {"kind": "query", "name": name, "vars": [], "dirs": [], "sels": sels}


def cases(tier):
    """cheap descriptors; check_case materialises the documents."""
    b = BOUNDS[tier]
    for n in range(1, b["nodes"] + 1):
        for i in range(len(_wellformed_sets(n))):
            yield ["base", n, i]
    for n in range(1, b["deviation_nodes"] + 1):
        for i in range(len(_wellformed_sets(n))):
            yield ["dev", n, i]
    small = _small(b["multi_op_nodes"])
    for ia in range(len(small)):
        for ib in range(len(small)):
            yield ["multi", b["multi_op_nodes"], ia, ib]
    for ia in range(len(small)):
        yield ["anon", b["multi_op_nodes"], ia]


@functools.lru_cache(maxsize=None)
def _small(m):
    return tuple(ss for n in range(1, m + 1) for ss in _wellformed_sets(n))


def _deviations(ops_sels_of, frags0, ops0, tag, uses_var_everywhere):
    """single departures at every node: directive variants, alias, duplicated spread."""
    nn = len(_all_nodes([o["sels"] for o in ops0], frags0))
    for pos in range(nn):
        for dname, dval, var in DIR_VARIANTS:
            ops, frags = _copy(ops0), _copy(frags0)
            lst, i = _all_nodes([o["sels"] for o in ops], frags)[pos]
            node = lst[i]
            dirs = node[3] if node[0] == "f" else node[2]
            dirs.append([dname, {"if": dval}])
            if var is not None and len(ops) > 1:
                # the variable must be declared (and used) by every operation that can reach it;
                # keep multi-operation documents to literal conditions
                continue
            yield _mk_case(ops, frags, var=var, tag=tag + "/dir")
            if var is not None:
                yield _mk_case(ops, frags, var=var, tag=tag + "/dir-default", opposite_default=True)
        # both directives on one node, every combination of conditions, in both written orders
        for sv in ("true", "false"):
            for iv in ("true", "false"):
                for order in (("skip", "include"), ("include", "skip")):
                    ops, frags = _copy(ops0), _copy(frags0)
                    lst, i = _all_nodes([o["sels"] for o in ops], frags)[pos]
                    node = lst[i]
                    dirs = node[3] if node[0] == "f" else node[2]
                    for d in order:
                        dirs.append([d, {"if": sv if d == "skip" else iv}])
                    yield _mk_case(ops, frags, tag=tag + "/dir2")
        # an unrelated directive (with an `if` argument of its own) written before / after the steering one
        for first, second in ((["x", {"if": "false"}], ["skip", {"if": "true"}]), (["skip", {"if": "true"}], ["x", {"if": "false"}]),
                              (["x", {"if": "true"}], ["include", {"if": "false"}]), (["x", {"if": "true"}], ["skip", {"if": "false"}])):
            ops, frags = _copy(ops0), _copy(frags0)
            lst, i = _all_nodes([o["sels"] for o in ops], frags)[pos]
            node = lst[i]
            dirs = node[3] if node[0] == "f" else node[2]
            dirs.append(_copy(first))
            dirs.append(_copy(second))
            yield _mk_case(ops, frags, tag=tag + "/dirx")
        ops, frags = _copy(ops0), _copy(frags0)
        lst, i = _all_nodes([o["sels"] for o in ops], frags)[pos]
        node = lst[i]
        if node[0] == "f" and node[5] is not None:
            node[2] = "x"
            yield _mk_case(ops, frags, tag=tag + "/alias")
        elif node[0] == "s":
            lst.insert(i + 1, _copy(node))
            yield _mk_case(ops, frags, tag=tag + "/dupspread")


def materialise(desc):
    """descriptor -> list of concrete cases"""
    kind = desc[0]
    if kind == "base":
        _, n, i = desc
        d = _to_doc(_wellformed_sets(n)[i])
        if d is None:
            return []
        sels, frags = d
        out = [_mk_case([_op(None, sels)], frags, tag="base/n=%d" % n, xv=(n <= 4))]
        # the same selection as a mutation / subscription (root fields only at the top: fragments are `on Query`)
        ss = _wellformed_sets(n)[i]
        if n <= 6 and all(x[0] in ("a", "t") for x in ss):
            for opkind in ("mutation", "subscription"):
                if opkind == "subscription" and len(ss) != 1:
                    continue
                op = _op(None, _copy(sels))
                op["kind"] = opkind
                out.append(_mk_case([op], _copy(frags), tag="kind/%s" % opkind, xv=(n <= 4)))
                named = _op("Named", _copy(sels))
                named["kind"] = opkind
                out.append(_mk_case([named, _op("Shallow", [["f", "a", None, [], {}, None]])], _copy(frags), tag="kind/%s" % opkind))
        return out
    if kind == "dev":
        _, n, i = desc
        d = _to_doc(_wellformed_sets(n)[i])
        if d is None:
            return []
        sels, frags = d
        return list(_deviations(None, frags, [_op(None, sels)], "dev/n=%d" % n, True))
    if kind == "multi":
        _, m, ia, ib = desc
        small = _small(m)
        da, db = _to_doc(small[ia]), _to_doc(small[ib], prefix="Other")
        if da is None or db is None:
            return []
        ops = [_op("Op", da[0]), _op("OpB", db[0])]
        frags = da[1] + db[1]
        out = []
        for opname in (None, "Op", "OpB", "O", "OpBx", "pB"):
            out.append(_mk_case(ops, _copy(frags), opname=opname, tag="multi"))
        # single literal-directive deviations in two-operation documents (no filter / each filter)
        if len(_all_nodes([o["sels"] for o in ops], frags)) <= 4:
            for c in _deviations(None, frags, ops, "multi", False):
                out.append(c)
                for opname in ("Op", "OpB"):
                    c2 = _copy(c)
                    c2["operation_name"] = opname
                    out.append(c2)
        return out
    if kind == "anon":
        _, m, ia = desc
        d = _to_doc(_small(m)[ia])
        if d is None:
            return []
        return [_mk_case([_op(None, d[0])], d[1], opname="Op", tag="anon-filtered")]
    raise ValueError(kind)


# ------------------------------------------------------------------------------------------
# reference measure


def _dir_skips(dirs, variables):
    for name, args in dirs:
        if name not in ("skip", "include"):
            continue
        v = args["if"]
        val = variables[v[1:]] if v.startswith("$") else (v == "true")
        if name == "skip" and val:
            return True
        if name == "include" and not val:
            return True
    return False


def ref_field_count(sels, frags, variables, stack=()):
    """longest chain of selected fields starting in this selection set (0 if nothing selected)."""
    best = 0
    for s in sels:
        if s[0] == "f":
            if _dir_skips(s[3], variables):
                continue
            d = 1 + (ref_field_count(s[5], frags, variables, stack) if s[5] else 0)
        elif s[0] == "i":
            if _dir_skips(s[2], variables):
                continue
            d = ref_field_count(s[3], frags, variables, stack)
        else:
            if _dir_skips(s[2], variables) or s[1] in stack:
                continue
            fr = frags[s[1]]
            d = ref_field_count(fr[3], frags, variables, stack + (s[1],))
        best = max(best, d)
    return best


def ref_depth(op, fragmap, variables):
    return max(ref_field_count(op["sels"], fragmap, variables) - 1, 0)


def selftest():
    # the docstring example has depth 4
    doc = {
        "ops": [
            {
                "kind": "query",
                "name": None,
                "vars": [],
                "dirs": [],
                "sels": [
                    ["f", "hero", None, [], {}, [
                        ["f", "name", None, [], {}, None],
                        ["f", "friends", None, [], {}, [["s", "friendsData", []]]],
                    ]]
                ],
            }
        ],
        "frags": [
            ["friendsData", "Character", [], [
                ["f", "friends", None, [], {}, [
                    ["f", "name", None, [], {}, None],
                    ["f", "friends", None, [], {}, [["f", "name", None, [], {}, None]]],
                ]]
            ]]
        ],
    }
    fm = {f[0]: f for f in doc["frags"]}
    assert ref_depth(doc["ops"][0], fm, {}) == 4
    flat = {"kind": "query", "name": None, "vars": [], "dirs": [], "sels": [["f", "a", None, [], {}, None]]}
    assert ref_depth(flat, {}, {}) == 0


# ------------------------------------------------------------------------------------------
# oracle

_SCHEMA = None


def _schema():
    global _SCHEMA
    if _SCHEMA is None:
        from py_gql import build_schema

        _SCHEMA = build_schema(SDL)
    return _SCHEMA


def _features(doc):
    txt = D.render_doc(doc)
    f = []
    op = doc["ops"][0]
    kinds = {s[0] for s in op["sels"]}
    if kinds - {"f"}:
        f.append("top-fragment")
    if "@" in txt:
        f.append("directive")
    return f


def _has_merged_key(doc, variables):
    """two object fields with the same response key in one (flattened) selection set."""
    fm = {f[0]: f for f in doc["frags"]}

    def flat(sels, stack=()):
        for s in sels:
            if s[0] == "f":
                yield s
            elif s[0] == "i":
                for x in flat(s[3], stack):
                    yield x
            elif s[1] not in stack:
                for x in flat(fm[s[1]][3], stack + (s[1],)):
                    yield x

    def rec(sels):
        keys = {}
        for s in flat(sels):
            if s[5] is not None:
                keys.setdefault(s[2] or s[1], []).append(s)
        for k, fs in keys.items():
            if len(fs) > 1:
                return True
            if rec(fs[0][5]):
                return True
        return False

    return any(rec(op["sels"]) for op in doc["ops"])


def evaluate(case, st=None):
    """Run the real rule on one case for every limit; return list of (class, detail)."""
    from py_gql.lang import parse
    from py_gql.utilities import MaxDepthValidationRule
    from py_gql.validation import validate_ast

    doc = case["doc"]
    variables = case["variables"]
    opname = case["operation_name"]
    text = D.render_doc(doc)
    fm = {f[0]: f for f in doc["frags"]}
    depths = []
    for i, op in enumerate(doc["ops"]):
        depths.append((op["name"], ref_depth(op, fm, variables)))
    maxd = max(d for _, d in depths)
    ast = parse(text)
    schema = _schema()
    out = []
    if st is not None:
        if maxd >= 1 or doc["frags"] or "@" in text:
            st.nt(text + repr(sorted(variables.items())) + repr(opname))
        if case.get("crosscheck_validity"):
            st.n("validity_crosschecked")
            vr = validate_ast(schema, ast, variables=variables)
            if vr.errors:
                st.n("validator_rejects_generated_document")
    for limit in range(0, maxd + 2):
        expected = sorted(
            (name or "<ANONYMOUS>")
            for name, d in depths
            if d > limit and (opname is None or name == opname)
        )
        if st is not None:
            st.n("evaluations")
        try:
            if limit == 1:
                # through the public validation entry point
                errs = validate_ast(
                    schema,
                    ast,
                    validators=[MaxDepthValidationRule(limit, operation_name=opname)],
                    variables=variables,
                ).errors
            elif limit == 0 and not variables:
                # documents without variables: the variables argument may be omitted altogether
                errs = list(MaxDepthValidationRule(limit, operation_name=opname)(schema, ast))
            else:
                errs = list(MaxDepthValidationRule(limit, operation_name=opname)(schema, ast, variables))
        except Exception as e:  # noqa
            out.append(("raises:%s" % type(e).__name__, "limit=%d: %r on %s" % (limit, e, text)))
            break
        got = []
        for e in errs:
            node = e.nodes[0]
            got.append(node.name.value if getattr(node, "name", None) else "<ANONYMOUS>")
        got.sort()
        if st is not None:
            st.outcome((tuple(got) != (), limit))
        if got != expected:
            missing = [x for x in expected if x not in got]
            extra = [x for x in got if x not in expected]
            if opname is not None and extra and any(x != opname for x in extra):
                cls = "name-filter"
            elif missing:
                if "top-fragment" in _features(doc):
                    cls = "missed:top-level-fragment"
                elif _has_merged_key(doc, variables):
                    cls = "missed:merged-response-key"
                else:
                    cls = "missed:other"
            else:
                cls = "false-report"
            out.append(
                (cls, "limit=%d expected errors for %s got %s; ref depths %s; doc: %s vars=%s" % (limit, expected, got, depths, text, variables))
            )
            break
    return out


def evaluate_reuse(case, st=None):
    """the same rule INSTANCE and the same parsed document, called with v=true then v=false then v=true:
    every call must be judged on its own variables"""
    from py_gql.lang import parse
    from py_gql.utilities import MaxDepthValidationRule

    doc = case["doc"]
    text = D.render_doc(doc)
    fm = {f[0]: f for f in doc["frags"]}
    ast = parse(text)
    schema = _schema()
    out = []
    depth = {}
    for v in (True, False):
        depth[v] = max(ref_depth(op, fm, {"v": v}) for op in doc["ops"])
    if depth[True] == depth[False]:
        return out
    for limit in sorted({min(depth.values()), max(depth.values()) - 1}):
        if limit < 0:
            continue
        rule = MaxDepthValidationRule(limit)
        for v in (True, False, True):
            if st is not None:
                st.n("evaluations")
            try:
                got = bool(list(rule(schema, ast, {"v": v})))
            except Exception as e:  # noqa
                out.append(("raises:%s" % type(e).__name__, "reused instance limit=%d v=%s: %r on %s" % (limit, v, e, text)))
                return out
            want = depth[v] > limit
            if got != want:
                out.append(("stale-verdict:reused-rule-instance", "limit=%d v=%s expected error=%s got %s (depths %s); doc: %s" % (limit, v, want, got, depth, text)))
                return out
    return out


def check_case(desc, st):
    out = []
    for case in materialise(desc):
        st.n("documents")
        if st.counters.get("documents", 0) % 4999 == 1:
            st.sample({"doc": D.render_doc(case["doc"]), "variables": case["variables"], "operation_name": case["operation_name"]})
        st.n("tag:" + case["tag"].split("/")[0])
        for cls, detail in evaluate(case, st):
            out.append((cls, case, detail))
        if case["variables"] and case["variables"].get("v") is True:
            for cls, detail in evaluate_reuse(case, st):
                w = dict(case)
                w["reuse"] = True
                out.append((cls, w, detail))
    return out


def replay(witness):
    if witness.get("reuse"):
        return evaluate_reuse(witness, None)
    return evaluate(witness, None)
