# -*- coding: utf-8 -*-
"""
C19 -- depth limiting flags exactly the operations deeper than the limit.

Engine E3: every selection tree with <= N selection nodes (width <= 2) whose internal nodes are
drawn from {object field t, inline fragment, inline fragment with type condition, named fragment
spread}, i.e. *every way of distributing a selection over fragments at every level including the top
of the operation*; on top of each tree every single departure from the plain form (each
@skip/@include variant with literal and variable condition at each node, alias on each object field,
duplicated spread); multi-operation documents with every operation_name filter.  Each document is
run through MaxDepthValidationRule for every limit 0..depth+1 and compared with the reference depth
measure below (longest path of selected fields after @skip/@include, minus one -- the measure of
the class docstring, whose example has depth 4).
"""
import functools

from mc.gen import docs as D

READY = True
LEVEL = "exploration"
TECHNIQUE = "bounded-exhaustive enumeration of selection trees x fragment distributions x directive placements x limits against a reference depth measure"
LEVEL_TEXT = (
    "Every document shape up to the node bound is enumerated (no sampling) and the real "
    "MaxDepthValidationRule is run on each for every limit; verdicts are compared with an independent "
    "depth measure. Exhaustive inside the bound, small-scope argument beyond."
)
LEVEL_NOTE = "Trusts py_gql.lang.parse to build the AST handed to the rule (covered by C01/C02) and the reference measure in this file (self-tested on the docstring example)."
DESIGN_REF = "DESIGN.md section 6, C19"
RULE = (
    "cases = all selection trees with <= N nodes over {leaf a, t{..}, ...{..}, ... on Query{..}, ...Frag} width<=2, "
    "plus single deviations (directive variant / alias / duplicated spread) at every node, plus two-operation documents x operation_name; "
    "evaluation = one rule call (document, limit, variables); non-trivial = distinct (document, variables) whose reference depth >= 1 "
    "or that contains a fragment or directive"
)
ASSUMPTIONS = [
    "documents are valid by construction against `type Query { a: Int  t: Query }` (cross-checked with validate_ast; disagreements are counted, not reported here)",
    "variables steering @skip/@include are always provided (Boolean!)",
]
BOUNDS = {
    "quick": {"nodes": 8, "deviation_nodes": 6, "multi_op_nodes": 3},
    "thorough": {"nodes": 9, "deviation_nodes": 7, "multi_op_nodes": 4},
}
TIME_CAP = {"quick": 120, "thorough": 1500}

SDL = "type Query { a: Int  t: Query }"

# ------------------------------------------------------------------------------------------
# enumeration


@functools.lru_cache(maxsize=None)
def _items(n):
    if n == 1:
        return (("a",),)
    out = []
    for kind in ("t", "i", "io", "s"):
        for ss in _sets(n - 1):
            out.append((kind, ss))
    return tuple(out)


@functools.lru_cache(maxsize=None)
def _sets(n):
    out = [(x,) for x in _items(n)]
    for n1 in range(1, n):
        for x in _items(n1):
            for y in _items(n - n1):
                out.append((x, y))
    return tuple(out)


def _to_doc(sset):
    """abstract tree -> (sels, frags) of mc.gen.docs; fragments named Frag1.. in DFS order."""
    frags = []

    def conv_set(ss):
        return [conv(x) for x in ss]

    def conv(x):
        k = x[0]
        if k == "a":
            return ["f", "a", None, [], {}, None]
        if k == "t":
            return ["f", "t", None, [], {}, conv_set(x[1])]
        if k == "i":
            return ["i", None, [], conv_set(x[1])]
        if k == "io":
            return ["i", "Query", [], conv_set(x[1])]
        if k == "s":
            name = "Frag%d" % (len(frags) + 1)
            slot = [name, "Query", [], None]
            frags.append(slot)
            slot[3] = conv_set(x[1])
            return ["s", name, []]
        raise ValueError(k)

    sels = conv_set(sset)
    return sels, frags


DIR_VARIANTS = [
    ("skip", "true", None),
    ("skip", "false", None),
    ("include", "false", None),
    ("include", "true", None),
    ("skip", "$v", True),
    ("skip", "$v", False),
    ("include", "$v", True),
    ("include", "$v", False),
]


def _all_nodes(sels, frags):
    """every selection node of the operation and of all fragments, as (container list, index)."""
    out = []

    def rec(lst):
        for i, s in enumerate(lst):
            out.append((lst, i))
            if s[0] == "f" and s[5]:
                rec(s[5])
            elif s[0] == "i":
                rec(s[3])

    rec(sels)
    for fr in frags:
        rec(fr[3])
    return out


def _copy(x):
    import copy

    return copy.deepcopy(x)


def _mk_case(sels, frags, var=None, opname=None, ops=None, tag="base"):
    if ops is None:
        op = {"kind": "query", "name": None, "vars": [], "dirs": [], "sels": sels}
        if var is not None:
            op["vars"] = [["v", "Boolean!", None]]
        ops = [op]
    return {
        "doc": {"ops": ops, "frags": frags},
        "variables": ({"v": var} if var is not None else {}),
        "operation_name": opname,
        "tag": tag,
    }


def cases(tier):
    b = BOUNDS[tier]
    # 1. base documents
    for n in range(1, b["nodes"] + 1):
        for ss in _sets(n):
            sels, frags = _to_doc(ss)
            c = _mk_case(sels, frags, tag="base/n=%d" % n)
            c["crosscheck_validity"] = n <= 5
            yield c
    # 2. single deviations
    for n in range(1, b["deviation_nodes"] + 1):
        for ss in _sets(n):
            sels0, frags0 = _to_doc(ss)
            nn = len(_all_nodes(sels0, frags0))
            for pos in range(nn):
                for dname, dval, var in DIR_VARIANTS:
                    sels, frags = _copy(sels0), _copy(frags0)
                    lst, i = _all_nodes(sels, frags)[pos]
                    node = lst[i]
                    dirs = node[3] if node[0] == "f" else node[2]
                    dirs.append([dname, {"if": dval}])
                    c = _mk_case(sels, frags, var=var, tag="dir/n=%d" % n)
                    c["crosscheck_validity"] = n <= 3
                    yield c
                sels, frags = _copy(sels0), _copy(frags0)
                lst, i = _all_nodes(sels, frags)[pos]
                node = lst[i]
                if node[0] == "f" and node[5] is not None:
                    node[2] = "x"
                    yield _mk_case(sels, frags, tag="alias/n=%d" % n)
                elif node[0] == "s":
                    lst.insert(i + 1, _copy(node))
                    yield _mk_case(sels, frags, tag="dupspread/n=%d" % n)
    # 3. several operations x operation_name
    m = b["multi_op_nodes"]
    small = [ss for n in range(1, m + 1) for ss in _sets(n)]
    for ia, sa in enumerate(small):
        for sb in small:
            selsa, fragsa = _to_doc(sa)
            selsb, fragsb = _to_doc(sb)
            # rename B's fragments to avoid clashes
            ren = {}
            for fr in fragsb:
                ren[fr[0]] = "Other" + fr[0]

            def rn(lst):
                for s in lst:
                    if s[0] == "s":
                        s[1] = ren[s[1]]
                    elif s[0] == "f" and s[5]:
                        rn(s[5])
                    elif s[0] == "i":
                        rn(s[3])

            rn(selsb)
            for fr in fragsb:
                fr[0] = ren[fr[0]]
                rn(fr[3])
            ops = [
                {"kind": "query", "name": "A", "vars": [], "dirs": [], "sels": selsa},
                {"kind": "query", "name": "Bee", "vars": [], "dirs": [], "sels": selsb},
            ]
            for opname in (None, "A", "Bee", "Zed"):
                yield _mk_case(None, fragsa + fragsb, ops=_copy(ops), opname=opname, tag="multi")
    # anonymous operation with a name filter: nothing can be reported
    for ss in small:
        sels, frags = _to_doc(ss)
        yield _mk_case(sels, frags, opname="A", tag="anon-filtered")


# ------------------------------------------------------------------------------------------
# reference measure


def _dir_skips(dirs, variables):
    for name, args in dirs:
        v = args["if"]
        val = variables[v[1:]] if v.startswith("$") else (v == "true")
        if name == "skip" and val:
            return True
        if name == "include" and not val:
            return True
    return False


def ref_field_count(sels, frags, variables, stack=()):
    """longest chain of selected fields starting in this selection set (0 if nothing selected)."""
    best = 0
    for s in sels:
        if s[0] == "f":
            if _dir_skips(s[3], variables):
                continue
            d = 1 + (ref_field_count(s[5], frags, variables, stack) if s[5] else 0)
        elif s[0] == "i":
            if _dir_skips(s[2], variables):
                continue
            d = ref_field_count(s[3], frags, variables, stack)
        else:
            if _dir_skips(s[2], variables) or s[1] in stack:
                continue
            fr = frags[s[1]]
            d = ref_field_count(fr[3], frags, variables, stack + (s[1],))
        best = max(best, d)
    return best


def ref_depth(op, fragmap, variables):
    return max(ref_field_count(op["sels"], fragmap, variables) - 1, 0)


def selftest():
    # the docstring example has depth 4
    doc = {
        "ops": [
            {
                "kind": "query",
                "name": None,
                "vars": [],
                "dirs": [],
                "sels": [
                    ["f", "hero", None, [], {}, [
                        ["f", "name", None, [], {}, None],
                        ["f", "friends", None, [], {}, [["s", "friendsData", []]]],
                    ]]
                ],
            }
        ],
        "frags": [
            ["friendsData", "Character", [], [
                ["f", "friends", None, [], {}, [
                    ["f", "name", None, [], {}, None],
                    ["f", "friends", None, [], {}, [["f", "name", None, [], {}, None]]],
                ]]
            ]]
        ],
    }
    fm = {f[0]: f for f in doc["frags"]}
    assert ref_depth(doc["ops"][0], fm, {}) == 4
    flat = {"kind": "query", "name": None, "vars": [], "dirs": [], "sels": [["f", "a", None, [], {}, None]]}
    assert ref_depth(flat, {}, {}) == 0


# ------------------------------------------------------------------------------------------
# oracle

_SCHEMA = None


def _schema():
    global _SCHEMA
    if _SCHEMA is None:
        from py_gql import build_schema

        _SCHEMA = build_schema(SDL)
    return _SCHEMA


def _features(doc):
    txt = D.render_doc(doc)
    f = []
    op = doc["ops"][0]
    kinds = {s[0] for s in op["sels"]}
    if kinds - {"f"}:
        f.append("top-fragment")
    if "@" in txt:
        f.append("directive")
    return f


def _has_merged_key(doc, variables):
    """two object fields with the same response key in one (flattened) selection set."""
    fm = {f[0]: f for f in doc["frags"]}

    def flat(sels, stack=()):
        for s in sels:
            if s[0] == "f":
                yield s
            elif s[0] == "i":
                for x in flat(s[3], stack):
                    yield x
            elif s[1] not in stack:
                for x in flat(fm[s[1]][3], stack + (s[1],)):
                    yield x

    def rec(sels):
        keys = {}
        for s in flat(sels):
            if s[5] is not None:
                keys.setdefault(s[2] or s[1], []).append(s)
        for k, fs in keys.items():
            if len(fs) > 1:
                return True
            if rec(fs[0][5]):
                return True
        return False

    return any(rec(op["sels"]) for op in doc["ops"])


def evaluate(case, st=None):
    """Run the real rule on one case for every limit; return list of (class, detail)."""
    from py_gql.lang import parse
    from py_gql.utilities import MaxDepthValidationRule
    from py_gql.validation import validate_ast

    doc = case["doc"]
    variables = case["variables"]
    opname = case["operation_name"]
    text = D.render_doc(doc)
    fm = {f[0]: f for f in doc["frags"]}
    depths = []
    for i, op in enumerate(doc["ops"]):
        depths.append((op["name"], ref_depth(op, fm, variables)))
    maxd = max(d for _, d in depths)
    ast = parse(text)
    schema = _schema()
    out = []
    if st is not None:
        if maxd >= 1 or doc["frags"] or "@" in text:
            st.nt(text + repr(sorted(variables.items())) + repr(opname))
        if case.get("crosscheck_validity"):
            st.n("validity_crosschecked")
            vr = validate_ast(schema, ast, variables=variables)
            if vr.errors:
                st.n("validator_rejects_generated_document")
    for limit in range(0, maxd + 2):
        expected = sorted(
            (name or "<ANONYMOUS>")
            for name, d in depths
            if d > limit and (opname is None or name == opname)
        )
        if st is not None:
            st.n("evaluations")
        try:
            if limit == 1:
                # through the public validation entry point
                errs = validate_ast(
                    schema,
                    ast,
                    validators=[MaxDepthValidationRule(limit, operation_name=opname)],
                    variables=variables,
                ).errors
            else:
                errs = list(MaxDepthValidationRule(limit, operation_name=opname)(schema, ast, variables))
        except Exception as e:  # noqa
            out.append(("raises:%s" % type(e).__name__, "limit=%d: %r on %s" % (limit, e, text)))
            break
        got = []
        for e in errs:
            node = e.nodes[0]
            got.append(node.name.value if getattr(node, "name", None) else "<ANONYMOUS>")
        got.sort()
        if st is not None:
            st.outcome((tuple(got) != (), limit))
        if got != expected:
            missing = [x for x in expected if x not in got]
            extra = [x for x in got if x not in expected]
            if opname is not None and extra and any(x != opname for x in extra):
                cls = "name-filter"
            elif missing:
                if "top-fragment" in _features(doc):
                    cls = "missed:top-level-fragment"
                elif _has_merged_key(doc, variables):
                    cls = "missed:merged-response-key"
                else:
                    cls = "missed:other"
            else:
                cls = "false-report"
            out.append(
                (cls, "limit=%d expected errors for %s got %s; ref depths %s; doc: %s vars=%s" % (limit, expected, got, depths, text, variables))
            )
            break
    return out


def check_case(case, st):
    if st.counters.get("cases", 0) % 997 == 1:
        st.sample({"doc": D.render_doc(case["doc"]), "variables": case["variables"], "operation_name": case["operation_name"]})
    st.n("tag:" + case["tag"].split("/")[0])
    return [(cls, case, detail) for cls, detail in evaluate(case, st)]


def replay(witness):
    return evaluate(witness, None)
