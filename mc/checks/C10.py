# -*- coding: utf-8 -*-
"""
C10 -- every outcome is a well-formed, serialisable response; failures stay contained.

Fault enumeration over the request pipeline parse -> validate -> operation selection -> variable
coercion -> resolvers:

  text faults      every truncation point (all prefixes) of ~45 seed documents (valid, invalid against
                   the schema, multi-operation, block strings, every escape, non-ASCII, CR / CRLF / LF
                   line ends, BOM, comments), every single-character substitution from a 12-character set
                   at every offset, and (thorough) every single-character deletion / insertion
  payload faults   variable payloads from C07's value alphabet (wrong kinds included), payload shapes,
                   values with exactly one / two / three independent invalid parts (input-object fields,
                   list items, nested), several invalid variables at once
  selection faults operation name none / right / wrong / empty on anonymous, single and multi-op documents
  resolver faults  at every executed field of 7 documents: ResolverError with / without extensions (plain
                   dict with nested values, MappingProxyType, ChainMap, OrderedDict, custom Mapping, empty
                   mapping), a ResolverError subclass, errors that already carry a foreign path / foreign
                   nodes, an error re-raised from a delegated sub-request, extensions with falsy values of every
                   JSON kind alone and mixed, empty / whitespace-only messages, ONE exception instance raised by
                   several fields, null (nullable and non-null positions), null list items; the same
                   fault at every field of one name; pairs of faults (thorough)
  offset-0 faults  every document that starts at offset 0 (21 whose error node is the document / first
                   operation / first fragment, all seeds, all fault documents; without faults, with null in
                   every non-null `nn`, with ResolverError at every `a`) against the same text behind " ",
                   LF, CRLF: same errors, locations shifted consistently
  return faults    finite float, nan, inf, -inf, huge int, bytes, set at leaf fields of each built-in scalar

each through the executor/runtime configurations graphql_blocking (BlockingExecutor), process_graphql_query
(Executor + BlockingRuntime), graphql under asyncio.run with plain and with coroutine resolvers, graphql on a
reused loop (run_until_complete), ThreadPoolRuntime.  The oracle is the response format of the property
text, checked structurally on every result (see check_result).
"""
import json
import math
import itertools
import re

from mc.gen import values as V

READY = True
LEVEL = "fault_enumeration"
TECHNIQUE = "exhaustive enumeration of failure points (every truncation offset / substitution of the request text, every payload kind, every resolver fault placement and return value) x executor configurations, structural response-format oracle"
LEVEL_TEXT = (
    "Every failure point of the request pipeline inside the bounds is enumerated (all prefixes of every seed document, "
    "every fault at every executed field, every listed payload and return value) and the real entry points are run on "
    "each under every executor/runtime configuration; each result is checked against the response format the property "
    "states (strict JSON, message, line/column inside the text, path addressing data, extensions, data omitted, "
    "null <-> error multiset). Exhaustive over the stated fault space; schedules are C08's subject."
)
LEVEL_NOTE = (
    "The stage of a request (parse / validate / operation / variables / execute) is determined with the library's own "
    "parse, validate_ast, get_operation and coerce_variable_values, which are trusted only for that label. Expected "
    "error paths come from a log written by the instrumented resolvers of the check's own schema."
)
DESIGN_REF = "DESIGN.md section 6, C10"
RULE = (
    "cases = (seed document, prefix length) for every prefix; (seed, offset, substitute character); deletions and insertions at every offset in thorough; "
    "(document, variables payload); (document, operation name); (document, executed field, fault), (document, field name, fault at every occurrence) and fault pairs; "
    "(leaf field, return value); each run under the listed configurations; evaluation = one entry-point call whose "
    "result is checked; non-trivial = distinct (text, variables, operation name, fault plan) whose request got past "
    "the first token (the error is not at offset 0 of an empty/garbage text) or reached validation / execution"
)
ASSUMPTIONS = [
    "a resolver that returns a value its scalar cannot serialise (or raises something other than ResolverError) may make the entry point raise: the library documents that such exceptions bubble up; only a *returned* result has to be well-formed",
    "for operation-selection and variable-coercion failures both an absent and a null data entry are admitted (the property text only demands omission for parse / validation failures)",
    "line terminators are LF, CR and CRLF (GraphQL 2.1.4) when deciding whether a location lies inside the submitted text",
    "json.dumps with its default ensure_ascii=True is the serialiser (lone surrogates from \\uD800-style escapes are representable)",
]
BOUNDS = {
    "quick": {"seeds": "all", "prefixes": "all", "substitutions": "12 characters x every offset", "deletions_insertions": "none", "fault_pairs": False, "text_edit_configs": "blocking + asyncio"},
    "thorough": {"seeds": "all", "prefixes": "all", "substitutions": "12 characters x every offset", "deletions_insertions": "every offset (x 12 characters)", "fault_pairs": True, "text_edit_configs": "all 6"},
}
TIME_CAP = {"quick": 300, "thorough": 1500}

# ------------------------------------------------------------------------------------------
# schema under test

SDL = """
type Query {
  a: Int
  f: Float
  s: String
  b: Boolean
  id: ID
  e: E
  nn: Int!
  obj: Obj
  nnobj: Obj!
  objs: [Obj!]
  items: [Int!]!
  nitems: [Int]
  echo(x: Int, s: String, in: In): String
  sink(f: Float, id: ID, e: E, l: [Int!], li: [In!], ll: [[Int!]]): String
}
type Obj { a: Int, nn: Int!, s: String, child: Obj, items: [Int!]!, nitems: [Int] }
input In { a: Int = 1, b: String!, c: [Int!], sub: In }
enum E { A B }
type Mutation { m(x: Int): Int, n: Int! }
type Subscription { tick: Int }
"""

FIELD_TYPES = {}
for _t, _body in re.findall(r"type (\w+) \{(.*?)\}", SDL, re.S):
    for _n, _ty in re.findall(r"(\w+)(?:\([^)]*\))?: ([\[\]\w!]+)", _body):
        FIELD_TYPES[(_t, _n)] = _ty

NATURAL = {"tick": 1, "a": 1, "f": 1.5, "s": "str", "b": True, "id": "id1", "e": "A", "nn": 7, "m": 3, "n": 4}
EXT = {"code": 42, "nested": {"k": [1, "x", None]}}

# extensions with falsy values of every JSON kind, alone and mixed with truthy ones
EXTV = [
    {"code": 0},
    {"ratio": 0.0},
    {"retry": False},
    {"hint": ""},
    {"list": []},
    {"obj": {}},
    {"none": None},
    {"code": 0, "retry": False, "hint": ""},
    {"code": 0, "ok": True, "hint": "", "msg": "m", "list": [], "none": None, "nested": {"k": 0, "e": []}, "n": 7},
]

RETURNS = {
    "float": 1.5,
    "nan": float("nan"),
    "inf": float("inf"),
    "-inf": float("-inf"),
    "huge": 10 ** 400,
    "bytes": b"\xff\x00ab",
    "set": {1},
    # non-finite numbers that are NOT float instances (what float() accepts): numeric strings, decimals
    "str-nan": "nan",
    "str-neg-inf": "-Infinity",
    "str-overflow": "1e999",
    "str-number": "2.5",
    "decimal-nan": __import__("decimal").Decimal("NaN"),
    "decimal-inf": __import__("decimal").Decimal("Infinity"),
    "decimal": __import__("decimal").Decimal("2.5"),
    "bool": True,
}


def _behave(ctx, info, args):
    from py_gql.exc import ResolverError

    path = list(info.path)
    key = ".".join(str(p) for p in path)
    name = info.field_definition.name
    ftype = FIELD_TYPES.get((info.parent_type.name, name), "?")
    fault = ctx["plan"].get(key) or ctx["plan"].get("*." + name)
    log = ctx["log"]
    # (the same message everywhere: errors must not be told apart by their text)
    if fault == "err":
        log.append([path, ftype, "raised", None])
        raise ResolverError("boom")
    if fault == "err-ext":
        log.append([path, ftype, "raised", "ext"])
        raise ResolverError("boom", extensions=EXT)
    if fault == "err-sub":
        # "Subclass or raise this exception directly"
        class CustomError(ResolverError):
            pass

        log.append([path, ftype, "raised", "ext"])
        raise CustomError("boom", extensions=EXT)
    if isinstance(fault, str) and fault.startswith("err-ext-"):
        # resolver-supplied extensions that are a Mapping but not a plain dict
        import collections
        import collections.abc
        import types

        class CustomMapping(collections.abc.Mapping):
            def __init__(self, d):
                self._d = d

            def __getitem__(self, k):
                return self._d[k]

            def __iter__(self):
                return iter(self._d)

            def __len__(self):
                return len(self._d)

        ext = {
            "err-ext-proxy": lambda: types.MappingProxyType(dict(EXT)),
            "err-ext-chain": lambda: collections.ChainMap({"code": EXT["code"]}, {"nested": EXT["nested"]}),
            "err-ext-ordered": lambda: collections.OrderedDict(sorted(EXT.items(), reverse=True)),
            "err-ext-custom": lambda: CustomMapping(dict(EXT)),
            "err-ext-empty": lambda: types.MappingProxyType({}),
        }[fault]()
        log.append([path, ftype, "raised", "ext-empty" if fault == "err-ext-empty" else "ext"])
        raise ResolverError("boom", extensions=ext)
    if isinstance(fault, str) and fault.startswith("err-extv-"):
        k = int(fault.rsplit("-", 1)[1])
        log.append([path, ftype, "raised", ["extv", k]])
        raise ResolverError("boom", extensions=dict(EXTV[k]))
    if fault in ("err-msg-empty", "err-msg-space"):
        # "each error has a string message" -- also when the resolver's message is empty
        log.append([path, ftype, "raised", None])
        raise ResolverError("" if fault == "err-msg-empty" else "  ")
    if fault == "err-path":
        # an error that already carries a (foreign) path: the field's path must win
        log.append([path, ftype, "raised", None])
        raise ResolverError("boom", path=["elsewhere", 0])
    if fault == "err-nodes":
        # an error that already carries (foreign) nodes: only its path is checked (the library keeps
        # user-supplied nodes, so the location is the user's business)
        log.append([path, ftype, "raised", "foreign-nodes"])
        raise ResolverError("boom", nodes=[info._context.document.definitions[0]])
    if fault == "err-reraise":
        # raised by a delegated sub-request with its own path, caught and re-raised by this resolver
        log.append([path, ftype, "raised", None])
        try:
            raise ResolverError("boom", path=["delegated", "q", 1])
        except ResolverError:
            raise
    if fault == "err-shared":
        # ONE exception instance raised by every field that has this fault
        log.append([path, ftype, "raised", None])
        raise ctx.setdefault("shared_error", ResolverError("boom"))
    if fault == "null":
        log.append([path, ftype, "null", None])
        return None
    if isinstance(fault, list) and fault[0] == "ret":
        log.append([path, ftype, "ret", fault[1]])
        v = RETURNS[fault[1]]
        if ftype.startswith("["):
            return [v]
        return v
    if ftype.startswith("["):
        if fault == "null-item":
            log.append([path, ftype, "null-item", None])
            return [{}, None] if "Obj" in ftype else [1, None, 3]
        log.append([path, ftype, "ok", None])
        return [{}, {}] if "Obj" in ftype else [1, 2, 3]
    log.append([path, ftype, "ok", None])
    if "Obj" in ftype:
        return {}
    if name in ("echo", "sink"):
        return json.dumps(args, sort_keys=True, default=repr)
    if name == "m":
        return args.get("x", 0)
    return NATURAL[name]


def _resolve(root, ctx, info, **args):
    return _behave(ctx, info, args)


async def _aresolve(root, ctx, info, **args):
    return _behave(ctx, info, args)


_SCHEMAS = {}


def _schema(kind="sync"):
    if kind not in _SCHEMAS:
        from py_gql import build_schema

        s = build_schema(SDL)
        fn = _resolve if kind == "sync" else _aresolve
        for (t, n) in FIELD_TYPES:
            s.register_resolver(t, n, fn)
        s.validate()
        _SCHEMAS[kind] = s
    return _SCHEMAS[kind]


# ------------------------------------------------------------------------------------------
# configurations

CONFIGS = ("blocking", "default", "asyncio", "asyncio-coroutines", "asyncio-loop", "threadpool")
# per process: the runner replays known findings in the parent before forking its workers, and a
# thread pool / event loop created there must not be used by the forked children
_LOOP = {}
_POOL = {}


def origin(exc):
    """innermost py_gql function on the traceback (generic Schema lookups skipped): where it came from"""
    import traceback

    frames = [
        f
        for f in traceback.extract_tb(exc.__traceback__)
        if "/py_gql/" in f.filename and not f.filename.endswith("schema/schema.py")
    ]
    if not frames:
        return "?"
    f = frames[-1]
    return "%s.%s" % ("/".join(f.filename[:-3].split("/")[-2:]), f.name)


class Raised(object):
    def __init__(self, exc):
        self.exc = exc
        self.origin = origin(exc)


def run_config(config, text, variables, opname, plan, as_document=False):
    """-> (result | Raised, log)"""
    import asyncio

    from py_gql import graphql, graphql_blocking, process_graphql_query

    import os

    pid = os.getpid()
    ctx = {"plan": plan or {}, "log": []}
    kw = dict(variables=variables, operation_name=opname, context=ctx)
    kind = "async" if config == "asyncio-coroutines" else "sync"
    schema = _schema(kind)
    doc = text
    try:
        if as_document:
            from py_gql.lang import parse

            doc = parse(text)
        if config == "blocking":
            res = graphql_blocking(schema, doc, **kw)
        elif config == "default":
            res = process_graphql_query(schema, doc, **kw)
        elif config in ("asyncio", "asyncio-coroutines"):
            res = asyncio.run(graphql(schema, doc, **kw))
        elif config == "asyncio-loop":
            if pid not in _LOOP:
                _LOOP[pid] = asyncio.new_event_loop()
            asyncio.set_event_loop(_LOOP[pid])
            try:
                res = _LOOP[pid].run_until_complete(graphql(schema, doc, **kw))
            finally:
                asyncio.set_event_loop(None)
        elif config == "threadpool":
            from py_gql.execution.runtime import ThreadPoolRuntime

            if pid not in _POOL:
                _POOL[pid] = ThreadPoolRuntime(max_workers=2)
            fut = process_graphql_query(schema, doc, runtime=_POOL[pid], **kw)
            res = fut.result(timeout=20)
        else:
            raise ValueError(config)
    except Exception as e:  # noqa
        return Raised(e), ctx["log"]
    return res, ctx["log"]


# ------------------------------------------------------------------------------------------
# stage of a request (label only)


def stage_of(text, variables, opname):
    from py_gql.exc import GraphQLSyntaxError, InvalidOperationError, VariablesCoercionError
    from py_gql.execution.get_operation import get_operation_with_type
    from py_gql.lang import parse
    from py_gql.utilities import coerce_variable_values
    from py_gql.validation import validate_ast

    schema = _schema()
    try:
        doc = parse(text)
    except GraphQLSyntaxError:
        return "parse"
    except Exception as e:  # noqa
        return "parse-crash:" + type(e).__name__
    try:
        vr = validate_ast(schema, doc)
    except Exception as e:  # noqa
        return "validate-crash:" + type(e).__name__
    if vr.errors:
        return "validate"
    try:
        op, _ = get_operation_with_type(schema, doc, opname)
    except InvalidOperationError:
        return "operation"
    except Exception as e:  # noqa
        return "operation-crash:" + type(e).__name__
    if op.operation == "subscription":
        # the request/response entry points cannot serve subscriptions: selecting one is an
        # operation-selection failure
        return "operation"
    try:
        coerce_variable_values(schema, op, variables or {})
    except VariablesCoercionError:
        return "variables"
    except Exception as e:  # noqa
        return "variables-crash:" + type(e).__name__
    return "execute"


# ------------------------------------------------------------------------------------------
# the oracle

UNLOCATED_VALIDATION_KINDS = ("Duplicate operation ", "Subscription ", "Unused fragment(s) ")
LINE_TERMINATOR = re.compile(r"\r\n|\n|\r")


def _is_int(v):
    return isinstance(v, int) and not isinstance(v, bool)


def _norm(o):
    if isinstance(o, dict):
        return {k: _norm(v) for k, v in o.items()}
    if isinstance(o, (list, tuple)):
        return [_norm(v) for v in o]
    return o


def _typed(o):
    """canonical text that keeps 0 / 0.0 / false / "" / null apart (0 == False in Python)"""
    return json.dumps(_norm(o), sort_keys=True)


def expected_error_paths(log):
    """paths at which the log says an error must be reported, with the log's remark
    (None | "ext": EXT expected | ["extv", k]: EXTV[k] expected | "ext-empty": no or empty extensions |
    "foreign-nodes")"""
    out = []
    for path, ftype, what, extra in log:
        if what == "raised":
            out.append((list(path), extra))
        elif what == "null" and ftype.endswith("!"):
            out.append((list(path), None))
        elif what == "null-item" and "!]" in ftype:
            out.append((list(path) + [1], None))
    return out


def _at(data, path):
    cur = data
    for p in path:
        if isinstance(cur, dict) and isinstance(p, str) and p in cur:
            cur = cur[p]
        elif isinstance(cur, list) and _is_int(p) and 0 <= p < len(cur):
            cur = cur[p]
        else:
            return False, None
    return True, cur


def _offset(text, line, col):
    """offset of a 1-based line/column under the LF | CR | CRLF reading, None when outside"""
    pos = 0
    cur = 1
    for m in LINE_TERMINATOR.finditer(text):
        if cur == line:
            break
        pos = m.end()
        cur += 1
    if cur != line:
        return None
    return pos + col - 1 if pos + col - 1 <= len(text) else None


def check_result(text, stage, res, log, plan):
    """-> list of problem strings (class suffixes) with details: [(problem, detail)]"""
    from py_gql.execution import GraphQLResult

    out = []
    if isinstance(res, Raised):
        e = res.exc
        ret_fault = any(isinstance(f, list) and f[0] == "ret" for f in (plan or {}).values())
        if stage == "execute" and ret_fault:
            return [("~admitted-raise:" + type(e).__name__, repr(e)[:200])]
        return [("raises:%s@%s" % (type(e).__name__, res.origin), repr(e)[:300])]
    if not isinstance(res, GraphQLResult):
        return [("not-a-result:" + type(res).__name__, repr(res)[:200])]
    try:
        resp = res.response()
    except Exception as e:  # noqa
        return [("response-raises:%s@%s" % (type(e).__name__, origin(e)), repr(e)[:300])]
    if not isinstance(resp, dict):
        return [("response-not-dict", repr(resp)[:200])]
    # strict JSON
    try:
        txt = json.dumps(resp, allow_nan=False)
    except Exception as e:  # noqa
        reason = "nan-or-infinity" if isinstance(e, ValueError) else type(e).__name__
        out.append(("not-strict-json:" + reason, "%s: %s" % (type(e).__name__, str(e)[:200])))
        txt = None
    if txt is not None:
        try:
            back = json.loads(txt)
            if json.dumps(back, allow_nan=False) != txt:
                out.append(("json-roundtrip-differs", txt[:200]))
        except Exception as e:  # noqa
            out.append(("json-does-not-load:" + type(e).__name__, txt[:200]))
    extra_keys = set(resp) - {"errors", "data", "extensions"}
    if extra_keys:
        out.append(("unknown-top-level-key", repr(sorted(extra_keys))))
    errors = resp.get("errors")
    if "errors" in resp and (not isinstance(errors, list) or not errors):
        out.append(("errors-empty-or-not-list", repr(errors)[:100]))
        errors = []
    errors = errors or []
    lines = LINE_TERMINATOR.split(text)
    got_paths = []
    for err in errors:
        if not isinstance(err, dict):
            out.append(("error-not-dict", repr(err)[:100]))
            continue
        if not isinstance(err.get("message"), str):
            out.append(("message-missing-or-not-str", repr(err)[:200]))
        bad = set(err) - {"message", "locations", "path", "extensions"}
        if bad:
            out.append(("unknown-error-key", repr(sorted(bad))))
        if "locations" in err:
            locs = err["locations"]
            if not isinstance(locs, list) or not locs:
                out.append(("locations-empty-or-not-list", repr(locs)[:100]))
                locs = []
            for loc in locs:
                if not isinstance(loc, dict):
                    out.append(("location-not-dict", repr(loc)[:100]))
                    continue
                if set(loc) != {"line", "column"}:
                    out.append(("bad-location-key", "location keys %r in %r" % (sorted(loc), err)))
                line = loc.get("line")
                col = loc.get("column")
                if col is None:
                    # misspelt key: still check the position it carries
                    for k in loc:
                        if k.startswith("col"):
                            col = loc[k]
                if not (_is_int(line) and _is_int(col) and line >= 1 and col >= 1):
                    out.append(("location-not-1-based-int", repr(loc)))
                    continue
                if line > len(lines) or col > len(lines[line - 1]) + 1:
                    out.append(
                        (
                            "location-out-of-text",
                            "location %r but the text has %d line(s)%s; text %r"
                            % (loc, len(lines), (", line %d has %d characters" % (line, len(lines[line - 1]))) if line <= len(lines) else "", text[:120]),
                        )
                    )
        if "path" in err:
            p = err["path"]
            if not isinstance(p, list) or not p or not all(isinstance(x, str) or _is_int(x) for x in p):
                out.append(("path-not-list-of-str-int", repr(p)[:100]))
            else:
                got_paths.append((p, err))
    # locations present: every field error, and every validation error of a kind the tree reports with
    # locations (baseline of the pinned tree: these three kinds come without any, at every offset)
    if stage == "validate":
        for err in errors:
            if isinstance(err, dict) and not err.get("locations") and not str(err.get("message")).startswith(UNLOCATED_VALIDATION_KINDS):
                out.append(("validation-error-without-location", repr(err)[:300]))
    if stage == "execute":
        # (errors raised with user-supplied nodes: their location is the user's business)
        user_nodes = {json.dumps(p) for p, extra in expected_error_paths(log) if extra == "foreign-nodes"}
        for err in errors:
            if isinstance(err, dict) and err.get("path") and not err.get("locations") and json.dumps(err.get("path")) not in user_nodes:
                out.append(("field-error-without-location", repr(err)[:300]))
    # data presence
    if stage in ("parse", "validate"):
        if "data" in resp:
            out.append(("data-present", "data=%r" % (resp["data"],)))
        if not errors:
            out.append(("no-error-reported", repr(resp)[:200]))
        if log:
            out.append(("resolver-ran", repr(log)[:200]))
    elif stage in ("operation", "variables"):
        if stage == "variables":
            # every variable error is located at the definition of its variable in the submitted text
            for err in errors:
                if not isinstance(err, dict):
                    continue
                locs = err.get("locations")
                if not isinstance(locs, list) or not locs:
                    out.append(("variable-error-without-location", repr(err)[:300]))
                    continue
                mm = re.search(r'Variable "\$([_A-Za-z][_0-9A-Za-z]*)"', str(err.get("message")))
                # `$` and the name are two tokens: ignored characters / comments may stand between them
                want = r"\$(?:[\s,\ufeff]|#[^\n\r]*)*" + (re.escape(mm.group(1)) + r"(?![_0-9A-Za-z])" if mm else "")
                for loc in locs:
                    if isinstance(loc, dict) and _is_int(loc.get("line")) and _is_int(loc.get("column")):
                        off = _offset(text, loc["line"], loc["column"])
                        if off is not None and not re.match(want, text[off:]):
                            out.append(("variable-error-not-at-definition", "error %r points at %r" % (err, text[off : off + 12])))
        if not errors:
            out.append(("no-error-reported", repr(resp)[:200]))
        if log:
            out.append(("resolver-ran", repr(log)[:200]))
        if "data" in resp and resp["data"] is not None:
            out.append(("data-present", "data=%r" % (resp["data"],)))
    elif stage == "execute":
        if "data" not in resp:
            out.append(("data-missing", repr(resp)[:200]))
        else:
            data = _norm(resp["data"])
            exp = expected_error_paths(log)
            exp_keys = sorted(json.dumps(p) for p, _ in exp)
            got_keys = sorted(json.dumps(p) for p, _ in got_paths)
            if exp_keys != got_keys:
                missing = [k for k in exp_keys if k not in got_keys]
                extra = [k for k in got_keys if k not in exp_keys]
                if missing:
                    out.append(("null-without-error", "expected error paths %s, reported %s" % (exp_keys, got_keys)))
                elif extra:
                    out.append(("error-without-fault", "expected error paths %s, reported %s" % (exp_keys, got_keys)))
                else:
                    out.append(("error-multiplicity", "expected error paths %s, reported %s" % (exp_keys, got_keys)))
            foreign = {json.dumps(p) for p, extra in exp if extra == "foreign-nodes"}
            for p, err in got_paths:
                # a field error is located at the field it is about: the text at the reported
                # position starts with the response key (alias or field name) of the path
                key = [x for x in p if isinstance(x, str)][-1]
                for loc in [] if json.dumps(p) in foreign else (err.get("locations") or []):
                    if isinstance(loc, dict) and _is_int(loc.get("line")) and _is_int(loc.get("column")):
                        off = _offset(text, loc["line"], loc["column"])
                        if off is not None and not re.match(re.escape(key) + r"(?![_0-9A-Za-z])", text[off:]):
                            out.append(("location-not-at-field", "path %r location %r points at %r" % (p, loc, text[off : off + 12])))
                ok, val = _at(data, p)
                if not ok:
                    out.append(("path-not-in-data", "path %r data %r" % (p, data)))
                elif val is not None:
                    out.append(("error-path-not-null", "path %r holds %r" % (p, val)))
            for p, ext in exp:
                for q, err in got_paths:
                    if q == p:
                        got_ext = err.get("extensions")
                        if ext == "ext" and not (isinstance(got_ext, dict) and _norm(got_ext) == _norm(EXT)):
                            out.append(("extensions-not-passed-through", repr(err)[:200]))
                        elif isinstance(ext, list) and ext[0] == "extv" and not (
                            isinstance(got_ext, dict) and _typed(got_ext) == _typed(EXTV[ext[1]])
                        ):
                            out.append(("extensions-not-passed-through", "supplied %r, response has %r" % (EXTV[ext[1]], got_ext)))
                        elif ext == "ext-empty" and not ("extensions" not in err or got_ext == {}):
                            out.append(("extensions-not-passed-through", "empty mapping became %r" % (got_ext,)))
                        elif ext in (None, "foreign-nodes") and "extensions" in err:
                            out.append(("extensions-invented", repr(err)[:200]))
            if errors and not got_paths and not exp:
                out.append(("execution-error-without-path", repr(errors)[:200]))
    return out


class Loc2(object):
    def __init__(self, message, line, col, path):
        self.d = {"message": message, "locations": [{"line": line, "column": col}], "path": path}

    def to_dict(self):
        return self.d


def selftest():
    import collections

    from py_gql.exc import ResolverError
    from py_gql.execution import GraphQLResult

    def probs(text, stage, res, log=(), plan=None):
        return sorted(p for p, _ in check_result(text, stage, res, list(log), plan))

    assert FIELD_TYPES[("Query", "echo")] == "String" and FIELD_TYPES[("Obj", "items")] == "[Int!]!" and FIELD_TYPES[("Mutation", "n")] == "Int!"
    ok = GraphQLResult(data={"a": 1})
    assert probs("{ a }", "execute", ok, [[["a"], "Int", "ok", None]]) == []
    assert probs("{ a }", "execute", GraphQLResult(data={"f": float("nan")})) == ["not-strict-json:nan-or-infinity"]
    # (stub errors: the self-test must not depend on the library's own to_dict)
    def stub(**extra):
        o = Loc2("x", 1, 3, ["a"])
        o.d.update(extra)
        return o

    e = stub()
    assert probs("{ a }", "execute", GraphQLResult(data={"a": None}, errors=[e]), [[["a"], "Int", "raised", None]]) == []
    assert probs("{ a }", "execute", GraphQLResult(data={"a": None}, errors=[e]), [[["a"], "Int", "ok", None]]) == ["error-without-fault"]
    assert probs("{ a }", "execute", GraphQLResult(data={"a": None}), [[["a"], "Int!", "null", None]]) == ["null-without-error"]
    assert probs("{ a }", "execute", GraphQLResult(data={"a": 1}, errors=[e]), [[["a"], "Int", "raised", None]]) == ["error-path-not-null"]
    assert probs("{ a }", "execute", GraphQLResult(data={"b": None}, errors=[e]), [[["a"], "Int", "raised", None]]) == ["path-not-in-data"]
    assert probs("{ a }", "execute", GraphQLResult(data={"a": None}, errors=[e]), [[["a"], "Int", "raised", "ext"]]) == ["extensions-not-passed-through"]
    assert probs("{ a }", "validate", GraphQLResult(data=None, errors=[e])) == ["data-present"]
    import types as _types

    ee = stub(extensions=dict(EXT))
    assert probs("{ a }", "execute", GraphQLResult(data={"a": None}, errors=[ee]), [[["a"], "Int", "raised", "ext"]]) == []
    assert probs("{ a }", "execute", GraphQLResult(data={"a": None}, errors=[ee]), [[["a"], "Int", "raised", "ext-empty"]]) == ["extensions-not-passed-through"]
    assert probs("{ a }", "execute", GraphQLResult(data={"a": None}, errors=[e]), [[["a"], "Int", "raised", "ext-empty"]]) == []
    ev = stub(extensions={"retry": 0})
    assert probs("{ a }", "execute", GraphQLResult(data={"a": None}, errors=[ev]), [[["a"], "Int", "raised", ["extv", 2]]]) == ["extensions-not-passed-through"]
    ev = stub(extensions={"retry": False})
    assert probs("{ a }", "execute", GraphQLResult(data={"a": None}, errors=[ev]), [[["a"], "Int", "raised", ["extv", 2]]]) == []
    assert probs("{ a }", "execute", GraphQLResult(data={"a": None}, errors=[e]), [[["a"], "Int", "raised", ["extv", 0]]]) == ["extensions-not-passed-through"]
    noloc = Loc2("The anonymous operation must be the only defined operation.", 1, 1, None)
    del noloc.d["path"], noloc.d["locations"]
    assert probs("{ a } { s }", "validate", GraphQLResult(errors=[noloc])) == ["validation-error-without-location"]
    noloc.d["message"] = 'Unused fragment(s) "F"'
    assert probs("{ a } { s }", "validate", GraphQLResult(errors=[noloc])) == []
    fe = Loc2("x", 1, 3, ["a"])
    del fe.d["locations"]
    assert probs("{ a }", "execute", GraphQLResult(data={"a": None}, errors=[fe]), [[["a"], "Int", "raised", None]]) == ["field-error-without-location"]
    vtext = "query(\n  $x: Int!) { a }"
    def verr(**kw):
        o = Loc2('Variable "$x" got invalid value', 1, 1, None)
        del o.d["path"], o.d["locations"]
        o.d.update(kw)
        return o

    assert probs(vtext, "variables", GraphQLResult(data=None, errors=[verr(locations=[{"line": 2, "column": 3}])])) == []
    assert probs(vtext, "variables", GraphQLResult(data=None, errors=[verr()])) == ["variable-error-without-location"]
    assert probs("query($\n x: Int!) { a }", "variables", GraphQLResult(data=None, errors=[verr(locations=[{"line": 1, "column": 7}])])) == []
    assert probs("query($ #c\n x: Int!) { a }", "variables", GraphQLResult(data=None, errors=[verr(locations=[{"line": 1, "column": 7}])])) == []
    assert probs("query($y: Int!) { a }", "variables", GraphQLResult(data=None, errors=[verr(locations=[{"line": 1, "column": 7}])])) == ["variable-error-not-at-definition"]
    assert probs(vtext, "variables", GraphQLResult(data=None, errors=[verr(locations=[{"line": 1, "column": 1}])])) == ["variable-error-not-at-definition"]
    nomsg = Loc2("m", 1, 3, ["a"])
    del nomsg.d["message"]
    assert probs("{ a }", "execute", GraphQLResult(data={"a": None}, errors=[nomsg]), [[["a"], "Int", "raised", None]]) == ["message-missing-or-not-str"]
    nomsg.d["message"] = ""
    assert probs("{ a }", "execute", GraphQLResult(data={"a": None}, errors=[nomsg]), [[["a"], "Int", "raised", None]]) == []
    lp = Loc2("m", 1, 3, ["a"])
    lp.d["extensions"] = _types.MappingProxyType(dict(EXT))
    assert "not-strict-json:TypeError" in probs("{ a }", "execute", GraphQLResult(data={"a": None}, errors=[lp]), [[["a"], "Int", "raised", "ext"]])
    assert probs("{ a b }", "execute", GraphQLResult(data={"a": None, "b": None}, errors=[Loc2("m", 1, 5, ["b"]), Loc2("m", 1, 5, ["b"])]), [[["a"], "Int", "raised", None], [["b"], "Int", "raised", None]]) == ["null-without-error"]
    assert probs("{ a }", "execute", GraphQLResult(data={"a": None}, errors=[Loc2("m", 1, 1, ["a"])]), [[["a"], "Int", "raised", "foreign-nodes"]]) == []
    assert probs("{ a }", "execute", GraphQLResult(data={"a": None}, errors=[Loc2("m", 1, 1, ["a"])]), [[["a"], "Int", "raised", None]]) == ["location-not-at-field"]
    assert _offset("ab\ncd\r\nef\rgh", 2, 1) == 3 and _offset("ab\ncd\r\nef\rgh", 3, 2) == 8 and _offset("ab\ncd\r\nef\rgh", 4, 1) == 10
    assert _offset("ab", 2, 1) is None and _offset("ab", 1, 3) == 2 and _offset("ab", 1, 4) is None
    at = lambda line, col: Loc2("m", line, col, ["obj", "nn"])  # noqa
    assert probs("{ obj { nn } }", "execute", GraphQLResult(data={"obj": {"nn": None}}, errors=[at(1, 9)]), [[["obj", "nn"], "Int!", "null", None]]) == []
    assert probs("{ obj { nn } }", "execute", GraphQLResult(data={"obj": {"nn": None}}, errors=[at(1, 11)]), [[["obj", "nn"], "Int!", "null", None]]) == ["location-not-at-field"]
    assert probs("{ obj { nnx } }", "execute", GraphQLResult(data={"obj": {"nn": None}}, errors=[at(1, 9)]), [[["obj", "nn"], "Int!", "null", None]]) == ["location-not-at-field"]
    assert probs("{ a }", "parse", GraphQLResult(errors=[])) == ["no-error-reported"]

    class Loc(object):
        def __init__(self, d):
            self.d = d

        def to_dict(self):
            return self.d

    assert probs("{\n a }", "parse", GraphQLResult(errors=[Loc({"message": "m", "locations": [{"line": 2, "column": 5}]})])) == []
    assert probs("{\n a }", "parse", GraphQLResult(errors=[Loc({"message": "m", "locations": [{"line": 2, "column": 6}]})])) == ["location-out-of-text"]
    assert probs("{\r a }", "parse", GraphQLResult(errors=[Loc({"message": "m", "locations": [{"line": 1, "column": 4}]})])) == ["location-out-of-text"]
    assert probs("{ a }", "parse", GraphQLResult(errors=[Loc({"message": "m", "locations": [{"line": 1, "columne": 1}]})])) == ["bad-location-key"]
    assert probs("{ a }", "parse", GraphQLResult(errors=[Loc({"message": 3})])) == ["message-missing-or-not-str"]
    assert probs("{ a }", "parse", GraphQLResult(errors=[Loc({"message": "m", "locations": [{"line": 0, "column": 1}]})])) == ["location-not-1-based-int"]
    assert probs("{ a }", "execute", Raised(KeyError("x"))) == ["raises:KeyError@?"]
    assert probs("{ a }", "execute", Raised(RuntimeError("x")), plan={"a": ["ret", "nan"]}) == ["~admitted-raise:RuntimeError"]
    assert len(SEEDS) >= 40 and len(set(SEEDS)) == len(SEEDS)
    assert collections.Counter(stage_of(s, None, None) for s in SEEDS)["execute"] >= 15


# ------------------------------------------------------------------------------------------
# seed documents

ESC = '{ echo(s: "esc \\" \\\\ \\/ \\b \\f \\n \\r \\t \\u00e9 \\uD83D\\uDE00 \\u0041 end") }'
BLOCK = '{ echo(s: """block\n    "quoted" \\""" \\ back\n  second\n""") }'

SEEDS = [
    # valid
    "{ a }",
    "{ a f s b id e nn }",
    "query Q { obj { a nn child { a s } items } }",
    "query Q($x: Int = 3, $s: String) { echo(x: $x, s: $s) }",
    ESC,
    BLOCK,
    '{ echo(s: "é\U0001F600  raw") } # é comment',
    "query { ...F }\nfragment F on Query { obj { ...G } }\nfragment G on Obj { a nn }",
    "query A { a }\nquery B { s }\nmutation M { m(x: 1) n }",
    "query ($c: Boolean!) { a @skip(if: $c) s @include(if: $c) }",
    '{ __typename __schema { queryType { name } } __type(name: "Obj") { fields { name } } }',
    '{ echo(in: {a: 1, b: "x"}) }',
    "{ x: a y: a nnobj { nn } objs { a nn } }",
    "mutation { m(x: 2) n }",
    "{ items nitems obj { items nitems } }",
    "{ echo(x: 2147483646, s: \"\") f }",
    "{\n  obj {\n    child {\n      child { a }\n    }\n  }\n}\n",
    "query($s: String!) { echo(in: {b: $s}) }",
    "{,a,,,s,}",
    "{\ta\t}\t",
    "﻿{ a }",
    "{ a ... on Query { s ... { b } } }",
    # invalid against the schema
    "{ zzz }",
    "{ obj }",
    "{ a { b } }",
    '{ echo(x: "str") }',
    "{ echo(nope: 1) }",
    "query ($x: Nope) { a }",
    "{ ...Missing }",
    "fragment F on Query { a }",
    "query A { a } query A { s }",
    "{ a } { s }",
    "query ($x: Int!) { echo(x: $x) }",
    "type T { a: Int }\n{ a }",
    "# comment\n{\n  obj {\n    zzz\n  }\n}",
    "subscription { a }",
    "{ echo(x: 1.5e3) }",
    "{ a @nope }",
    "subscription { tick }",
    "query Q { a }\nsubscription S { tick }",
    # line terminators: the error is on the 3rd line
    "{\r  a\r  zzz\r}",
    "{\r\n  a\r\n  zzz\r\n}",
    "{\n  a\n  zzz\n}",
    "{ a\r\n\r\n  obj { nn zzz }\r}\r",
    # syntax errors in the full text
    '{ echo(s: "abc\ndef") }',
    '{ echo(s: "\\x") }',
    "{ a ",
    "",
    " \n",
    "{ a } }",
    '{ echo(s: "\\uZZZZ") }',
    "query ($x: [Int!]! = [1, 2]) { echo(x: 1) }",
]

# the error node is the document / the first operation / the first fragment, all at offset 0
SHIFT_DOCS = [
    "{ a } { s }",
    "{ a } query B { s }",
    "query A { a } query A { s }",
    "query ($v: Int) { a }",
    "query Q($v: Int, $w: Int) { a }",
    "query @nope { a }",
    "query Q @skip(if: true) { a }",
    "mutation @nope { n }",
    "fragment F on Query { ...G } fragment G on Query { ...F } { a }",
    "fragment F on Query { ...F } { a }",
    "fragment F on Query { a } { a }",
    "fragment F on Query { a } fragment F on Query { s } { ...F }",
    "fragment F on Nope { a } { ...F }",
    "fragment F on Int { a } { a }",
    "zzz: nn",
    "query { zzz }",
    "subscription { tick a }",
    "subscription S { tick } query Q { a }",
    "type T { a: Int } { a }",
    "{ zzz }",
    "nn",
]

SUBST = ['"', "\\", "{", "}", "(", "$", "\n", "\r", "u", "0", "é", "#"]

VALID_FOR_FAULTS = [
    "{ a f s b id e nn }",
    "query Q { obj { a nn child { a s } items } }",
    "{ x: a y: a nnobj { nn } objs { a nn } }",
    "mutation { m(x: 2) n }",
    "{ items nitems obj { items nitems } }",
    "query { ...F }\nfragment F on Query { obj { ...G } }\nfragment G on Obj { a nn }",
    "{\r  nn\r  obj {\r\n nn }\r}",
    # one response key selected more than once (merged field nodes): directly, under an alias, through a
    # fragment spread, through an inline fragment, under duplicated parents, inside lists, in a mutation
    "{ nn a nn s a }",
    "{ x: nn x: nn y: a y: a }",
    "{ nn ...F a }\nfragment F on Query { nn a s }",
    "{ nn ... on Query { nn a } ... { nn } }",
    "{ obj { nn a } obj { nn s child { nn } } obj { child { nn a } } }",
    "{ objs { nn } objs { nn a } items items nitems ... { nitems } }",
    "mutation { n m(x: 1) n m(x: 1) }",
    "{ nnobj { items nn } ...G nnobj { items } }\nfragment G on Query { nnobj { nn ... on Obj { nn items } } }",
]
MAX_PATHS = 16
SINGLE_FAULTS = (
    "err", "err-ext", "err-ext-proxy", "err-ext-chain", "err-ext-ordered", "err-ext-custom", "err-ext-empty",
    "err-sub", "err-path", "err-nodes", "err-reraise", "err-msg-empty", "err-msg-space", "null", "null-item",
) + tuple("err-extv-%d" % k for k in range(len(EXTV)))

VAR_DOCS = [
    ("query Q($x: Int = 3, $s: String) { echo(x: $x, s: $s) }", ["x", "s"]),
    ("query ($c: Boolean!) { a @skip(if: $c) s @include(if: $c) }", ["c"]),
    ("query($s: String!) { echo(in: {b: $s}) }", ["s"]),
    ("query($i: In, $l: [Int!]) { echo(in: $i) nn sink(l: $l) }", ["i", "l"]),
    ("query($f: Float, $id: ID, $e: E) { a sink(f: $f, id: $id, e: $e) }", ["f", "id", "e"]),
    ("query(\n  $li: [In!]\n  $ll: [[Int!]]\n) { nn\n  sink(li: $li, ll: $ll) }", ["li", "ll"]),
]

# variable values with exactly two / three independent invalid parts (and one, for comparison)
MULTI_INVALID = {
    "i": [
        {"a": "abc", "b": "x"},
        {"a": "abc", "b": {"k": 1}},
        {"a": "abc"},
        {"a": "abc", "b": {"k": 1}, "c": [1, "zz"]},
        {"b": "x", "c": [1, "zz"], "sub": {"a": True, "b": "y"}},
        {"b": "x", "c": ["zz", None]},
        {"b": "x", "zz": 1, "a": "abc"},
        {"b": "x", "sub": {"a": "abc", "b": [1]}},
    ],
    "l": [[1, "abc"], [1, "abc", None], ["abc", None, {}], [[1], [2]]],
    "li": [[{"b": "x"}, {"a": "abc", "b": "y"}], [{"a": "abc", "b": "x"}, {"b": {}}], [{"b": 1.5}, None, {"a": "abc", "b": {"k": 1}}], [{"b": "x", "c": ["zz", "yy"]}]],
    "ll": [[[1, "abc"]], [[1, "abc"], ["zz"]], [["abc", None], [None]]],
}

OPNAME_DOCS = [
    "query A { a }\nquery B { s }\nmutation M { m(x: 1) n }",
    "query A { a }",
    "{ a }",
    "query A { a } query A { s }",
    "fragment F on Query { a }",
    "query A { zzz }\nquery B { s }",
    "query Q { a }\nsubscription S { tick }",
]
OPNAMES = [None, "A", "B", "M", "Nope", "", "F", "S", "Q"]

LEAVES = [("a", "{ a }"), ("f", "{ f }"), ("s", "{ s }"), ("b", "{ b }"), ("id", "{ id }"), ("e", "{ e }"), ("nn", "{ nn }"), ("items", "{ items }"), ("nitems", "{ nitems }"), ("obj.nn", "{ obj { nn } }")]


def _payload_values():
    seen = []
    for base in ("Int", "Float", "String", "Boolean", "ID", "E"):
        for v in V.ALPHABET[base]:
            if not any(type(v) is type(w) and v == w for w in seen):
                seen.append(v)
    seen += [[1, None], [[1]], {"b": "x"}, {"a": None, "b": "x"}, {"b": "x", "zz": 1}, {}, [], "\ud800", "\U0001F600", 10 ** 400]
    return seen


def cases(tier):
    for i, seed in enumerate(SEEDS):
        yield {"k": "text", "text": seed, "why": "seed"}
    # every truncation point
    for n in range(0, max(len(s) for s in SEEDS)):
        for seed in SEEDS:
            if n < len(seed):
                yield {"k": "text", "text": seed[:n], "why": "prefix"}
    for doc in OPNAME_DOCS:
        for name in OPNAMES:
            yield {"k": "opname", "text": doc, "opname": name}
    for doc, names in VAR_DOCS:
        for shape in ("none", "empty", "extra"):
            yield {"k": "vars", "text": doc, "variables": None if shape == "none" else {} if shape == "empty" else {"unused": [1, {"k": None}]}}
        for name in names:
            for v in _payload_values() + MULTI_INVALID.get(name, []):
                yield {"k": "vars", "text": doc, "variables": {name: v}}
        if len(names) > 1 and all(n in MULTI_INVALID for n in names):
            # every variable invalid at once (each with several invalid parts)
            yield {"k": "vars", "text": doc, "variables": {n: MULTI_INVALID[n][1] for n in names}}
    for doc in VALID_FOR_FAULTS:
        for k in range(MAX_PATHS):
            for fault in SINGLE_FAULTS:
                yield {"k": "fault", "text": doc, "at": [k], "faults": [fault]}
        for name in sorted({n for (_, n) in FIELD_TYPES}):
            if re.search(r"\b%s\b" % name, doc):
                for fault in ("err", "err-sub", "err-shared", "err-path", "null", "null-item"):
                    yield {"k": "fault-all", "text": doc, "name": name, "fault": fault}
    # ONE exception instance raised by two fields with ANOTHER failure registered in between (shared, other, shared)
    for doc in VALID_FOR_FAULTS:
        for k1, k2, k3 in itertools.combinations(range(7), 3):
            for mid in ("err", "null-item"):
                yield {"k": "fault", "text": doc, "at": [k1, k2, k3], "faults": ["err-shared", mid, "err-shared"]}
    for leaf, doc in LEAVES:
        for r in sorted(RETURNS):
            yield {"k": "ret", "text": doc, "leaf": leaf, "ret": r}
    for seed in SEEDS:
        yield {"k": "document", "text": seed}
    # errors located at the very first character: a document and the same document shifted by one
    # leading space / line terminator report the same errors with consistently shifted locations
    for doc in SHIFT_DOCS + SEEDS + VALID_FOR_FAULTS:
        if doc and doc == doc.lstrip(" \t\r\n,\ufeff"):
            for plan in ({}, {"*.nn": "null"}, {"*.a": "err"}):
                for prefix in (" ", "\n", "\r\n"):
                    yield {"k": "shift", "text": doc, "prefix": prefix, "plan": plan}
    for seed in SEEDS:
        for off in range(len(seed)):
            for ch in SUBST:
                if seed[off] != ch:
                    c = {"k": "text", "text": seed[:off] + ch + seed[off + 1 :], "why": "subst"}
                    if tier == "thorough":
                        c["all_configs"] = True
                    yield c
    if tier == "thorough":
        for seed in SEEDS:
            for off in range(len(seed)):
                yield {"k": "text", "text": seed[:off] + seed[off + 1 :], "why": "delete", "all_configs": True}
                for ch in SUBST:
                    yield {"k": "text", "text": seed[:off] + ch + seed[off:], "why": "insert", "all_configs": True}
        for doc in VALID_FOR_FAULTS:
            for k1 in range(MAX_PATHS):
                for k2 in range(k1 + 1, MAX_PATHS):
                    for f1 in ("err", "err-ext", "err-shared", "null", "null-item"):
                        for f2 in ("err", "err-shared", "err-path", "null", "null-item"):
                            yield {"k": "fault", "text": doc, "at": [k1, k2], "faults": [f1, f2]}


# ------------------------------------------------------------------------------------------


def _paths_of(text):
    """the executed fields (response paths) of a valid document, in execution order, without faults"""
    res, log = run_config("blocking", text, None, None, {})
    return [".".join(str(p) for p in e[0]) for e in log]


_PATHS = {}


def _classes(text, variables, opname, plan, configs, st, as_document=False):
    stage = stage_of(text, variables, opname)
    per = {}
    details = {}
    for cfg in configs:
        res, log = run_config(cfg, text, variables, opname, plan, as_document=as_document)
        if st is not None:
            st.n("evaluations")
            st.n("config:" + cfg)
        probs = check_result(text, stage, res, log, plan)
        for p, d in probs:
            if p.startswith("~"):
                if st is not None:
                    st.n(p[1:])
                continue
            if cfg not in per.setdefault(p, []):
                per[p].append(cfg)
            details.setdefault(p, "%s [%s]" % (d, cfg))
        if st is not None:
            kind = "raised" if isinstance(res, Raised) else "result"
            st.outcome((stage, kind, tuple(sorted(p for p, _ in probs)), len(log) > 0))
    out = []
    base_stage = stage.split(":")[0]
    bare_cr = re.search(r"\r(?!\n)", text) is not None
    shared = "err-shared" in [f for f in (plan or {}).values() if isinstance(f, str)]
    for p in sorted(per):
        cfgs = per[p]
        # locations are computed by counting LF only: texts with a bare CR are their own class
        name = p + "+bare-cr" if (p.startswith("location-") and bare_cr) else p
        if shared and p.split(":")[0] in ("null-without-error", "error-without-fault", "error-multiplicity", "location-not-at-field", "extensions-invented"):
            # ONE exception instance raised by several fields: its own class
            name = p + "+shared-instance"
        suffix = "" if len(cfgs) == len(configs) else "@" + "+".join(cfgs)
        out.append(("%s/%s%s" % (stage, name, suffix), details[p]))
    if st is not None:
        st.n("stage:" + base_stage)
    return stage, out


def _shift_loc(loc, prefix):
    if prefix == " ":
        return {"line": loc["line"], "column": loc["column"] + (1 if loc["line"] == 1 else 0)}
    return {"line": loc["line"] + 1, "column": loc["column"]}


def eval_shift(case, st=None):
    """a document starting at offset 0 against the same document behind one ignored prefix"""
    text, prefix, plan = case["text"], case["prefix"], case["plan"]
    stage = stage_of(text, None, None)
    if stage.startswith("parse"):
        return []  # syntax error messages quote positions; truncation cases cover them
    out = []
    for cfg in ("blocking", "default"):
        r0, _ = run_config(cfg, text, None, None, plan)
        r1, _ = run_config(cfg, prefix + text, None, None, plan)
        if st is not None:
            st.n("evaluations", 2)
            st.n("config:" + cfg, 2)
        if isinstance(r0, Raised) or isinstance(r1, Raised):
            if isinstance(r0, Raised) != isinstance(r1, Raised):
                out.append(("shift-changes-outcome", "one raises, the other does not: %r / %r [%s]" % (r0, r1, cfg)))
            continue
        try:
            e0 = r0.response().get("errors") or []
            e1 = r1.response().get("errors") or []
        except Exception as e:  # noqa
            out.append(("response-raises:%s@%s" % (type(e).__name__, origin(e)), repr(e)[:200]))
            continue
        if st is not None:
            st.outcome(("shift", stage, len(e0), sum(1 for e in e0 if e.get("locations"))))
        key = lambda e: (str(e.get("message")), json.dumps(e.get("path")))  # noqa
        if sorted(key(e) for e in e0) != sorted(key(e) for e in e1):
            out.append(("shift-changes-errors", "errors %r vs %r behind %r [%s]" % ([key(e) for e in e0], [key(e) for e in e1], prefix, cfg)))
            continue
        rest = list(e1)
        for e in e0:
            cands = [x for x in rest if key(x) == key(e)]
            want = [_shift_loc(l, "\n" if prefix != " " else " ") for l in (e.get("locations") or []) if isinstance(l, dict) and "column" in l and "line" in l]
            # (an error attributed to the Document node stays at 1:1: the document starts at offset 0
            #  whatever precedes its first token)
            orig = [dict(line=l.get("line"), column=l.get("column")) for l in (e.get("locations") or []) if isinstance(l, dict)]

            def ok(x):
                got = [dict(line=l.get("line"), column=l.get("column")) for l in (x.get("locations") or [])]
                return len(got) == len(want) and all(g == w or (g == o == {"line": 1, "column": 1}) for g, w, o in zip(got, want, orig))

            hit = [x for x in cands if ok(x)]
            if hit:
                rest.remove(hit[0])
                continue
            x = cands[0]
            rest.remove(x)
            if bool(e.get("locations")) != bool(x.get("locations")):
                out.append(("shift-loses-locations", "%r at offset 0 vs %r behind %r [%s]" % (e, x, prefix, cfg)))
            else:
                out.append(("shift-moves-locations-inconsistently", "%r vs %r behind %r [%s]" % (e, x, prefix, cfg)))
    if st is not None:
        st.nt(("shift", text, prefix, json.dumps(plan, sort_keys=True)))
        st.n("stage:" + stage.split(":")[0])
    res, seen = [], set()
    for p_, d in out:
        cls = "%s/%s" % (stage, p_)
        if cls not in seen:
            seen.add(cls)
            res.append((cls, d))
    return res


def evaluate(case, st=None):
    k = case["k"]
    if k == "shift":
        return eval_shift(case, st)
    text = case["text"]
    variables = case.get("variables")
    opname = case.get("opname")
    plan = {}
    configs = CONFIGS
    as_document = False
    if k == "text":
        if case.get("why") in ("subst", "delete", "insert") and not case.get("all_configs"):
            configs = ("blocking", "asyncio")
    elif k == "fault":
        if text not in _PATHS:
            _PATHS[text] = _paths_of(text)
        paths = _PATHS[text]
        if any(i >= len(paths) for i in case["at"]):
            return []
        plan = {paths[i]: f for i, f in zip(case["at"], case["faults"])}
        if len(case["at"]) > 1:
            configs = ("blocking", "default", "asyncio-coroutines", "threadpool")
    elif k == "fault-all":
        plan = {"*." + case["name"]: case["fault"]}
    elif k == "ret":
        plan = {case["leaf"]: ["ret", case["ret"]]}
    elif k == "document":
        as_document = True
        configs = ("blocking", "default", "asyncio")
        from py_gql.exc import GraphQLSyntaxError
        from py_gql.lang import parse

        try:
            parse(text)
        except GraphQLSyntaxError:
            return []
        except Exception:  # noqa
            return []
    stage, out = _classes(text, variables, opname, plan, configs, st, as_document=as_document)
    if st is not None:
        nontrivial = stage != "parse" or len(text.strip()) > 1
        if nontrivial:
            st.nt((text, json.dumps(variables, sort_keys=True, default=repr), opname, json.dumps(plan, sort_keys=True), as_document))
        st.mx("text_length", len(text))
    return out


def check_case(case, st):
    st.n("kind:" + case["k"] + (":" + case["why"] if "why" in case else ""))
    if st.counters.get("cases", 0) % 211 == 1:
        st.sample(case)
    return [(cls, case, detail) for cls, detail in evaluate(case, st)]


def replay(witness):
    return evaluate(witness, None)
