# -*- coding: utf-8 -*-
"""
C18 -- AST visitors reach every non-name node once, enter/leave balanced, edits stay local.

Engine E3.  For every derivation of the reference grammar (gen/trees.py; executable dialect with
fragment variables on, and the type-system dialect) up to the node bound, the document is parsed and
visited by

  * an identity recording ASTVisitor and an identity recording DispatchingVisitor (every enter_* /
    leave_* overridden mechanically);
  * for every node position p the identity visitor reaches and every action in {return None from enter
    (list members only -- that is what the property speaks about), return a fresh replacement, raise
    SkipNode}: a recording visitor applying the action at p (thorough: also every pair of positions
    where neither contains the other, for documents with <= 5 reached positions);
    A replacement is a FRESH copy of the whole sub-tree (every node a new object): leave must receive
    the replacement (identity), later chain members must be entered with it, and the children visited
    must be the replacement's; `replace-pruned` additionally drops the last member of the node's first
    list of child nodes (a structurally different replacement); the replacement is also returned from
    the enter_* hook of a DispatchingVisitor (leave_* must get it);
  * ChainedVisitor of 2 and 3 recording visitors: identity chains, and every (editing member j,
    action, position p) (quick: for chains of 3 only the middle member edits, and only identity
    chains of 3 for the largest size class);
  * the three visitors of py_gql.utilities.ast_transforms.

Oracle (mc/ref/visit.py, reflective: children = all Node-valued slots / list members ordered by loc,
Name nodes excluded):
  absolute   enter and leave exactly once per non-name node, parents around children, siblings in source
             order; the identity visitor returns the same document, to_dict() unchanged;
  relative   (against the implementation's own identity event list, so that coverage defects do not
             echo through every edit) deletion / skip remove exactly the events of p's descendants and p's
             leave; deletion removes exactly that list member from to_dict(); replacement leaves the event
             list alone and the parent (or the caller, for the root) holds the replacement object;
  chains     members enter in order and leave in reverse at every node; an edit by member j has the same
             effect as alone; members after a deleting / skipping member are not entered at p and no member
             from j on is left at p.
"""
import re

from mc.gen import layout as L
from mc.gen import trees as T
from mc.ref import visit as RV

READY = True
LEVEL = "exploration"
TECHNIQUE = "bounded-exhaustive enumeration of syntax trees x edit position x action x visitor chains against a reflective reference traversal"
LEVEL_TEXT = (
    "Every derivation of the reference grammar up to the node bound is parsed and visited with every single edit "
    "(delete / replace / skip) at every reachable position, alone and inside chains of 2 and 3 visitors; event lists "
    "and resulting trees are compared with a traversal derived reflectively from the node classes' slots. "
    "Exhaustive inside the bound; small-scope argument beyond."
)
LEVEL_NOTE = (
    "Trusts py_gql.lang.parse for the trees handed to the visitors (C02) and Node.to_dict() for observing results; the "
    "reference traversal (mc/ref/visit.py) is self-tested on a synthetic tree."
)
DESIGN_REF = "DESIGN.md section 6, C18"
RULE = (
    "cases = chunks of derivation indices per (dialect, node count), simplest first; one evaluation = one visit() of a freshly "
    "parsed document by one visitor configuration compared with the oracle; non-trivial = distinct (document text, configuration "
    "kind) where the visitor entered >= 3 nodes"
)
ASSUMPTIONS = [
    "trees come from py_gql.lang.parse with locations (sibling order is read off loc)",
    "deletion is only demanded for list members (the property's wording); replacement and skip for every position",
    "type conditions, inner types of list / non-null types, descriptions, variables of variable definitions are non-name nodes and therefore have to be visited",
    "when an edit's effect on the tree is already wrong, the event list of that run is not judged as well",
]
BOUNDS = {
    "quick": {"nodes": {"fragvars": 7, "sdl": 5}, "depth": 3, "pair_edits_max_positions": 0, "chain_lengths": [2, 3], "chain_all_members": [2], "chain3_edits_up_to_nodes": {"fragvars": 6, "sdl": 4}},
    "thorough": {"nodes": {"fragvars": 8, "sdl": 6}, "depth": 4, "pair_edits_max_positions": 5, "chain_lengths": [2, 3], "chain_all_members": [2, 3], "chain3_edits_up_to_nodes": {"fragvars": 8, "sdl": 6}},
}
TIME_CAP = {"quick": 150, "thorough": 1500}
CHUNK = 40
MAX_PER_CLASS_PER_CASE = 2
ACTIONS = ("delete", "replace", "skip")


def selftest():
    RV.selftest()
    L.selftest()
    assert _snake("OperationTypeDefinition") == "operation_type_definition"
    assert _snake("NonNullType") == "non_null_type"


def cases(tier):
    b = BOUNDS[tier]
    nmax = max(b["nodes"].values())
    for n in range(1, nmax + 1):
        for dialect in ("fragvars", "sdl"):
            if n > b["nodes"][dialect]:
                continue
            c = T.count(dialect, n, b["depth"])
            for lo in range(0, c, CHUNK):
                yield {"dialect": dialect, "n": n, "d": b["depth"], "lo": lo, "hi": min(c, lo + CHUNK), "tier": tier}


def _snake(kind):
    return re.sub(r"(?<!^)([A-Z])", r"_\1", kind).lower()


# ------------------------------------------------------------------------------------------------
# recording visitors (built lazily: they subclass the library's classes)

_CLS = {}


def _classes():
    if _CLS:
        return _CLS
    from py_gql.lang.visitor import ASTVisitor, DispatchingVisitor, SkipNode

    class Recorder(ASTVisitor):
        def __init__(self, ctx, ident=0, edits=None):
            self.ctx, self.ident, self.edits = ctx, ident, (edits or {})
            self.log = []

        def enter(self, node):
            path = self.ctx.path_of(node)
            self.log.append(("enter", path))
            self.ctx.glog.append((self.ident, "enter", path))
            self.ctx.identity("enter", node, path, self.ident)
            act = self.edits.get(path) if not isinstance(path, str) else None
            if act == "delete":
                return None
            if act == "skip":
                raise SkipNode()
            if act in ("replace", "replace-pruned"):
                return self.ctx.replacement(node, path, prune=(act == "replace-pruned"))
            return node

        def leave(self, node):
            path = self.ctx.path_of(node)
            self.log.append(("leave", path))
            self.ctx.glog.append((self.ident, "leave", path))
            self.ctx.identity("leave", node, path, self.ident)

    ns = {}

    def mk(name):
        ev = name.split("_", 1)[0]

        def method(self, node):
            path = self.ctx.path_of(node)
            self.log.append((ev, path))
            self.calls.append((name, type(node).__name__))
            self.ctx.identity(ev, node, path, 0)
            if ev == "enter":
                if self.edits.get(path) == "replace" and not isinstance(path, str):
                    return self.ctx.replacement(node, path)
                return node
            return None

        return method

    for name in dir(DispatchingVisitor):
        if name.startswith("enter_") or name.startswith("leave_"):
            ns[name] = mk(name)

    def init(self, ctx, edits=None):
        self.ctx, self.log, self.calls, self.edits = ctx, [], [], (edits or {})

    ns["__init__"] = init
    DRecorder = type("DRecorder", (DispatchingVisitor,), ns)
    _CLS.update(Recorder=Recorder, DRecorder=DRecorder, SkipNode=SkipNode)
    return _CLS


_BEFORE = {}


class Ctx(object):
    """one freshly parsed document with its reflective positions"""

    def __init__(self, text, flags):
        from py_gql.lang import parse

        self.text = text
        self.doc = parse(text, **flags)
        if _BEFORE.get("text") != text:
            _BEFORE["text"], _BEFORE["dict"] = text, self.doc.to_dict()
        self.before = _BEFORE["dict"]  # to_dict() of the untouched document (never mutated by the checks)
        self.pos = RV.positions(self.doc)
        self.by_id = {id(p.node): p.path for p in self.pos}
        self.by_path = {p.path: p for p in self.pos}
        self.glog = []
        self.repl = {}
        self.fresh = set()
        self.flags = []
        self.keep = []

    def path_of(self, node):
        p = self.by_id.get(id(node))
        if p is None:
            return "?%s" % type(node).__name__
        return p

    def replacement(self, node, path, prune=False):
        """
        a FRESH copy of the whole sub-tree (every node a new object, same slot values), optionally without
        the last member of its first non-empty list of nodes (`prune`): the visitor has to go on with the
        replacement -- enter later chain members with it, visit ITS children, leave it.
        """
        target = prune_target(node) if prune else None

        def fresh(x, top=False):
            kw = {}
            for sl in RV.slots(x):
                v = getattr(x, sl)
                if RV._is_node(v):
                    v = fresh(v)
                elif isinstance(v, list):
                    if top and target is not None and sl == target[0]:
                        v = v[:-1]
                    v = [fresh(e) if RV._is_node(e) else e for e in v]
                kw[sl] = v
            kw["loc"] = x.loc
            return type(x)(**kw)

        new = fresh(node, True)
        self.repl[path] = new
        for P in RV.positions(new):
            self.by_id[id(P.node)] = path + P.path
            self.fresh.add(id(P.node))
        self.keep.append(new)
        return new

    def identity(self, ev, node, path, member):
        """which OBJECT did the visitor hand to enter / leave at a position that was replaced (or below one)?"""
        if isinstance(path, str):
            return
        for rp in self.repl:
            if rp == path:
                if node is not self.repl[rp]:
                    self.flags.append(("%s-gets-original" % ev, path, member))
            elif RV.is_strict_prefix(rp, path) and id(node) not in self.fresh:
                self.flags.append(("visits-original-children", path, member))


def prune_target(node):
    """(slot, index) of the member a pruned replacement drops: the last one of the first list of non-name nodes"""
    for sl in RV.slots(node):
        v = getattr(node, sl)
        if isinstance(v, list) and v and all(RV._is_node(e) and not RV._is_name(e) for e in v):
            return (sl, len(v) - 1)
    return None


def _fmt(path):
    if isinstance(path, str):
        return path
    return "/" + "/".join(s if i is None else "%s[%d]" % (s, i) for s, i in path)


def _fmt_events(ev, limit=14):
    return " ".join("%s%s" % ("+" if e == "enter" else "-", _fmt(p)) for e, p in ev[:limit]) + (" ..." if len(ev) > limit else "")


# ------------------------------------------------------------------------------------------------
# the checks; each returns a list of (class, detail)


def _visit(visitor, ctx):
    """run the real visitor; -> (result, exception class name or None)"""
    try:
        return visitor.visit(ctx.doc), None
    except Exception as e:  # noqa
        return None, "%s: %s" % (type(e).__name__, e)


def check_identity(ctx, st=None):
    """absolute oracle on the identity ASTVisitor; -> (violations, base event list or None)"""
    C = _classes()
    before = ctx.before
    r = C["Recorder"](ctx)
    res, exc = _visit(r, ctx)
    if exc:
        return [("crash:identity:%s" % exc.split(":")[0], "%s on %s" % (exc, ctx.text))], None
    out = []
    E = r.log
    exp = RV.expected_events(ctx.doc)
    enters, leaves = {}, {}
    for ev, p in E:
        if isinstance(p, str):
            out.append(("visited-unexpected:%s" % p[1:], "%s %s on %s" % (ev, p, ctx.text)))
            continue
        d = enters if ev == "enter" else leaves
        d[p] = d.get(p, 0) + 1
    good = set()
    for p in ctx.pos:
        ne, nl = enters.get(p.path, 0), leaves.get(p.path, 0)
        if ne == 0 and nl == 0:
            if p.parent is None or enters.get(p.parent.path, 0):
                out.append(("never-visited:%s" % p.where(), "%s never entered in %s" % (_fmt(p.path), ctx.text)))
        elif ne > 1 or nl > 1:
            out.append(("visited-twice:%s" % p.where(), "%s entered %d left %d times in %s" % (_fmt(p.path), ne, nl, ctx.text)))
        elif ne != nl:
            out.append(("unbalanced:%s" % p.where(), "%s entered %d left %d times in %s" % (_fmt(p.path), ne, nl, ctx.text)))
        else:
            good.add(p.path)
    expg = [(e, p) for e, p in exp if p in good]
    Eg = [(e, p) for e, p in E if p in good]
    if expg != Eg:
        cls = None
        # sibling order under the first parent where it differs
        idx = {}
        for k, (e, p) in enumerate(Eg):
            if e == "enter":
                idx[p] = k
        for par in ctx.pos:
            kids = [q for q in ctx.pos if q.parent is par and q.path in good]
            for a in range(len(kids)):
                for b2 in range(a + 1, len(kids)):
                    if idx[kids[a].path] > idx[kids[b2].path]:
                        cls = "order:%s:%s-before-%s" % (par.kind, kids[b2].slot, kids[a].slot)
                        break
                if cls:
                    break
            if cls:
                break
        if cls is None:
            cls = "nesting"
        out.append((cls, "expected %s got %s in %s" % (_fmt_events(expg, 30), _fmt_events(Eg, 30), ctx.text)))
    if res is not ctx.doc:
        out.append(("identity-returns-other-object", "visit() returned %r" % (res,)))
    elif ctx.doc.to_dict() != before:
        out.append(("identity-changes-tree", "to_dict() changed for %s" % ctx.text))
    if st is not None:
        st.n("evaluations")
        st.mx("positions", len(ctx.pos))
    return out, E


def check_dispatch(ctx, base):
    C = _classes()
    r = C["DRecorder"](ctx)
    before = ctx.before
    res, exc = _visit(r, ctx)
    if exc:
        return [("crash:dispatching:%s" % exc.split(":")[0], "%s on %s" % (exc, ctx.text))]
    out = []
    for name, kind in r.calls:
        if name.split("_", 1)[1] != _snake(kind):
            out.append(("dispatch-wrong-method:%s" % kind, "%s called for a %s in %s" % (name, kind, ctx.text)))
            break
    if r.log != base:
        out.append(("dispatch-events-differ", "ASTVisitor saw %s, DispatchingVisitor %s in %s" % (_fmt_events(base), _fmt_events(r.log), ctx.text)))
    if res is not ctx.doc or ctx.doc.to_dict() != before:
        out.append(("identity-changes-tree:dispatching", ctx.text))
    return out


def _tree_effect(ctx, res, before, edits, prefix=""):
    """has the tree exactly the expected shape after the edits? -> list of (class, detail)"""
    out = []
    exp = before
    # deletions: remove members, highest index first so that indices stay valid
    dels = sorted([p for p, a in edits.items() if a == "delete"], key=lambda p: (len(p), p[-1][1]), reverse=True)
    for p in dels:
        if any(RV.is_strict_prefix(q, p) and edits[q] in ("delete",) for q in edits):
            continue
        exp = RV.dict_without(exp, p)
    root_replaced = edits.get(()) in ("replace", "replace-pruned")
    for p, a in edits.items():
        if a == "replace-pruned":
            exp = RV.dict_without(exp, p + (prune_target(ctx.by_path[p].node),))
    if res is None:
        return [("%sresult-none" % prefix, "visit() returned None for %s" % ctx.text)]
    got = res.to_dict()
    if got != exp:
        for p, a in sorted(edits.items()):
            P = ctx.by_path[p]
            if a == "delete":
                return [("%sdelete-not-local:%s" % (prefix, P.where()), "after deleting %s: %s differs from the original minus that member; text %s" % (_fmt(p), "to_dict()", ctx.text))]
        P = ctx.by_path[sorted(edits)[0]]
        return [("%s%s-changes-tree:%s" % (prefix, edits[P.path], P.where()), "to_dict() differs after %s at %s in %s" % (edits[P.path], _fmt(P.path), ctx.text))]
    # identities
    for p, a in sorted(edits.items()):
        P = ctx.by_path[p]
        if any(RV.is_strict_prefix(q, p) and edits[q] in ("delete",) for q in edits):
            continue
        if a in ("replace", "replace-pruned"):
            new = ctx.repl.get(p)
            if p == ():
                holder = res
            else:
                # index shift caused by deleted earlier siblings
                holder = _get_shifted(res if root_replaced else ctx.doc, p, dels)
            if new is None or holder is not new:
                out.append(("%sreplace-lost:%s" % (prefix, (P.parent_kind + "." + P.slot) if P.parent else "root"), "replacement returned for %s is not what the parent holds afterwards; text %s" % (_fmt(p), ctx.text)))
        elif a == "skip":
            holder = res if p == () else _get_shifted(res if root_replaced else ctx.doc, p, dels)
            if holder is not P.node:
                out.append(("%sskip-changes-tree:%s" % (prefix, P.where()), "node at %s replaced although the visitor only skipped it; text %s" % (_fmt(p), ctx.text)))
    if not root_replaced and res is not ctx.doc:
        out.append(("%svisit-returns-other-object" % prefix, ctx.text))
    return out


def _get_shifted(root, path, dels):
    node = root
    cur = ()
    for s, i in path:
        if i is not None:
            shift = sum(1 for d in dels if d[:-1] == cur and d[-1][0] == s and d[-1][1] < i)
            node = getattr(node, s)[i - shift]
        else:
            node = getattr(node, s)
        cur = cur + ((s, i),)
    return node


def _expected_after(base, edits, ctx=None):
    exp = list(base)
    for p, a in sorted(edits.items()):
        if a == "replace-pruned":
            gone = p + (prune_target(ctx.by_path[p].node),)
            exp = [(e, q) for e, q in exp if not (q == gone or RV.is_strict_prefix(gone, q))]
        else:
            exp = RV.events_after_edit(exp, p, a)
    return exp


def _identity_flags(ctx, prefix=""):
    """the visitor handed the wrong OBJECT to enter / leave at or below a replaced position"""
    out = []
    seen = set()
    for kind, path, member in ctx.flags:
        if kind in seen:
            continue
        seen.add(kind)
        P = ctx.by_path.get(path)
        out.append(("%sreplace-%s" % (prefix, kind), "%s at %s (member %d) received the node that had been replaced / a child of it, not the replacement's; text %s" % (kind, _fmt(path), member, ctx.text)))
    return out


def check_edit(ctx, base, edits):
    """single visitor applying `edits` {path: action}; relative oracle"""
    C = _classes()
    before = ctx.before
    r = C["Recorder"](ctx, edits=edits)
    res, exc = _visit(r, ctx)
    tag = "+".join(sorted(set(edits.values())))
    if exc:
        return [("crash:edit:%s:%s" % (tag, exc.split(":")[0]), "%s; edits %s on %s" % (exc, _fmt_edits(edits), ctx.text))]
    out = _tree_effect(ctx, res, before, edits)
    if out:
        return out
    out = _identity_flags(ctx)
    if out:
        return out
    exp = _expected_after(base, edits, ctx)
    if r.log != exp:
        P = ctx.by_path[sorted(edits)[0]]
        a = edits[P.path]
        return [("%s-not-local:%s" % (a, P.where()) if len(edits) == 1 else "edits-not-local:%s" % tag,
                 "edits %s: expected events %s got %s; text %s" % (_fmt_edits(edits), _fmt_events(exp, 30), _fmt_events(r.log, 30), ctx.text))]
    return []


def check_dispatch_edit(ctx, base, path):
    """a DispatchingVisitor whose enter_* hook returns a fresh replacement at `path`: leave_* must get it"""
    C = _classes()
    edits = {path: "replace"}
    r = C["DRecorder"](ctx, edits)
    res, exc = _visit(r, ctx)
    if exc:
        return [("crash:dispatch-edit:%s" % exc.split(":")[0], "%s; %s on %s" % (exc, _fmt_edits(edits), ctx.text))]
    out = _tree_effect(ctx, res, ctx.before, edits, prefix="dispatch-")
    if out:
        return out
    out = _identity_flags(ctx, "dispatch-")
    if out:
        return out
    if r.log != base:
        return [("dispatch-replace-not-local", "expected %s got %s; %s on %s" % (_fmt_events(base, 30), _fmt_events(r.log, 30), _fmt_edits(edits), ctx.text))]
    return []


def _fmt_edits(edits):
    return ",".join("%s@%s" % (a, _fmt(p)) for p, a in sorted(edits.items()))


def check_chain(ctx, base, k, j, path, action):
    """ChainedVisitor of k recorders; member j applies `action` at `path` (j None: identity chain)"""
    from py_gql.lang.visitor import ChainedVisitor

    C = _classes()
    before = ctx.before
    edits = {path: action} if j is not None else {}
    members = [C["Recorder"](ctx, ident=m, edits=(edits if m == j else None)) for m in range(k)]
    chain = ChainedVisitor(*members)
    res, exc = _visit(chain, ctx)
    if exc:
        return [("crash:chain:%s" % exc.split(":")[0], "%s; chain k=%d j=%r %s on %s" % (exc, k, j, _fmt_edits(edits), ctx.text))]
    what = "chain k=%d member %r %s; text %s" % (k, j, _fmt_edits(edits), ctx.text)
    if j is None:
        out = []
        # order at every node: enters 0..k-1, leaves k-1..0
        bad = None
        per = {}
        for m, ev, p in ctx.glog:
            per.setdefault((ev, p), []).append(m)
        for (ev, p), ms in sorted(per.items(), key=lambda t: str(t[0])):
            want = list(range(k)) if ev == "enter" else list(range(k - 1, -1, -1))
            if ms != want and bad is None:
                bad = ("chain-%s-order" % ev, "members %s at %s (%s)" % (ms, _fmt(p), what))
        if bad:
            out.append(bad)
        for m in members:
            if m.log != base and not bad:
                out.append(("chain-events-differ", "member %d saw %s, alone %s (%s)" % (m.ident, _fmt_events(m.log), _fmt_events(base), what)))
                break
        if res is not ctx.doc or ctx.doc.to_dict() != before:
            out.append(("identity-changes-tree:chain", what))
        return out
    eff = _tree_effect(ctx, res, before, edits, prefix="chain-")
    if eff:
        # normalise the class: which edit by a chained member was lost
        cls = eff[0][0]
        if cls.startswith("chain-delete-not-local") and res is not None and res.to_dict() == before:
            cls = "chain-delete-lost"
        elif cls.startswith("chain-replace-lost"):
            cls = "chain-replacement-lost"
        return [(cls, eff[0][1] + " (" + what + ")")]
    out = [(c, d + " (" + what + ")") for c, d in _identity_flags(ctx, "chain-")]
    if out:
        return out
    for m in members:
        exp = _expected_after(base, edits)
        got = list(m.log)
        if action in ("delete", "skip"):
            if m.ident > j:
                exp = [e for e in exp if e != ("enter", path)]
                if ("enter", path) in got:
                    out.append(("chain-enter-after-%s" % action, "member %d entered %s after member %d %sd it (%s)" % (m.ident, _fmt(path), j, action, what)))
                    break
                if ("leave", path) in got:
                    out.append(("chain-leave-unentered", "member %d left %s without entering it (%s)" % (m.ident, _fmt(path), what)))
                    break
            elif m.ident == j:
                if ("leave", path) in got:
                    out.append(("chain-leave-after-%s" % action, "member %d left %s although it %sd it (%s)" % (m.ident, _fmt(path), action, what)))
                    break
            else:
                # members before j entered the node; whether they are left is not stated: not judged
                got = [e for e in got if e != ("leave", path)]
        if got != exp:
            out.append(("chain-%s-not-local" % action, "member %d: expected %s got %s (%s)" % (m.ident, _fmt_events(exp, 30), _fmt_events(got, 30), what)))
            break
    if not out and action == "replace":
        # enter order / leave order at the replaced position as everywhere else
        ms_e = [m for m, ev, p in ctx.glog if ev == "enter" and p == path]
        ms_l = [m for m, ev, p in ctx.glog if ev == "leave" and p == path]
        if ms_e != list(range(k)) or ms_l != list(range(k - 1, -1, -1)):
            out.append(("chain-order-at-replaced", "enter %s leave %s (%s)" % (ms_e, ms_l, what)))
    return out


def check_transform(text, flags, which):
    """the ast_transforms visitors: every Field (found reflectively) transformed, nothing else touched"""
    from py_gql.lang import parse
    from py_gql.utilities import ast_transforms as AT
    from py_gql._string_utils import camelcase_to_snakecase, snakecase_to_camelcase

    doc = parse(text, **flags)
    exp = doc.to_dict()

    def fix(d):
        if isinstance(d, dict):
            if d.get("__kind__") == "Field":
                if which == "RemoveFieldAliasesVisitor":
                    d["alias"] = None
                elif which == "CamelCaseToSnakeCaseVisitor":
                    d["name"]["value"] = camelcase_to_snakecase(d["name"]["value"])
                else:
                    d["name"]["value"] = snakecase_to_camelcase(d["name"]["value"])
            for v in d.values():
                fix(v)
        elif isinstance(d, list):
            for v in d:
                fix(v)

    try:
        fix(exp)
    except Exception:  # noqa -- the library's own name conversion fails on some field name
        exp = None
    try:
        res = getattr(AT, which)().visit(doc)
    except Exception as e:  # noqa
        return [("crash:transform:%s:%s" % (which, type(e).__name__), "%r on %s" % (e, text))]
    if res is not doc:
        return [("transform-returns-other-object:%s" % which, text)]
    if doc.to_dict() != exp:
        return [("transform-wrong:%s" % which, "%s on %s" % (which, text))]
    return []


TRANSFORMS = ("RemoveFieldAliasesVisitor", "CamelCaseToSnakeCaseVisitor", "SnakeCaseToCamelCaseVisitor")

# ------------------------------------------------------------------------------------------------


def _text_of(dialect, n, d, i):
    term = T.unrank(dialect, n, d, i)
    tokens, tree = T.realize(term, T.leaf_seed(i, i % T.ROTATIONS))
    text, _ = L.render(tokens, L.default_gaps(tokens))
    flags = dict(T.parser_flags(dialect))
    flags["experimental_fragment_variables"] = True
    return text, flags


def run_config(text, flags, cfg, st=None):
    """one visitor configuration on a freshly parsed document -> list of (class, detail)"""
    from py_gql.exc import GraphQLSyntaxError

    mode = cfg["mode"]
    if mode == "transform":
        return check_transform(text, flags, cfg["which"])
    try:
        ctx = Ctx(text, flags)
    except GraphQLSyntaxError:
        if st is not None:
            st.n("rejected_by_parser(not judged here)")
        return []
    if mode == "identity":
        return check_identity(ctx)[0]
    # the implementation's own identity event list is the base of the relative oracles
    base_ctx = Ctx(text, flags)
    _, base = check_identity(base_ctx)
    if base is None:
        return []
    if mode == "dispatch":
        return check_dispatch(ctx, base)
    if mode == "edit":
        edits = {_path(p): a for p, a in cfg["edits"]}
        return check_edit(ctx, base, edits)
    if mode == "dedit":
        return check_dispatch_edit(ctx, base, _path(cfg["path"]))
    if mode == "chain":
        return check_chain(ctx, base, cfg["k"], cfg["j"], _path(cfg["path"]) if cfg["j"] is not None else None, cfg.get("action"))
    raise ValueError(mode)


def _path(p):
    return tuple((s, i) for s, i in p)


def _jpath(p):
    return [[s, i] for s, i in p]


def explore(dialect, n, d, i, b, st):
    from py_gql.exc import GraphQLSyntaxError

    out = []
    text, flags = _text_of(dialect, n, d, i)

    def wit(cfg):
        return {"dialect": dialect, "n": n, "d": d, "i": i, "run": cfg}

    try:
        ctx0 = Ctx(text, flags)
    except GraphQLSyntaxError:
        st.n("rejected_by_parser(not judged here)")
        return out
    except Exception as e:  # noqa
        return [("crash:parse:%s" % type(e).__name__, wit({"mode": "identity"}), "%r on %s" % (e, text))]
    viol, base = check_identity(ctx0, st)
    for cls, detail in viol:
        out.append((cls, wit({"mode": "identity"}), detail))
    if base is None:
        return out
    entered = [p for e, p in base if e == "enter" and not isinstance(p, str)]
    eset = set(entered)
    reach = [P for P in ctx0.pos if P.path in eset]
    st.n("positions_total", len(ctx0.pos))
    st.n("positions_reached", len(reach))
    if len(entered) >= 3:
        st.nt(text)

    def run(cfg, fn):
        st.n("evaluations")
        st.n("runs:" + cfg["mode"])
        for cls, detail in fn():
            out.append((cls, wit(cfg), detail))

    run({"mode": "dispatch"}, lambda: check_dispatch(Ctx(text, flags), base))
    for P in reach:
        for a in ACTIONS:
            if a == "delete" and P.index is None:
                continue
            cfg = {"mode": "edit", "edits": [[_jpath(P.path), a]]}
            run(cfg, lambda: check_edit(Ctx(text, flags), base, {P.path: a}))
            st.outcome((P.kind, P.parent_kind, P.slot, a))
        if prune_target(P.node) is not None:
            cfg = {"mode": "edit", "edits": [[_jpath(P.path), "replace-pruned"]]}
            run(cfg, lambda: check_edit(Ctx(text, flags), base, {P.path: "replace-pruned"}))
        cfg = {"mode": "dedit", "path": _jpath(P.path)}
        run(cfg, lambda: check_dispatch_edit(Ctx(text, flags), base, P.path))
    if len(reach) <= b["pair_edits_max_positions"]:
        for x in range(len(reach)):
            for y in range(x + 1, len(reach)):
                P, Q = reach[x], reach[y]
                if RV.is_strict_prefix(P.path, Q.path) or RV.is_strict_prefix(Q.path, P.path):
                    continue
                for a in ACTIONS:
                    if a == "delete" and P.index is None:
                        continue
                    for a2 in ACTIONS:
                        if a2 == "delete" and Q.index is None:
                            continue
                        cfg = {"mode": "edit", "edits": [[_jpath(P.path), a], [_jpath(Q.path), a2]]}
                        run(cfg, lambda: check_edit(Ctx(text, flags), base, {P.path: a, Q.path: a2}))
    for k in b["chain_lengths"]:
        run({"mode": "chain", "k": k, "j": None}, lambda: check_chain(Ctx(text, flags), base, k, None, None, None))
        if k > 2 and n > b["chain3_edits_up_to_nodes"][dialect]:
            continue  # largest size class (quick): chains of 3 only as identity chains
        for P in reach:
            for a in ACTIONS:
                if a == "delete" and P.index is None:
                    continue
                for j in (range(k) if k in b["chain_all_members"] else [1]):
                    cfg = {"mode": "chain", "k": k, "j": j, "path": _jpath(P.path), "action": a}
                    run(cfg, lambda: check_chain(Ctx(text, flags), base, k, j, P.path, a))
        if st.out_of_time():
            break
    for which in TRANSFORMS:
        cfg = {"mode": "transform", "which": which}
        run(cfg, lambda: check_transform(text, flags, which))
    if i % 331 == 0:
        st.sample({"dialect": dialect, "n": n, "i": i, "text": text, "positions": len(ctx0.pos), "reached": len(reach)})
    return out


def check_case(case, st):
    out = []
    per_class = {}
    b = BOUNDS[case["tier"]]
    for i in range(case["lo"], case["hi"]):
        if st.out_of_time():
            st.n("derivations_skipped_by_time_cap", case["hi"] - i)
            break
        st.n("derivations")
        st.n("derivations:" + case["dialect"])
        for cls, wit, detail in explore(case["dialect"], case["n"], case["d"], i, b, st):
            k = per_class.get(cls, 0)
            per_class[cls] = k + 1
            if k < MAX_PER_CLASS_PER_CASE:
                out.append((cls, wit, detail))
            else:
                st.n("further_witnesses_not_listed:" + cls)
    st.mx("nodes:" + case["dialect"], case["n"])
    return out


def replay(witness):
    text, flags = _text_of(witness["dialect"], witness["n"], witness["d"], witness["i"])
    return run_config(text, flags, witness["run"])
