# -*- coding: utf-8 -*-
"""
Baton (real thread) harnesses shared by C08 / C16: combinator-level and executor-level bodies, every
interleaving at eval-breaker granularity up to a preemption bound.
"""
import json

from mc.explore import HarnessError, explore, run_once

COMBINATOR_CASES = [
    "gather2", "gather3-mixed-fail", "gather2-bothfail", "gather3", "chain-race", "chain-else", "unwrap-nested", "unwrap-race", "unwrap-double", "gather-done-failed", "gather-done-ok",
]
EXEC_CASES = [
    ("exec-siblings", "{ a b }", {"Query.a": "sync", "Query.b": "sync"}, {}),
    ("exec-nested", "{ o { x } a }", {"Query.o": "sync", "Obj.x": "sync", "Query.a": "sync"}, {}),
    ("exec-err", "{ a b c }", {"Query.a": "sync", "Query.b": "sync", "Query.c": "sync"}, {"b": "err"}),
    ("exec-boom", "{ a b }", {"Query.a": "sync", "Query.b": "sync"}, {"a": "boom"}),
    ("exec-list", "{ l { x } }", {"Obj.x": "sync"}, {}),
]


def cases(tier):
    for name in COMBINATOR_CASES:
        yield {"kind": "baton", "name": name}
    for name, q, custom, ov in EXEC_CASES:
        yield {"kind": "baton-exec", "name": name, "query": q, "custom": custom, "overrides": ov}


def _reset_type_caches():
    """module-level memo dicts keyed by type: a miss executes extra calls (= extra scheduling points),
    so every execution starts from the same (empty) caches."""
    from py_gql.execution.runtime import asyncio as A
    from py_gql.execution.runtime import threadpool as TP

    for fn in (getattr(TP, "_is_future_fast", None), getattr(A, "_isawaitable_fast", None)):
        d = getattr(fn, "__defaults__", None)
        if d and isinstance(d[0], dict):
            d[0].clear()


class E1(Exception):
    pass


class E2(Exception):
    pass


def _fut_state(f, horizon=False):
    from concurrent.futures import Future

    if not isinstance(f, Future):
        return ["value", json.dumps(f, default=repr)]
    if not f.done():
        return ["pending"]
    if f.cancelled():
        return ["cancelled"]
    e = f.exception()
    if e is not None:
        return ["exc", type(e).__name__]
    return ["result", json.dumps(f.result(), default=repr)]


def _combinator(name, ch, traced):
    """returns (observation, expected-set)"""
    from concurrent.futures import Future

    from py_gql.execution.runtime import threadpool as TP
    from mc.sched.threads import Baton

    _reset_type_caches()
    b = Baton(ch, _mods(traced))
    box = {}
    if name == "gather2":
        f1, f2 = Future(), Future()
        outer = TP.gather_futures([f1, f2])
        b.spawn("T1", lambda: f1.set_result(1))
        b.spawn("T2", lambda: f2.set_result(2))
        expected = [["result", "[1, 2]"]]
        get = lambda: outer  # noqa
    elif name == "gather3":
        f1, f2, f3 = Future(), Future(), Future()
        outer = TP.gather_futures([f1, f2, f3])
        b.spawn("T1", lambda: f1.set_result(1))
        b.spawn("T2", lambda: f2.set_result(2))
        b.spawn("T3", lambda: f3.set_result(3))
        expected = [["result", "[1, 2, 3]"]]
        get = lambda: outer  # noqa
    elif name == "gather3-mixed-fail":
        f1, f2 = Future(), Future()
        outer = TP.gather_futures([f1, 5, f2])
        b.spawn("T1", lambda: f1.set_result(1))
        b.spawn("T2", lambda: f2.set_exception(E1("x")))
        expected = [["exc", "E1"]]
        get = lambda: outer  # noqa
    elif name == "gather-done-failed":
        # one member is already done (failed) when the aggregate is built; the other completes later
        f1, f2, f3 = Future(), Future(), Future()
        f1.set_exception(E1("x"))
        outer = TP.gather_futures([f1, f2, f3])
        b.spawn("T2", lambda: f2.set_result(2))
        b.spawn("T3", lambda: f3.set_result(3))
        expected = [["exc", "E1"]]
        get = lambda: outer  # noqa
    elif name == "gather-done-ok":
        f1, f2 = Future(), Future()
        f1.set_result(1)
        outer = TP.gather_futures([f1, f2])
        b.spawn("T2", lambda: f2.set_result(2))
        b.spawn("T0", lambda: None)
        expected = [["result", "[1, 2]"]]
        get = lambda: outer  # noqa
    elif name == "gather2-bothfail":
        f1, f2 = Future(), Future()
        outer = TP.gather_futures([f1, f2])
        b.spawn("T1", lambda: f1.set_exception(E1("x")))
        b.spawn("T2", lambda: f2.set_exception(E2("y")))
        expected = [["exc", "E1"], ["exc", "E2"]]
        get = lambda: outer  # noqa
    elif name == "chain-race":
        f = Future()

        def t0():
            box["t"] = TP.chain(f, lambda v: v + 1)

        b.spawn("T0", t0)
        b.spawn("T1", lambda: f.set_result(1))
        expected = [["result", "2"]]
        get = lambda: box.get("t")  # noqa
    elif name == "chain-else":
        f = Future()

        def then(v):
            raise E1("then")

        def t0():
            box["t"] = TP.chain(f, then, (E1, lambda e: "handled"))

        b.spawn("T0", t0)
        b.spawn("T1", lambda: f.set_result(1))
        expected = [["result", '"handled"']]
        get = lambda: box.get("t")  # noqa
    elif name == "unwrap-nested":
        f, g = Future(), Future()
        outer = TP.unwrap_future(f)
        b.spawn("T1", lambda: f.set_result(g))
        b.spawn("T2", lambda: g.set_result(3))
        expected = [["result", "3"]]
        get = lambda: outer  # noqa
    elif name == "unwrap-double":
        f, g, h = Future(), Future(), Future()
        outer = TP.unwrap_future(f)
        b.spawn("T1", lambda: f.set_result(g))
        b.spawn("T2", lambda: g.set_result(h))
        b.spawn("T3", lambda: h.set_result(4))
        expected = [["result", "4"]]
        get = lambda: outer  # noqa
    elif name == "unwrap-race":
        f, g = Future(), Future()

        def t0():
            box["t"] = TP.unwrap_future(f)

        b.spawn("T0", t0)
        b.spawn("T1", lambda: f.set_result(g))
        b.spawn("T2", lambda: g.set_exception(E2("z")))
        expected = [["exc", "E2"]]
        get = lambda: box.get("t")  # noqa
    else:
        raise ValueError(name)
    status = b.run()
    obs = _fut_state(get()) if status == "ok" else ["horizon"]
    return {"state": obs, "trace": "".join(t[-1] for t in b.trace)}, expected


class BatonPool:
    """Executor for ThreadPoolRuntime._inner whose jobs run on baton-controlled threads."""

    def __init__(self, baton):
        self.baton = baton
        self.n = 0

    def submit(self, fn, *a, **kw):
        from concurrent.futures import Future

        fut = Future()
        self.n += 1

        def job():
            try:
                r = fn(*a, **kw)
            except BaseException as e:  # noqa
                fut.set_exception(e)
            else:
                fut.set_result(r)

        self.baton.spawn("J%d" % self.n, job)
        return fut

    def shutdown(self, wait=True):
        pass


def _exec_body(case, ch, traced):
    from py_gql import process_graphql_query
    from py_gql.execution.runtime import ThreadPoolRuntime

    from mc.sched import harness as H
    from mc.sched.threads import Baton

    _reset_type_caches()
    b = Baton(ch, _mods(traced))
    scn = {"query": case["query"], "custom": case["custom"], "overrides": case["overrides"]}
    world = H.World(scn["overrides"])
    schema = H.schema_for(scn["custom"], False)
    ast, errs = H.prepared(scn)
    assert not errs
    rt = ThreadPoolRuntime(max_workers=1)
    rt._inner.shutdown(wait=False)
    rt._inner = BatonPool(b)
    try:
        final = process_graphql_query(schema, ast, runtime=rt, root=H.ROOT, context=world, validators=[])
    except Exception as e:  # noqa
        return H.observe("exc", e, world), None
    status = b.run()
    from concurrent.futures import Future

    if status != "ok":
        return {"status": "horizon"}, None
    if isinstance(final, Future):
        if not final.done():
            return {"status": "stuck", "trace": "".join(t[-1] for t in b.trace)}, None
        e = final.exception()
        if e is not None:
            return H.observe("exc", e, world), None
        return H.observe("ok", final.result(), world), None
    return H.observe("ok", final, world), None


TRACED_QUICK = ("py_gql.execution.runtime.threadpool",)
TRACED_THOROUGH = ("py_gql.execution.runtime.threadpool", "py_gql.execution.executor", "py_gql.execution.wrappers")


def _mods(names):
    import importlib

    return [importlib.import_module(n) for n in names]


def _key(obs):
    return (obs.get("status"), obs.get("data"), json.dumps(obs.get("errors")), obs.get("exc"))


def check_case(case, st, preemptions):
    out = []
    traced = TRACED_THOROUGH if st.tier == "thorough" else TRACED_QUICK
    if case["kind"] == "baton":
        name = case["name"]
        body = lambda ch: _combinator(name, ch, TRACED_QUICK)  # noqa
        bound = None if name in ("chain-race", "chain-else", "unwrap-nested") else preemptions
        if name == "gather3" and st.tier == "quick":
            bound = min(bound, 2)
        st.note("baton %s: preemption bound %s" % (name, "unbounded (all interleavings)" if bound is None else bound))
        bad = 0
        for choices, (obs, expected) in explore(body, bound=bound, st=st, max_execs=200000):
            st.n("evaluations")
            st.nt(("baton", name, choices))
            st.outcome(("baton", name, obs["state"]))
            if obs["state"] not in expected:
                bad += 1
                if bad <= 2:
                    o2 = run_once(body, choices)[1][0]
                    if o2["state"] != obs["state"]:
                        raise HarnessError("non-deterministic baton replay %s %r" % (name, choices))
                    cls = "baton/%s/%s" % (name, "aggregate-never-completes" if obs["state"] == ["pending"] else "wrong-result")
                    out.append((cls, {"kind": "baton", "name": name, "choices": choices}, "expected one of %s got %s schedule=%s" % (expected, obs["state"], obs["trace"])))
        st.sample({"baton": name, "last_schedule": obs["trace"]})
        return out
    # executor level
    from mc.sched import harness as H

    scn = {"query": case["query"], "custom": case["custom"], "overrides": case["overrides"]}
    ref, _ = H.run_config("blocking-opt", scn, None, fast=True)
    body = lambda ch: _exec_body(case, ch, traced)  # noqa
    bound = 1
    if st.tier == "thorough" and case["name"] in ("exec-siblings", "exec-boom", "exec-list"):
        bound = 2
    st.note("baton-exec %s: preemption bound %d" % (case["name"], bound))
    bad = 0
    for choices, (obs, _) in explore(body, bound=bound, st=st, max_execs=(3000 if st.tier == "quick" else 100000)):
        st.n("evaluations")
        st.nt(("baton-exec", case["name"], choices))
        st.outcome(("baton-exec", case["name"], _key(obs)))
        if _key(obs) != _key(ref):
            bad += 1
            if bad <= 2:
                o2 = run_once(body, choices)[1][0]
                if _key(o2) != _key(obs):
                    raise HarnessError("non-deterministic baton-exec replay %s %r" % (case["name"], choices))
                kind = "stuck" if obs.get("status") in ("stuck", "horizon") else ("exception-lost" if ref["status"] == "exc" else "result-differs")
                out.append(("baton-exec/%s" % kind, {"kind": "baton-exec", "case": case, "choices": choices, "traced": list(traced)},
                            "expected %s got %s" % (_key(ref), _key(obs))))
        if st.out_of_time():
            break
    return out


def replay(w):
    if w["kind"] == "baton":
        obs, expected = run_once(lambda ch: _combinator(w["name"], ch, TRACED_QUICK), w["choices"])[1]
        if obs["state"] not in expected:
            return [("baton/%s/%s" % (w["name"], "aggregate-never-completes" if obs["state"] == ["pending"] else "wrong-result"), str(obs))]
        return []
    from mc.sched import harness as H

    case = w["case"]
    scn = {"query": case["query"], "custom": case["custom"], "overrides": case["overrides"]}
    ref, _ = H.run_config("blocking-opt", scn, None, fast=True)
    obs, _ = run_once(lambda ch: _exec_body(case, ch, tuple(w["traced"])), w["choices"])[1]
    if _key(obs) != _key(ref):
        kind = "stuck" if obs.get("status") in ("stuck", "horizon") else ("exception-lost" if ref["status"] == "exc" else "result-differs")
        return [("baton-exec/%s" % kind, "expected %s got %s" % (_key(ref), _key(obs)))]
    return []
