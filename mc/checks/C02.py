# -*- coding: utf-8 -*-
"""
C02 -- parsed trees mirror the source: structure, decoded values and spans.

Engine E3.  Three exhaustive enumerations, each run through the real parser and compared with an
expectation built without it:

 (T) every derivation of the reference grammar (gen/trees.py: executable documents incl. fragment
     variable definitions and const directives on variable definitions; type-system documents incl.
     all extensions, optionally mixed with an executable definition) with <= N non-Name nodes, list
     lengths <= 2, nesting <= D; each with every leaf rotation (every literal form and every
     keyword-like name at every leaf), under every layout of gen/layout.py that departs from the
     single-space layout in one gap (all assignments for very short token lists; pairs in thorough;
     only the 7 rotated layouts for the largest size class), under every parser flag combination.  `parse(text).to_dict()` must equal the expected tree with
     the layout's expected span on every node (None everywhere under no_location), and the text of
     every node's span must parse back -- through parse_value / parse_type / parse or wrapped in the
     minimal enclosing production -- to the same sub-tree shifted uniformly.
 (Q) every valid quoted-string body over {a " \\ / b n u 0 4 D 8 e-acute U+1F600} up to L raw characters:
     StringValue.value == ref/strings.decode_quoted.
 (S) structured block-string bodies: an optional first line, then 2 and 3 content lines whose indentations run
     through all combinations of {"", " ", "  ", TAB, TAB TAB, " TAB", "TAB ", "   "}, with each line terminator
     (LF, CRLF, CR), with / without an empty or whitespace-only line in between and at the end (46 656 bodies):
     value == BlockStringValue() (indentation is a COUNT of leading space / tab characters).
 (B) every block-string body over {a space tab LF CR " \\ U+2028 U+0085 U+00A0 U+000B} up to L raw
     characters that is the body of exactly one block-string token: value == BlockStringValue().
"""
from mc.gen import layout as L
from mc.gen import trees as T
from mc.ref import strings as RS

READY = True
LEVEL = "exploration"
TECHNIQUE = "bounded-exhaustive enumeration of grammar derivations x leaf rotations x layouts x parser flags, and of raw string bodies, against an independently built expected tree / reference string semantics"
LEVEL_TEXT = (
    "Every derivation of the reference grammar up to the node bound, under every single-gap layout departure and "
    "every flag combination, and every raw string body up to the length bound, is run through the real parser "
    "(no sampling); trees, decoded values and spans are compared with an expectation that never calls py_gql. "
    "Exhaustive inside the bound; small-scope argument beyond."
)
LEVEL_NOTE = (
    "Trusted base: the grammar tables of mc/gen/trees.py (typed in from June 2018 Appendix B, self-tested: unrank is a "
    "bijection, node counts match), mc/gen/layout.py offsets, mc/ref/strings.py (self-tested on the specification's examples). "
    "Texts the implementation rejects are counted, not judged (acceptance is C01)."
)
DESIGN_REF = "DESIGN.md section 6, C02"
RULE = (
    "tree cases = chunks of derivation indices per (dialect, node count), simplest first; one evaluation = one parse of one "
    "(derivation, leaf seed, layout, flag set) compared node by node, or one re-parse of one node's span; "
    "body cases = all bodies with a given first unit; one evaluation = one parse_value of one body. "
    "non-trivial = distinct (token text, seed) accepted by the parser and compared on >= 3 nodes, or distinct string body "
    "accepted by both the reference lexical grammar and the lexer"
)
ASSUMPTIONS = [
    "SourceCharacter is read over code points (astral characters are legitimate string content)",
    "the Document node spans the whole text: its first and last tokens are the lexer's SOF and EOF tokens",
    "a shorthand operation is only generated as the first definition (elsewhere the grammar itself is ambiguous)",
    "leaf lexemes rotate through fixed pools instead of multiplying the derivations",
]
BOUNDS = {
    "quick": {
        "nodes": {"fragvars": 7, "sdl": 6},
        "single_gap_layouts_up_to_nodes": {"fragvars": 6, "sdl": 5},
        "depth": 3,
        "seeds": 10,
        "all_layouts_max_gaps": 4,
        "pair_layouts_max_tokens": 0,
        "quoted_body_len": 5,
        "block_body_len": 5,
    },
    "thorough": {
        "nodes": {"fragvars": 9, "sdl": 7},
        "single_gap_layouts_up_to_nodes": {"fragvars": 8, "sdl": 6},
        "depth": 4,
        "seeds": 20,
        "all_layouts_max_gaps": 5,
        "pair_layouts_max_tokens": 7,
        "quoted_body_len": 7,
        "block_body_len": 7,
    },
}
TIME_CAP = {"quick": 150, "thorough": 1500}
CHUNK = 40
MAX_PER_CLASS_PER_CASE = 2

Q_PLAIN = ["a", "/", "b", "n", "u", "0", "4", "D", "8", "\u00e9", "\U0001F600"]
Q_ESC = ['\\"', "\\\\", "\\/", "\\b", "\\n"]
Q_HEX = ["0", "4", "D", "8", "a", "b"]
B_ALPHA = ["a", " ", "\t", "\n", "\r", '"', "\\", "\u2028", "\u0085", "\u00a0", "\u000b"]


def selftest():
    RS.selftest()
    L.selftest()
    T.selftest()


# ------------------------------------------------------------------------------------------------
# enumeration


def _q_units():
    us = list(Q_PLAIN) + list(Q_ESC)
    for a in Q_HEX:
        for b in Q_HEX:
            for c in Q_HEX:
                for d in Q_HEX:
                    us.append("\\u" + a + b + c + d)
    return us


def cases(tier):
    b = BOUNDS[tier]
    yield {"k": "q0"}
    # string bodies, shortest first units first
    for u in _q_units():
        if len(u) <= b["quoted_body_len"]:
            yield {"k": "q", "first": u, "len": b["quoted_body_len"]}
    for c1 in B_ALPHA:
        yield {"k": "b", "prefix": c1, "len": min(1, b["block_body_len"])}
    for c1 in B_ALPHA:
        for c2 in B_ALPHA:
            yield {"k": "b", "prefix": c1 + c2, "len": b["block_body_len"]}
    # structured block strings: 2-3 content lines with every combination of mixed space/tab indentations
    for k in (2, 3):
        for first in T.BLOCK_FIRST:
            for term in T.BLOCK_TERMS:
                yield {"k": "bs", "first": first, "lines": k, "term": term}
    nmax = max(b["nodes"].values())
    for n in range(1, nmax + 1):
        for dialect in ("fragvars", "sdl"):
            if n > b["nodes"][dialect]:
                continue
            c = T.count(dialect, n, b["depth"])
            for lo in range(0, c, CHUNK):
                yield {"k": "t", "dialect": dialect, "n": n, "d": b["depth"], "lo": lo, "hi": min(c, lo + CHUNK), "tier": tier}


# ------------------------------------------------------------------------------------------------
# comparison


def _diff(exp, got, ctx):
    """first difference in pre-order -> (class, detail) or None"""
    if not isinstance(got, dict) or "__kind__" not in got:
        return "shape/%s@%s" % (exp["__kind__"], ctx), "expected node %s got %r" % (exp["__kind__"], got)
    kind = exp["__kind__"]
    if got["__kind__"] != kind:
        return "kind/%s->%s@%s" % (kind, got["__kind__"], ctx), "expected %s got %s" % (kind, got["__kind__"])
    if set(exp) != set(got):
        return "slots/%s" % kind, "slots %s vs %s" % (sorted(exp), sorted(got))
    # own attributes first
    for k in sorted(exp):
        e, g = exp[k], got[k]
        if isinstance(e, (dict, list)) and k != "loc":
            continue
        if k == "loc":
            if e is not None:
                e = tuple(e)
            if g is not None and isinstance(g, (list, tuple)):
                g = tuple(g)
            if e == g:
                continue
            if e is None:
                return "loc-present-under-no_location/%s@%s" % (kind, ctx), "loc %r" % (g,)
            if g is None:
                return "missing-loc/%s@%s" % (kind, ctx), "expected %r" % (e,)
            which = "span-start" if e[0] != g[0] else "span-end"
            return "%s/%s@%s" % (which, kind, ctx), "expected loc %r got %r" % (e, g)
        if isinstance(g, (dict, list)):
            return "attr/%s.%s@%s" % (kind, k, ctx), "expected %r got a node/list" % (e,)
        if e != g or type(e) is not type(g):
            if kind == "StringValue" and k == "value":
                return (
                    "value-decoding/%s/in-tree@%s" % ("block" if exp.get("block") else "quoted", ctx),
                    "expected %r got %r" % (e, g),
                )
            return "attr/%s.%s@%s" % (kind, k, ctx), "expected %r got %r" % (e, g)
    for k in sorted(exp):
        e, g = exp[k], got[k]
        if isinstance(e, dict):
            r = _diff(e, g, "%s.%s" % (kind, k))
            if r:
                return r
        elif isinstance(e, list) and k != "loc":
            if not isinstance(g, list):
                return "attr/%s.%s@%s" % (kind, k, ctx), "expected list got %r" % (g,)
            if len(e) != len(g):
                return "list-length/%s.%s@%s" % (kind, k, ctx), "expected %d members got %d" % (len(e), len(g))
            for x, y in zip(e, g):
                r = _diff(x, y, "%s.%s" % (kind, k))
                if r:
                    return r
    return None


def _flag_sets(dialect, uses_fragvars):
    out = []
    for ats in (False, True):
        if dialect == "sdl" and not ats:
            continue
        for efv in (False, True):
            if uses_fragvars and not efv:
                continue
            out.append({"allow_type_system": ats, "experimental_fragment_variables": efv})
    return out


def _uses_fragvars(tree):
    return any(
        nd["__kind__"] == "FragmentDefinition" and nd["variable_definitions"] for _, nd in T.walk(tree)
    )


VALUE_KINDS = (
    "IntValue", "FloatValue", "StringValue", "BooleanValue", "NullValue", "EnumValue", "ListValue",
    "ObjectValue", "Variable",
)
TYPE_KINDS = ("NamedType", "ListType", "NonNullType")
DEFINITION_KINDS = (
    "OperationDefinition", "FragmentDefinition", "SchemaDefinition", "SchemaExtension",
    "ScalarTypeDefinition", "ScalarTypeExtension", "ObjectTypeDefinition", "ObjectTypeExtension",
    "InterfaceTypeDefinition", "InterfaceTypeExtension", "UnionTypeDefinition", "UnionTypeExtension",
    "EnumTypeDefinition", "EnumTypeExtension", "InputObjectTypeDefinition", "InputObjectTypeExtension",
    "DirectiveDefinition",
)


def reparse(kind, s, flags):
    """parse the text of one node's span -> (node, length of the wrapper prefix)"""
    from py_gql.lang import parse, parse_type, parse_value

    loc_flags = {k: v for k, v in flags.items() if k == "no_location"}
    ts = dict(flags)
    ts["allow_type_system"] = True
    if kind in VALUE_KINDS:
        return parse_value(s, **loc_flags), 0
    if kind in TYPE_KINDS:
        return parse_type(s, **loc_flags), 0
    if kind == "Document":
        return parse(s, **flags), 0
    if kind in DEFINITION_KINDS:
        return parse(s, **flags).definitions[0], 0
    if kind == "SelectionSet":
        return parse(s, **flags).definitions[0].selection_set, 0
    if kind in ("Field", "FragmentSpread", "InlineFragment"):
        return parse("{" + s + "}", **flags).definitions[0].selection_set.selections[0], 1
    if kind == "Name":
        return parse("{" + s + "}", **flags).definitions[0].selection_set.selections[0].name, 1
    if kind == "Argument":
        return parse("{a(" + s + ")}", **flags).definitions[0].selection_set.selections[0].arguments[0], 3
    if kind == "Directive":
        return parse("{a " + s + "}", **flags).definitions[0].selection_set.selections[0].directives[0], 3
    if kind == "VariableDefinition":
        return parse("query(" + s + "){a}", **flags).definitions[0].variable_definitions[0], 6
    if kind == "ObjectField":
        return parse_value("{" + s + "}", **loc_flags).fields[0], 1
    if kind == "FieldDefinition":
        return parse("type A{" + s + "}", **ts).definitions[0].fields[0], 7
    if kind == "InputValueDefinition":
        return parse("input A{" + s + "}", **ts).definitions[0].fields[0], 8
    if kind == "EnumValueDefinition":
        return parse("enum A{" + s + "}", **ts).definitions[0].values[0], 7
    if kind == "OperationTypeDefinition":
        return parse("schema{" + s + "}", **ts).definitions[0].operation_types[0], 7
    raise KeyError(kind)


def _impl_error_class(e):
    from py_gql.exc import GraphQLSyntaxError

    if isinstance(e, GraphQLSyntaxError):
        return None
    return "crash:%s" % type(e).__name__


class Prepared(object):
    def __init__(self, dialect, n, d, i, seed):
        self.dialect, self.n, self.d, self.i, self.seed = dialect, n, d, i, seed
        self.term = T.unrank(dialect, n, d, i)
        self.tokens, self.tree = T.realize(self.term, T.leaf_seed(i, seed))
        self.uses_fragvars = _uses_fragvars(self.tree)

    def witness(self, gaps, flags, mode):
        return {
            "k": "t", "dialect": self.dialect, "n": self.n, "d": self.d, "i": self.i, "seed": self.seed,
            "gaps": gaps, "flags": flags, "mode": mode,
        }


def compare(p, gaps, flags, st=None):
    """one parse of one (derivation, seed, layout, flags) -> list of (class, detail); [] when equal"""
    from py_gql.lang import parse

    text, offs = L.render(p.tokens, gaps)
    if st is not None:
        st.n("evaluations")
    try:
        got = parse(text, **flags).to_dict()
    except Exception as e:  # noqa
        cls = _impl_error_class(e)
        if cls is None:
            if st is not None:
                st.n("rejected_by_parser(not judged here)")
            return []
        return [(cls, "%r on %r flags=%r" % (e, text, flags))]
    exp = L.with_locs(p.tree, offs, len(text), bool(flags.get("no_location")))
    if got == exp:
        return []
    r = _diff(exp, got, "-")
    if r is None:
        return [("unequal-but-no-diff", "%r" % text)]
    return [(r[0], "%s; text=%r flags=%r" % (r[1], text, flags))]


def compare_spans(p, gaps, flags, st=None):
    """re-parse the spanned text of every node of the expected tree"""
    text, offs = L.render(p.tokens, gaps)
    out = []
    seen = set()
    for path, nd in T.walk(p.tree):
        kind = nd["__kind__"]
        if kind == "Document":
            continue
        i, j = nd["_tok"]
        a, b = offs[i][0], offs[j][1]
        key = (kind, a, b)
        if key in seen:
            continue  # e.g. NamedType and its Name share a span: same wrapper only once per kind
        seen.add(key)
        s = text[a:b]
        if st is not None:
            st.n("evaluations")
            st.n("span_reparses")
        try:
            node, plen = reparse(kind, s, flags)
            got = node.to_dict()
        except Exception as e:  # noqa
            cls = _impl_error_class(e) or "span-does-not-reparse/%s" % kind
            out.append((cls, "%r on span text %r of %s in %r" % (e, s, kind, text)))
            continue
        exp = L.with_locs(nd, offs, len(text), bool(flags.get("no_location")), shift=plen - a)
        if got != exp:
            r = _diff(exp, got, "-") or ("unequal", "")
            out.append(("span-reparse-differs/%s/%s" % (kind, r[0]), "%s; span text %r in %r" % (r[1], s, text)))
    return out


def _layouts(p, b):
    ntok = len(p.tokens)
    if p.n > b["single_gap_layouts_up_to_nodes"][p.dialect]:
        # the largest size class: only the len(SEPS) rotated layouts (every gap still sees every separator)
        for g in L.rotations(p.tokens):
            yield g
        return
    if ntok + 1 <= b["all_layouts_max_gaps"]:
        for g in L.all_assignments(p.tokens):
            yield g
        return
    for g in L.single_deviations(p.tokens):
        yield g
    if ntok <= b["pair_layouts_max_tokens"]:
        for g in L.pair_deviations(p.tokens):
            yield g


def explore_tree(dialect, n, d, i, b, st):
    """all configurations of one derivation -> list of (class, witness, detail)"""
    out = []
    p = Prepared(dialect, n, d, i, 0)
    base = L.default_gaps(p.tokens)
    fsets = _flag_sets(dialect, p.uses_fragvars)
    base_flags = fsets[-1]

    dirty = set()

    def run(pp, gaps, flags, mode="compare"):
        key = (pp.seed, tuple(gaps))
        if mode == "spans" and key in dirty:
            return []  # the tree itself is already reported for this configuration
        res = compare(pp, gaps, flags, st) if mode == "compare" else compare_spans(pp, gaps, flags, st)
        if res:
            dirty.add(key)
        for cls, detail in res:
            out.append((cls, pp.witness(gaps, flags, mode), detail))
        return res

    # A. every flag combination on the plain layout
    for fs in fsets:
        for noloc in (False, True):
            f = dict(fs)
            if noloc:
                f["no_location"] = True
            run(p, base, f)
    text, _ = L.render(p.tokens, base)
    st.nt(text)
    for path, nd in T.walk(p.tree):
        # distinct observable outcomes: node kinds in their parent slots that were produced and compared
        st.outcome((nd["__kind__"], path[-2] if len(path) >= 2 and isinstance(path[-1], int) else (path[-1] if path else None)))
    st.mx("tokens", len(p.tokens))
    # B. spans re-parse (plain layout, and one rotated layout below)
    run(p, base, base_flags, "spans")
    # C. leaf rotations
    for seed in range(1, b["seeds"]):
        pp = Prepared(dialect, n, d, i, seed)
        run(pp, L.default_gaps(pp.tokens), base_flags)
        if seed == 1 + i % max(1, b["seeds"] - 1):
            run(pp, L.default_gaps(pp.tokens), base_flags, "spans")
        st.nt(L.render(pp.tokens, L.default_gaps(pp.tokens))[0])
    # D. layouts
    k = 0
    for gaps in _layouts(p, b):
        run(p, gaps, base_flags)
        k += 1
        if k % 64 == 0 and st.out_of_time():
            break
    st.n("layouts", k)
    # E. one rotated layout with span re-parse and no_location
    rot = list(L.rotations(p.tokens))[i % len(L.SEPS)]
    run(p, rot, base_flags)
    run(p, rot, base_flags, "spans")
    f = dict(base_flags)
    f["no_location"] = True
    run(p, rot, f)
    if i % 211 == 0:
        st.sample({"dialect": dialect, "n": n, "i": i, "text": text})
    return out


# ------------------------------------------------------------------------------------------------
# string bodies


def check_quoted(body, st=None):
    from py_gql.lang import parse_value

    exp = RS.decode_quoted(body)
    if exp is None:
        return []
    if st is not None:
        st.n("evaluations")
    try:
        node = parse_value('"' + body + '"')
    except Exception as e:  # noqa
        cls = _impl_error_class(e)
        if cls is None:
            if st is not None:
                st.n("rejected_by_parser(not judged here)")
            return []
        return [(cls, "%r on quoted body %r" % (e, body))]
    if st is not None:
        st.n("string_bodies_compared")
    got = node.value
    if node.__class__.__name__ != "StringValue" or node.block is not False:
        return [("attr/StringValue.block@quoted-body", "body %r -> %r" % (body, node))]
    if got == exp and node.loc == (0, len(body) + 2):
        return []
    if got == exp:
        return [("span-end/StringValue@quoted-body", "loc %r for body %r" % (node.loc, body))]
    feat = "escape" if "\\" in body else "plain"
    return [("value-decoding/quoted/%s" % feat, "body %r expected %r got %r" % (body, exp, got))]


BLOCK_VARIANTS = [("py-splitlines",), ("py-lstrip",)]


def check_block(body, st=None):
    from py_gql.lang import parse_value

    exp = RS.decode_block(body)
    if exp is None:
        return []
    if st is not None:
        st.n("evaluations")
    try:
        node = parse_value('"""' + body + '"""')
    except Exception as e:  # noqa
        cls = _impl_error_class(e)
        if cls is None:
            if st is not None:
                st.n("rejected_by_parser(not judged here)")
            return []
        return [(cls, "%r on block body %r" % (e, body))]
    if st is not None:
        st.n("string_bodies_compared")
    if node.__class__.__name__ != "StringValue" or node.block is not True:
        return [("attr/StringValue.block@block-body", "body %r -> %r" % (body, node))]
    got = node.value
    if got == exp:
        if node.loc != (0, len(body) + 6):
            return [("span-end/StringValue@block-body", "loc %r for body %r" % (node.loc, body))]
        return []
    # which departure from the specification's notions of line / blank explains the value?
    detail = "block body %r expected %r got %r" % (body, exp, got)
    # class "like=X": the observed value equals a model that includes departure X (alone, or together with
    # the other one when neither explains it alone) -- i.e. repairing X is necessary for this witness
    singles = [v for v in BLOCK_VARIANTS if RS.decode_block(body, v) == got]
    if singles:
        return [("value-decoding/block/like=%s" % v[0], detail) for v in singles]
    if RS.decode_block(body, ("py-splitlines", "py-lstrip")) == got:
        return [("value-decoding/block/like=%s" % v[0], detail + " (both departures needed)") for v in BLOCK_VARIANTS]
    return [("value-decoding/block/like=none", detail)]


def _q_bodies(first, maxlen):
    units = _q_units()

    def rec(prefix):
        yield prefix
        for u in units:
            if len(prefix) + len(u) <= maxlen:
                for x in rec(prefix + u):
                    yield x

    return rec(first)


def _b_bodies(prefix, maxlen):
    def rec(p):
        yield p
        if len(p) < maxlen:
            for c in B_ALPHA:
                for x in rec(p + c):
                    yield x

    return rec(prefix)


# ------------------------------------------------------------------------------------------------


def check_case(case, st):
    out = []
    per_class = {}

    def emit(cls, wit, detail):
        k = per_class.get(cls, 0)
        per_class[cls] = k + 1
        if k < MAX_PER_CLASS_PER_CASE:
            out.append((cls, wit, detail))
        else:
            st.n("further_witnesses_not_listed:" + cls)

    k = case["k"]
    if k == "q0":
        for cls, detail in check_quoted("", st) + check_block("", st):
            emit(cls, {"k": "q", "body": ""}, detail)
        st.nt("q:")
    elif k == "q":
        cnt = 0
        for body in _q_bodies(case["first"], case["len"]):
            cnt += 1
            for cls, detail in check_quoted(body, st):
                emit(cls, {"k": "q", "body": body}, detail)
            if cnt % 4096 == 0 and st.out_of_time():
                break
        st.n("quoted_bodies", cnt)
        st.n("distinct_bodies", cnt)
        st.mx("quoted_body_len", case["len"])
    elif k == "b":
        cnt = 0
        for body in _b_bodies(case["prefix"], case["len"]):
            if len(case["prefix"]) == 2 and len(body) < 2:
                continue
            cnt += 1
            for cls, detail in check_block(body, st):
                emit(cls, {"k": "b", "body": body}, detail)
            if cnt % 4096 == 0 and st.out_of_time():
                break
        st.n("block_bodies", cnt)
        st.mx("block_body_len", case["len"])
    elif k == "bs":
        cnt = 0
        for body in T.block_family(case["first"], case["lines"], case["term"]):
            cnt += 1
            for cls, detail in check_block(body, st):
                emit(cls, {"k": "b", "body": body}, detail)
        st.n("structured_block_bodies", cnt)
        st.nt("bs:%r" % sorted(case.items()))
    elif k == "t":
        b = BOUNDS[case["tier"]]
        for i in range(case["lo"], case["hi"]):
            if st.out_of_time():
                st.n("derivations_skipped_by_time_cap", case["hi"] - i)
                break
            st.n("derivations")
            st.n("derivations:%s" % case["dialect"])
            for cls, wit, detail in explore_tree(case["dialect"], case["n"], case["d"], i, b, st):
                emit(cls, wit, detail)
        st.mx("nodes:%s" % case["dialect"], case["n"])
    return out


def replay(witness):
    k = witness["k"]
    if k == "q":
        return check_quoted(witness["body"])
    if k == "b":
        return check_block(witness["body"])
    p = Prepared(witness["dialect"], witness["n"], witness["d"], witness["i"], witness["seed"])
    if witness.get("mode") == "spans":
        return compare_spans(p, witness["gaps"], witness["flags"])
    return compare(p, witness["gaps"], witness["flags"])
